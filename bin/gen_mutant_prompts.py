#!/usr/bin/env python3
"""Writes the task description for the sub-agents that produce seeded property-breaking changes.

usage: gen_mutant_prompts.py <round> <ID> [<ID> ...]   ->  /tmp/prompt<round>-<ID>.txt, worktree path /tmp/wt<round>-<ID>

The agent gets the text of one property, its own scratch worktree and the summaries of the changes earlier rounds
produced for that property (so that it looks elsewhere) - nothing from /verif.
"""
import glob
import json
import re
import sys

rnd, ids = sys.argv[1], sys.argv[2:]
props = {}
for l in open('/verif/properties.jsonl'):
    p = json.loads(l)
    props[p['id']] = p
for pid in ids:
    p = props[pid]
    wt = '/tmp/wt%s-%s' % (rnd, pid)
    prior = []
    for d in sorted(glob.glob('/verif/seeded/%s-*m*/meta.json' % pid)):
        try:
            m = json.load(open(d))
            prior.append('- ' + re.sub(r'\s+', ' ', m.get('summary', ''))[:220])
        except Exception:
            pass
    anchors = ', '.join(p['anchors']['files'])
    txt = f'''You are helping test a verification framework by writing a realistic *property-breaking change* (a seeded bug) for the Go library la5nta/wl2k-go (Winlink B2F protocol, LZHUF compression, mailbox, TNC transports).

Work ONLY inside your own scratch git worktree of the repository: {wt}  (do not touch /repo, do not read or touch /verif; nothing outside {wt} and /tmp is yours).

Environment: no network. Use `export GOFLAGS=-mod=mod GOPROXY=off` in every shell. The existing test suite is run with: `cd {wt} && go test -vet=off -count=1 ./...` (52 tests, all pass on the unmodified tree).

THE PROPERTY ({pid}: {p['title']}):
"{p['statement']}"
Quantifier: {p['quantifier']['text']}
Code anchors: {anchors}

YOUR TASK: produce 3 different, independent changes ("mutants") to the library source (non-test .go files) such that each one:
 1. still compiles and the WHOLE existing test suite still passes with the change applied;
 2. BREAKS the property above, i.e. there is a concrete input / sequence of operations / schedule / fault for which the property's statement is false with your change but true without it;
 3. needs something SPECIFIC to manifest - a particular interleaving, a crash or fault at a particular point, a multi-step sequence of operations, an unusual input or boundary value, or two cooperating sites that each look fine alone. Do NOT produce changes that ordinary use would expose at once (e.g. breaking every call). Make them look like plausible refactoring slips or "optimisations" a maintainer could commit;
 4. is small (a few lines), and different from the others in mechanism.

Earlier rounds already produced the following changes for this property. Do NOT repeat them or close variants of them; look for different code sites, different clauses of the property statement, and different triggering conditions (every clause of the statement and the quantifier is fair game; think about sequences of several operations, concurrency, unusual but legal configurations, environment variables and options the code reads, error paths, and values at the limits of the formats):
{chr(10).join(prior)}

For each mutant k = 1..3 create a directory {wt}/_mutants/m<k>/ containing:
  - patch.diff   : `git diff` output of ONLY the library change (relative to HEAD of the worktree), applicable with `git apply`;
  - demo_test.go : a demonstration that FAILS with the change applied and PASSES without it. State in its header comment which package directory it must be copied into and the exact `go test -run ...` command. The demo must not be part of patch.diff;
  - meta.json    : {{"property": "{pid}", "summary": "...what the change does...", "needs": "...what specific input/sequence/schedule/fault is needed for it to manifest...", "files": [...], "demo_cmd": "..."}}.
Verify each yourself: (a) apply patch, run whole suite -> passes; (b) with patch, demo fails; (c) revert patch, demo passes (run it several times if timing is involved: it must never fail on the unmodified tree). Leave the worktree CLEAN (git checkout -- . and remove copied demo tests) when finished; only the _mutants/ directory remains (untracked).

Important: judge "breaks the property" strictly against the property statement as written (observable behaviour at the public API), not internal details. If the unmodified tree already violates the property for some input, do not count that; your change must introduce a NEW violation.

Additional requirements for the demo: it must be a Go test file (package-internal or external test) that can be copied into ONE package directory of the repository and run with `go test -vet=off -count=1 -run '<Regex>' ./<pkgdir>/`; put exactly that command at the end of meta.json's demo_cmd. The demo must finish within 60 seconds and must not depend on the network or on files outside the worktree.

Work economically: read only the files you need, write each file once, do not print large files. Keep your final report SHORT: a table with one line per mutant (number, one-line summary, trigger). Do not paste code or long explanations into the final report.'''
    open('/tmp/prompt%s-%s.txt' % (rnd, pid), 'w').write(txt)
    print(pid, len(txt))
