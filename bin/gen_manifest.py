#!/usr/bin/env python3
"""Regenerates MANIFEST.json from the table below (single source of truth for the interface)."""
import json
import os

V = os.path.dirname(os.path.dirname(os.path.abspath(__file__)))

CHECKS = {
 "C10": dict(
    level="model_checking",
    text="Mailbox.tla is model-checked exhaustively per message universe; every (state, operation, state') edge of the "
         "dumped state graph is executed on a real mailbox.DirHandler and the complete observation after every operation "
         "(folder listings, counts, unread flags, proposal answers, GetOutbound per forwarder list, private headers, "
         "content identity) is compared by TLC (MailboxTrace.tla); long random histories are validated the same way.",
    note="Trusted: TLC, Go toolchain, the address-normalisation table of spec/mailbox/universes.json, byte identity "
         "computed by the harness. Contract preconditions (Prepare first, fresh MIDs, SetSent only for offered messages) "
         "are enabling conditions of the model.",
    technique="TLA+ reference model, exhaustive TLC graph -> edge-covering replay on real code, TLC trace validation",
    design="4 C10"),
 "C20": dict(
    level="model_checking",
    text="PosReport.tla states the format in exact integer arithmetic (half ten-thousandths of a minute). TLC checks the "
         "reference algorithm exhaustively on a scaled universe and exhibits the named deviation SplitThenRound (60.0000 "
         "minutes); real PosReport.Message outputs for a structured input set (grid, half-unit neighbourhoods of every whole "
         "degree and sampled minutes, float neighbours, random) are parsed and judged by TLC (PosReportTrace.tla): minutes < 60, "
         "hemisphere, value within half a unit, widths, Validate(); all courses x {T,M}; all 16 optional-field combinations.",
    note="Trusted: TLC, math/big exact conversion of the float64 input, the regular-expression lexer of the body lines. Inputs are "
         "sampled (dense around the boundaries), not all float64 values. A slack of 1e-7 minute is allowed at exact rounding ties.",
    technique="TLA+ arithmetic specification, TLC design check (scaled) + TLC validation of recorded real outputs",
    design="4 C20"),
 "C19": dict(
    level="model_checking",
    text="Url.tla gives the expected parse of a component tuple (scheme, userinfo, host, host parameter, digipeater path, target, "
         "parameters); the harness composes URLs by the documented grammar, calls the real ParseURL and TLC compares every field "
         "(exhaustive cores + seeded sample of the product; raw and mutated strings must yield URL or error). Dialers.tla models the "
         "registry as a linearisable object (TLC design check); concurrent register/unregister/dial histories of the real registry, "
         "run under the race detector, are validated by TLC with the linearisation steps inferred; a Go runtime abort inside a registry "
         "function of the library (unsynchronised map) is a violation.",
    note="Trusted: TLC, net/url escaping used for composition, the upper-case table generated with the vocabulary, Go race detector, "
         "recorder lock as happens-before order. Concurrency is sampled (runtime schedules), not exhaustively scheduled.",
    technique="TLA+ expected-parse operator + linearisability checking of recorded concurrent histories by TLC",
    design="4 C19"),
 "C01": dict(
    level="model_checking",
    text="Two real fbb.Session objects exchange TLC/seed-generated message sets over an in-memory duplex that is also the scheduler "
         "(free / run-A-first / run-B-first / synchronous; all-at-once, 1-byte, random and line segmentation), with GZIP on and off. "
         "Every handler call, every wire unit lexed by the independent judge, both results, statistics and Close are recorded and "
         "validated by TLC against the property monitor B2FProps.tla (each event must be an enabled action; End requires "
         "CompleteExchange, exact statistics, both nil, both closed); the mechanism model B2F.tla is model-checked against the same "
         "monitor properties, and the same recorded executions are validated against it (B2FTrace.tla: silent steps inferred by TLC; "
         "a rejection there alone is reported as SPEC-DRIFT). The run also model-checks RobustMode.tla (robust-mode switching of a "
         "session, with two named wrong variants) and validates one trace per station of real sessions, clean and cut, whose "
         "connection records every SetRobust call (RobustModeTrace.tla; outside the listed property, so a rejection is SPEC-DRIFT).",
    note="Trusted: TLC, the wire lexer and bitwise CRC written from docs/F6FBB-B2F, byte identity by bytes.Equal, recorder order "
         "(events are appended inside the call path). Message sets and segmentations are sampled beyond the seed-independent core.",
    technique="TLA+ property monitor + mechanism model; TLC trace validation of recorded real two-station sessions",
    design="4 C01"),
 "C02": dict(
    level="fault_enumeration",
    text="Link cut after every byte count k in either direction (all k for the smallest scenario, stride + confirmation window for the "
         "others; thorough: all k), writer-sees-error / silent-success and in-flight-reverse-bytes delivered / dropped variants, storage "
         "failure at every inbound index, multi-fault sequences, each followed by a clean session on the same mailboxes; in-memory "
         "duplicate-suppressing handler and the real DirHandler. TLC validates every recorded session against B2FProps.tla: NoFalseSent "
         "and the other invariants at every step, both Exchange calls return (watchdog), EndAll = delivered exactly once and reported. "
         "The faulty executions are also validated against the mechanism model B2F.tla with its Cut / StoreFail / WriteFails "
         "environment (B2FTrace.tla; which units survive a cut is inferred by TLC).",
    note="Trusted: as C01, plus the cut model of the in-memory link. A DirHandler crash inside a session is C11's subject.",
    technique="fault enumeration on real sessions judged by TLC trace validation against the TLA+ monitor",
    design="4 C02"),
 "C04": dict(
    level="fault_enumeration",
    text="Real sessions through a tampering duplex: substitutions, deletions, insertions at (nearly) every offset of the SOH..EOT range "
         "of four message shapes, the structural bytes, and sum-compensating +d/-d pairs inside block data, with LZHUF and gzip "
         "payloads. The independent lexer and CRC decide whether the protocol's checks still hold for the altered bytes; TLC validates "
         "against the monitor that nothing is stored unless they hold, nothing stored is corrupt, the sender does not record it as sent, "
         "and a following clean session delivers it exactly once.",
    note="Trusted: as C01, plus the classification of alterations by the independent lexer/CRC. An alteration the independent judge also "
         "accepts as fully valid is excluded, as the property states.",
    technique="fault enumeration (in-transit alterations) on real sessions judged by TLC trace validation against the TLA+ monitor",
    design="4 C04"),
 "C05": dict(
    level="model_checking",
    text="The library talks to an independently written scripted B2F peer whose free choices (role, SID feature strings, ;FW forms, "
         "comment/;PM/MOTD placement, answer alphabet incl. zero-offset accepts, block sizes 1..256, duplicate MIDs, early FQ in turn and CMS-style (FQ and hang-up right after the peer's last block); library "
         "user agent, callsign case, locator, auxiliary addresses) are drawn per scenario. Every byte the Session emits is lexed by the "
         "independent lexer and all units/handler events are validated by TLC against the protocol rules and the prescribed outcome of "
         "the monitor B2FProps.tla.",
    note="Trusted: TLC; peer and lexer are my reading of docs/F6FBB-B2F (Winlink's own B2F document is not in the sandbox); the peer's "
         "LZHUF codec is the library's (C07 covers codec independence); H is read as deferral, E is not sent, lines end in CR only.",
    technique="independent scripted peer + lexer as judge; TLC trace validation against the TLA+ protocol monitor",
    design="4 C05"),
 "C16": dict(
    level="model_checking",
    text="A real slave Session answers ;PQ challenges of the scripted master (digit, non-digit, short, long challenges; passwords with "
         "arbitrary printable bytes, spaces, Latin-1; 0-3 auxiliary addresses with/without password; callback absent / failing), 16 "
         "handshakes concurrently. The lexed ;FW and ;PR lines plus the MD5 digests computed by the harness form one Login event per "
         "handshake; TLC evaluates the response arithmetic of Secure.tla (30-bit little-endian value, last eight decimal digits, zero "
         "padded), the aux-address tokens, ;PR-before-first-command, failure without callback, and PasswordNeverOnWire.",
    note="Trusted: TLC, crypto/md5, the wire lexer; salt.json is tied to Secure.tla's Salt by an ASSUME and anchored by the repository's "
         "published vector. An empty ;PQ challenge is C03's subject (robustness), not judged here.",
    technique="executable TLA+ arithmetic specification evaluated by TLC over recorded real handshakes",
    design="4 C16"),
 "C03": dict(
    level="exploration",
    text="B2FRobust.tla is the hostile-input automaton (protocol phase x token class -> only Continue/ReturnNil/ReturnErr); TLC enumerates "
         "all class paths to a depth bound; a covering subset plus a sample is concretised into byte transcripts (malformed handshake "
         "lines, commands, answers, frames, payloads with repaired checksums, decompressed messages with repaired CRC so the deepest "
         "layer is reached) and conforming transcripts are mutated at the byte level; each transcript is fed to a real Session (both "
         "roles, with and without outbound pending, three read segmentations) in an isolated child process with a 5 s watchdog and "
         "allocation accounting; TLC validates the outcomes against the automaton.",
    note="Classes, not all byte strings; memory proportionality is a threshold (32 MiB + 4096 x bytes received), not a proof. Trusted: "
         "TLC, the concretiser, runtime.MemStats.",
    technique="TLA+ input automaton -> TLC-enumerated class paths -> real sessions in child processes; TLC validates outcomes",
    design="4 C03"),
 "C17": dict(
    level="model_checking",
    text="Status.tla models session and reporter goroutines with vector clocks: TLC shows the communicated-count design race-free and "
         "well-formed over all interleavings and finds the race in the shared-buffer design. Binding: two-station sessions built with "
         "-race, recording StatusUpdaters, transports paced so that 0, 1 or many reporting periods fall inside a transfer, with and "
         "without TxBufferLen/Flush, sizes from one chunk to ~100 KB; race reports and every Status report are validated by TLC "
         "against StatusProps.tla (range, proposal, total, exactly one Done, nothing after it, and a complete message in the Done "
         "report of every received message: the model's FinalSeesResult, with the deferred-store deviation as counterexample).",
    note="The race detector only sees executed interleavings. Trusted: TLC, Go race detector, recorder order.",
    technique="TLA+ vector-clock model (design) + race-detector runs and TLC validation of recorded status reports",
    design="4 C17"),
 "C18": dict(
    level="exploration",
    text="Body.tla (scaled wrap/token constants) is model-checked for TextPreserved and CRLFAndBound over all texts up to a bound and "
         "exhibits the named deviations ScannerGivesUp / SplitInsideRune. TLC enumerates shape descriptors (runs of ascii/wide/mixed "
         "characters x length classes around 998 and 65536 x terminators); the harness expands them with the real constants, calls "
         "the real SetBody and the projection's predicates (CRLF only, longest line, text preserved modulo CR/LF in Latin-1, Body "
         "header = stored length, Body() accessor) are judged by BodyTrace.tla.",
    note="The predicate is computed by the projection in the harness; the TLA+ layer supplies the case analysis and the design "
         "argument (thin, claimed as exploration). Trusted: TLC, the projection.",
    technique="TLA+ step-machine model (design, deviations) + TLC-enumerated shape plan executed on real code",
    design="4 C18"),
 "C09": dict(
    level="model_checking",
    text="Message.tla states Parse(Serialise(m)) = m and canonicity of the section layout (declared lengths, CRLF separators only when "
         "attachments exist) for all (body, attachments) over {x, CR, LF, NUL} up to a bound; TLC checks it exhaustively and the same "
         "enumeration is the test plan: every item is built through the public API with cycling recipient forms, Latin-1/ASCII "
         "subjects and file names, dates, extra X- headers, serialised, parsed back through five reader chunkings, compared header by "
         "header, body, attachments and accessor by accessor, and re-serialised (identity oracle judged by MessageTrace.tla); seeded "
         "Latin-1 rich and large messages in addition. Byte layout vs. specification is a SPEC-DRIFT diagnostic.",
    note="Q-encoding and date layouts are opaque tokens to the specification; their fidelity is the identity oracle's job. Values "
         "with leading/trailing white space are not representable in the header format (values are trimmed) and are not generated.",
    technique="TLA+ format model checked exhaustively; its enumeration replayed on real code with an identity oracle judged by TLC",
    design="4 C09"),
 "C06": dict(
    level="model_checking",
    text="Lzhuf.tla (executable format specification) is checked exhaustively in a scaled configuration: for every input up to the bound "
         "and every coding the nondeterministic encoder may choose (any match length/distance, overlapping matches, matches into the "
         "initial window, across tree rebuild), the decoder returns the input and consumes exactly the bits produced. Binding: the real "
         "Writer/Reader on exhaustive short strings, runs, periodic and window-boundary shapes, random/text/skewed data and a 70 000 "
         "symbol input, all write compositions of short inputs and 59/60/61 pre-fill splits, read schedules incl. 1-byte reads, with "
         "and without CRC; every API call is an event validated by TLC against LzhufStream.tla (bytes, EOF exactly at the end, "
         "Close = nil, compressed bytes independent of the write split).",
    note="Trusted: TLC, byte comparison in the harness. Inputs beyond the exhaustive core are generated families.",
    technique="TLA+ executable codec specification (scaled exhaustive) + TLC validation of recorded Writer/Reader API traces",
    design="4 C06"),
 "C07": dict(
    level="model_checking",
    text="The independent codec is the TLA+ module Lzhuf.tla evaluated by TLC in the canonical configuration (N=2048, F=60, adaptive "
         "Huffman with rebuild at 0x8000, position code derived canonically from its length profile). Library -> reference: streams of "
         "the real Writer and the repository's golden .lzh files are decoded by TLC and must equal the input, using the stream's bits "
         "up to the padding; the B2 header is judged by an independent CRC. Reference -> library: token parses (nearest, farthest, "
         "shortest, random, literal-only; overlapping and initial-window matches) are validated and coded by TLC and the real Reader "
         "must decode them under several buffer sizes, with and without CRC, Close = nil.",
    note="TLC evaluates ~1-3 k symbols/s, so reference decoding is budgeted (quick 200 k symbols plus a 48 k-symbol stream crossing the tree rebuild, thorough 900 k incl. a stream crossing "
         "the tree rebuild); larger inputs are covered by C06's self-consistency only.",
    technique="executable TLA+ codec evaluated by TLC as the independent implementation, both directions",
    design="4 C07"),
 "C08": dict(
    level="exploration",
    text="Every truncation, bit flips, header edits (sizes -1, 0, true+-1, +60, 2^31-1, -2^31, with/without repaired CRC), CRC edits (incl. the values a reader "
         "would compute with one to four extra flush bytes), "
         "splices of valid streams and random bytes with plausible headers are read through the real Reader with buffer sizes "
         "{1,2,59,60,61,4096}; every NewReader/Read/Close is an event validated by TLC against LzhufStream.tla (no panic, no (0,nil) "
         "spinning within a read budget, sticky errors, at most the declared size, Close = nil only if CRC and size hold; Close is asked "
         "up to three times and a later success counts as the reader's). For "
         "survivors (Close = nil) the canonical decoding is computed by Lzhuf.tla (TLC) and must equal the bytes read.",
    note="Mutations are sampled with a stride in the quick tier; survivors judged by the reference codec are budgeted.",
    technique="mutation exploration judged by TLC trace validation against the stream contract + TLA+ reference decoding of survivors",
    design="4 C08"),
 "C11": dict(
    level="fault_enumeration",
    text="MailboxFS.tla describes every store operation as file-system steps with a Crash between any two steps and inside a write; TLC "
         "shows the recovery invariants (folders load, dedup sound, older messages intact) hold for write-temp-then-rename and fail "
         "for write-in-place. Binding: each mutating call is recorded under strace in a child; for every recorded call index (killed "
         "before it) and every prefix length of every write (torn) the state is materialised on a copy of the pre-state and the real "
         "recovery code runs on it; MailboxFSTrace.tla judges: every folder lists, older messages intact, out xor sent, 'already "
         "received' only for a complete copy. MailboxFSSeq.tla extends the model to sequences of store / rewrite operations with "
         "crashes and restarts in between (names and inodes kept apart): the code's protocol keeps a complete message complete, "
         "link-then-unlink publication does not; binding: every kill point of the first operation is the start of a second recorded "
         "operation (restart, rewrite) whose crash points are enumerated in turn, hard links preserved.",
    note="Crash states are materialised from the recorded syscall sequence (full replay is checked to reproduce the real result), not "
         "by killing the process at each point. A crash is a process kill: no fsync / write reordering model.",
    technique="TLA+ crash-point model + strace-recorded syscall enumeration of real operations, recovery judged by TLC",
    design="4 C11"),
 "C12": dict(
    level="exploration",
    text="MailboxFS.tla models remote-chosen identifiers as path-segment sequences and the lexical resolution of <folder>/<MID>.b2f; TLC "
         "enumerates all MIDs up to four segments with their Confined flag and checks that single-segment MIDs are always confined. "
         "Every MID plus specials (absolute, NUL, very long, non-ASCII, backslash, seeded) is used in ProcessInbound (Mid header), "
         "GetInboundAnswer, SetDeferred and SetSent on a real DirHandler in a sandbox tree with bait files; an exact before/after "
         "snapshot (path, size, mtime, inode, SHA-1) is judged by MailboxFSTrace.tla: nothing outside the mailbox changes.",
    note="Exact oracle (file-system snapshot) on model-generated inputs; SetSent runs in a child process because it may log.Fatalf.",
    technique="TLA+ path-resolution model generates identifiers; real calls judged by file-system snapshots via TLC trace validation",
    design="4 C12"),
 "C15": dict(
    level="model_checking",
    text="Telnet.tla explores all segmentations of the peer's login lines and payload and all fill sizes of the private login reader: "
         "CleanStream holds with a buffered handover and fails with a raw one (OverRead), DialReturns holds iff the login is bounded "
         "by the deadline. Binding over loopback TCP: Dial/DialTimeout/DialContext/DialURL against the package's own listener (payload "
         "both ways; callsigns and passwords incl. spaces, non-ASCII, 1 KB); Accept against a raw client with planned TCP writes "
         "(coalesced ... byte-wise, with/without gaps); Dial* against raw servers (silent, partial prompt, garbage, early close, "
         "stall, split prompts, pipelined payload, MOTD) with 150-400 ms deadlines; judged by TelnetPropsTrace.tla.",
    note="Real TCP: coalescing of back-to-back writes on loopback is likely but not guaranteed; deadlines are judged with 2 s slack.",
    technique="TLA+ segmentation/handover model (design, deviations) + TLC validation of recorded real TCP logins",
    design="4 C15"),
 "C13": dict(
    level="model_checking",
    text="Agwpe.tla models the inbound demux pipeline (TNC read loop, root/port/connection demux goroutines, non-blocking Enqueue into "
         "capacity-1 channels, buffered data channel, Conn.Read): TLC proves InOrderNoLossNoDup for a blocking Enqueue, finds loss for "
         "the implementation's DropWhenFull and computes the loss-free envelope (1 frame). Binding: a simulated AGWPE TNC on loopback "
         "TCP with its own header lexer; schedules run in child processes: writes on ports 0..3 with/without digipeaters, refusals, "
         "inbound frames with TCP segmentation (mid-header, mid-data, byte-wise, coalesced), reader buffers 1..4096, foreign "
         "callsigns/ports/kinds, the accept path, bursts, malformed frames; AgwpePropsTrace.tla judges stream equality, frame "
         "well-formedness, payload concatenation, the X, C/v, Y, d exchanges, API results and crashes; AgwpeTrace.tla validates the "
         "library's own debug log (frames read, frames dropped) plus the application's Read calls against the pipeline of Agwpe.tla "
         "with inferred silent steps, so that a loss counts as the known drop-when-full finding only if the logged drops explain it; AgwpeTx.tla models the "
         "transmit side (Y polling before and after each D frame, Flush) and AgwpeTxTrace.tla validates the TNC's view of D frames and "
         "Y polls merged with the Write / Flush calls against it; AgwpeMux.tla models several connections sharing one port (polls "
         "answered in any order, replies routed by callsign pair; FlushSound, OwnReport, FlushEnds; deviation: replies matched at the "
         "port) and AgwpeMuxTrace.tla validates the TNC's per-connection log of two concurrently flushing connections against it; a "
         "reply that arrives after its request gave up must not stop the stream (GiveUp / DemuxLive in the model). A schedule that "
         "fails among the parallel schedules is run again on its own before it is reported; what the library's own log identifies "
         "(dropped frames: the known finding; a disconnect frame from the dial's cancellation watcher after a successful dial) is not "
         "subject to that. AgwpeReg.tla: registrations on a demux while it delivers (NoEmbrace; the code before fix 4ae63af as "
         "counterexample); the malformed-input case connect-during-close runs in an oversubscribed batch.",
    note="Internal goroutine interleavings of the library are not controlled (no gates); paced schedules stay inside the envelope. "
         "Frame loss on bursts is a recorded known finding (design-level flow control). Real-time polls make each schedule cost seconds.",
    technique="TLA+ pipeline model (design, envelope) + simulated TNC schedules on real code judged by TLC trace validation",
    design="4 C13"),
 "C14": dict(
    level="model_checking",
    text="Ardop.tla models N Writes, CRCFAULT re-send (three attempts), BUFFER reports (also reports that cross a frame on the line), "
         "the flush lock and the control loop; TLC checks WriteCountHonest, NoAcceptedWriteLost, RetransmitOnCrcFault, "
         "FlushAfterBufferZero over all interleavings and exhibits the named deviation and the known finding in separate configurations. Binding: a simulated ARDOP TNC on a "
         "CRC-protected in-memory serial line (own CRC-16 0x8810/0xFFFF and lexer) and a TCP port pair; schedules in child processes: "
         "write sizes 1..200 000, 0-3 CRCFAULTs, BUFFER sequences incl. never-zero, ARQ frames 1..65 530 bytes with reader buffers "
         "1..70 000, FEC/IDF/ERR frames and BUSY/NEWSTATE/PTT events interleaved, dial/listen, refusals, malformed control lines and "
         "frames, Close while the buffer never empties, bursts beyond the receive queue with a late or absent reader, TNC commands from "
         "another goroutine while the application writes (also over a slow line); ArdopPropsTrace.tla judges stream equality, host framing, retransmission, Flush, PTT order, DISCONNECT and crashes; "
         "ArdopTrace.tla validates the TNC side event log of every outbound schedule against Ardop.tla (silent steps inferred).",
    note="Internal goroutine interleavings of the library are not controlled. The model also exhibits a schedule on which Flush never "
         "returns (BUFFER n and BUFFER 0 processed before Write takes the lock): recorded as an observation, outside C14's wording.",
    technique="TLA+ transmit-side model (design) + simulated TNC schedules on real code judged by TLC trace validation",
    design="4 C14"),
}

NOT_YET = "check not built yet (work in progress; see DESIGN.md section 8 for the build order)"

def main():
    props = [json.loads(l)["id"] for l in open(os.path.join(V, "properties.jsonl"))]
    checks, na = [], []
    for pid in props:
        c = CHECKS.get(pid)
        if not c:
            na.append({"property_id": pid, "reason": NOT_YET})
            continue
        checks.append({
            "property_id": pid,
            "quick_cmd": "bin/check %s --tier quick" % pid,
            "thorough_cmd": "bin/check %s --tier thorough" % pid,
            "evidence_file": "/verif/evidence/%s.json" % pid,
            "replay_cmd_template": "bin/check %s --replay {path}" % pid,
            "engine": "tlc+harness",
            "level_claimed": {"category": c["level"], "text": c["text"], "design_ref": c["design"]},
            "level_note": c["note"],
            "technique": c["technique"],
        })
    m = {
        "version": 1,
        "setup_cmd": "bin/setup",
        "hooks": {
            "guard": "verif",
            "enable": "go build -tags verif (the harness is always built with -tags verif against /repo's working tree)",
            "baseline_off_cmd": "cd /repo && GOFLAGS=-mod=mod GOPROXY=off go test -vet=off -count=1 ./...",
            "source_commits": [],
            "add_only": True,
        },
        "engines": [
            {"name": "tlc+harness", "path": "/verif/bin/check",
             "serves_properties": [c["property_id"] for c in checks],
             "kind_free_text": "TLA+ specifications under spec/ checked by TLC (bin/tlc); Go conformance harness under harness/ "
                               "replays TLC-generated behaviours into the real packages and records traces that TLC validates"},
        ],
        "checks": checks,
        "notes": "Verdicts come only from behaviour of the real code; exit 2 = undecided (infrastructure). "
                 "known_findings.json lists recorded findings and fixed defects.",
        "not_applicable": na,
    }
    with open(os.path.join(V, "MANIFEST.json"), "w") as f:
        json.dump(m, f, indent=1)
    print("MANIFEST.json: %d checks, %d not_applicable" % (len(checks), len(na)))

if __name__ == "__main__":
    main()
