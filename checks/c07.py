"""C07 — LZHUF streams interoperate with the canonical FBB/Winlink codec.

The independent implementation is the TLA+ module Lzhuf.tla evaluated by TLC (written from the published algorithm;
position code derived canonically from its length profile).  (a) library -> reference: streams the real Writer produced
(and the repository's golden .lzh files) are decoded by TLC and compared with the input; the B2 header is judged by an
independent bitwise CRC.  (b) reference -> library: parses (literal / match token sequences with nearest, farthest,
shortest, random, literal-only choices, incl. overlapping matches and matches into the initial window) are validated and
coded by TLC; the real Reader must decode them with several buffer sizes, with and without the CRC header, Close = nil.
"""
import json

import vlib
import lzcommon as lz


def run(ctx):
    binary = vlib.build_harness(ctx)
    quick = ctx.tier == "quick"
    lz.scaled_design(ctx)
    jobs = ctx.path("jobs.ndjson")
    p = vlib.run_harness(ctx, binary, ["lzh-run", "--out", ctx.path("c06traces.ndjson"), "--jobs", jobs, "--inputs", ctx.path("in.ndjson"),
                                       "--budget", "200000" if quick else "900000", "--tier", ctx.tier], timeout=3000)
    if p.returncode != 0:
        raise vlib.Undecided("lzh-run failed: rc=%d %s" % (p.returncode, p.stderr[-3000:]))
    st = json.loads(p.stdout.strip().splitlines()[-1])
    res, _ = lz.run_batch(ctx, jobs, "batch", timeout=3000 if quick else 20000)
    rf = ctx.path("results.ndjson")
    vlib.write_ndjson(rf, res)
    traces = ctx.path("traces.ndjson")
    p = vlib.run_harness(ctx, binary, ["lzh-judge", "--results", rf, "--jobs", jobs, "--out", traces], timeout=3000)
    if p.returncode != 0:
        raise vlib.Undecided("lzh-judge failed: rc=%d %s" % (p.returncode, p.stderr[-3000:]))
    js = json.loads(p.stdout.strip().splitlines()[-1])
    if js["missing"]:
        raise vlib.Undecided("the reference codec returned no result for %d jobs" % js["missing"])
    acc, rejected, _ = vlib.validate_traces(ctx, lz.SPECDIR, "LzhufStreamTrace", "LzhufStreamTrace.cfg", traces, js["traces"])
    rows = vlib.read_ndjson(traces)
    for (t, l) in rejected:
        key, what, ev, meta = lz.describe(rows, t, l, "C07")
        vlib.report_violation(ctx, key, what, {"meta": meta, "event": ev})
    vlib.write_evidence(ctx, "model_checking", {
        "traces_validated_against_impl": acc,
        "evaluations": js["decoded"] + js["encoded"],
        "distinct_nontrivial": js["decoded"] + js["encoded"],
        "rule": "one evaluation = one stream crossing between the library and the reference codec: decoded = library streams decoded by "
                "Lzhuf.tla (TLC), encoded = parses coded by Lzhuf.tla and read by the real Reader (4 schedules + no-CRC each); every job "
                "is a distinct (input, strategy) and non-trivial (non-empty input); symbol budget %d" % st["symbols"],
        "samples": [rows[0], rows[-1]],
        "exhaustive": False,
        "stats": {**st, **js},
    }, ["TLC as evaluator of the executable specification Lzhuf.tla", "bitwise CRC-16/XMODEM", "the LZ77 parser of the harness only "
        "chooses tokens; validity and coding are the specification's", "budgeted: larger inputs are covered by C06's self-consistency only"])
