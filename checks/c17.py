"""C17 — transfer progress reporting is race-free and well-formed.

Design: Status.tla (vector clocks) shows that passing the count through the synchronisation is race-free over all
interleavings and that reading the shared buffer is not.  Binding: the two-station harness built with -race, a recording
StatusUpdater on both sides, transports paced per scenario (no delay; 25 ms, 300 ms, 0.5 ms per write; with and without
TxBufferLen/Flush), message sizes from one chunk to ~100 KB.  Race-detector reports become Race events; all Status
reports are validated by TLC against StatusProps.tla (range, names the proposal, total = compressed size, exactly one
Done per transferred message and side, nothing after it).
"""
import json
import os
import re

import vlib


def run(ctx):
    race = vlib.build_harness(ctx, race=True)
    quick = ctx.tier == "quick"
    vlib.design_check(ctx, "status", "Status", "Status_communicated.cfg")
    # the result of the transfer is stored before the close that releases the final report; storing it afterwards (a
    # deferred store behind the deferred close) races with the consumer of the Done report and may show an incomplete message
    for cfg, inv in (("Status_storelate.cfg", "NoRace"), ("Status_storelate_sees.cfg", "FinalSeesResult")):
        late = vlib.tlc(ctx, "status", "Status", cfg)
        if late.violated != inv:
            raise vlib.Undecided("%s no longer violates %s" % (cfg, inv))
    dev = vlib.tlc(ctx, "status", "Status", "Status_shared.cfg")
    if dev.violated != "NoRace":
        raise vlib.Undecided("the implementation-shaped configuration no longer exhibits the race")
    traces = ctx.path("traces.ndjson")
    racelog = ctx.path("race", "log")
    p = vlib.run_harness(ctx, race, ["b2f-c17", "--out", traces, "--n", "24" if quick else "240", "--workers", "16"],
                         env={"GORACE": "halt_on_error=0 log_path=" + racelog}, timeout=3000)
    if p.returncode not in (0, 66):
        raise vlib.Undecided("b2f-c17 harness failed: rc=%d %s" % (p.returncode, p.stderr[-3000:]))
    st = json.loads(p.stdout.strip().splitlines()[-1])
    races = []
    d = os.path.dirname(racelog)
    for f in os.listdir(d):
        txt = open(os.path.join(d, f), errors="replace").read()
        for blk in txt.split("WARNING: DATA RACE")[1:]:
            fr = re.findall(r"^\s+(github\.com/la5nta/wl2k-go/\S+)\(\)\s*$", blk, re.M)
            fr = [re.sub(r"\.func\d+(\.\d+)*$", "", x.replace("github.com/la5nta/wl2k-go/", "")) for x in fr]
            if fr:
                races.append(sorted(set(fr[:2])))
    rows = vlib.read_ndjson(traces)
    # a session that did not finish within the 180 s watchdog (overloaded machine) says nothing about C17: leave it out
    slow = [r for r in rows if r.get("timedout")]
    if slow:
        if len(slow) * 4 > len(rows):
            raise vlib.Undecided("%d of %d paced sessions did not finish within the watchdog: machine too loaded" % (len(slow), len(rows)))
        ctx.notes.append("%d of %d sessions hit the 180 s watchdog and were left out" % (len(slow), len(rows)))
        rows = [r for r in rows if not r.get("timedout")]
        for i, r in enumerate(rows):
            r["t"] = i + 1
        vlib.write_ndjson(traces, rows)
    ntr = len(rows)
    if races:
        # a race is not a behaviour of the specification: it becomes a Race event of an extra trace
        uniq = sorted(set(tuple(r) for r in races))
        with open(traces, "a") as f:
            for u in uniq:
                ntr += 1
                f.write(json.dumps({"t": ntr, "ev": [{"op": "Race", "where": list(u)}]}) + "\n")
        rows = vlib.read_ndjson(traces)
    acc, rejected, _ = vlib.validate_traces(ctx, "status", "StatusPropsTrace", "StatusPropsTrace.cfg", traces, ntr)
    for (t, l) in rejected:
        evs = rows[t - 1]["ev"]
        ev = evs[l - 1] if 0 < l <= len(evs) else {}
        if ev.get("op") == "Race":
            key = "C17/race/" + "+".join(ev["where"])
            what = "data race between " + " and ".join(ev["where"])
        elif ev.get("op") == "End":
            key, what = "C17/done-count", "not exactly one Done report per transferred message and side"
            dones = {(e["side"], e["mid"]): e.get("complete") for e in evs if e["op"] == "Status" and e["done"] and e["dir"] == "recv"}
            recvd = [tuple(x) for x in ev.get("received", [])]
            if all(k in dones for k in recvd) and any(not dones[k] for k in recvd):
                key, what = "C17/final-report-incomplete", "the Done report of a received message shows a proposal whose data is not complete"
        else:
            key, what = "C17/report-malformed", "status report out of range / wrong total / after Done: %s" % json.dumps(ev)[:300]
        vlib.report_violation(ctx, key, what, {"events": evs[max(0, l - 6):l], "meta": {k: v for k, v in rows[t - 1].items() if k != "ev"}})
    vlib.write_evidence(ctx, "model_checking", {
        "traces_validated_against_impl": acc,
        "evaluations": st["reports"],
        "distinct_nontrivial": st["mid_transfer_reports"],
        "rule": "evaluations = UpdateStatus calls observed in paced real sessions under the race detector; distinct_nontrivial = reports "
                "taken strictly inside a transfer (0 < transferred < total, not Done), i.e. reporter runs that overlapped the transfer",
        "samples": [rows[1]["ev"][:4]],
        "exhaustive": False,
        "sessions": st["traces"], "race_reports": len(races),
    }, ["TLC", "Go race detector (sees executed interleavings only)", "recorder order", "600 ms grace period for the asynchronous Done report"])
