"""C12 — the mailbox never touches files outside its own directory.

MailboxFS.tla (part 1) models message identifiers as path-segment sequences and the lexical resolution of
<folder>/<MID>.b2f; TLC enumerates all MIDs up to four segments over {name, other, "..", ".", ""} with their Confined
flag (and checks that single-segment MIDs are always confined).  Every MID (+ specials: absolute, NUL, very long,
non-ASCII, backslashes, seeded) is used in ProcessInbound (Mid header), GetInboundAnswer, SetDeferred and SetSent on a real
DirHandler inside a sandbox tree with bait files where a lexical join would land; a recursive snapshot (path, size, mtime,
inode, content hash) before and after gives the exact verdict (MailboxFSTrace.tla: nothing outside the mailbox changes).
"""
import json

import vlib


def run(ctx):
    binary = vlib.build_harness(ctx)
    r = vlib.design_check(ctx, "mailbox", "MailboxFS", "MailboxFS_paths.cfg")
    plans = []
    for line in r.out.splitlines():
        if line.startswith('"{') and '\\"mid\\"' in line:
            plans.append(json.loads(json.loads(line)))
    if len(plans) < 700:
        raise vlib.Undecided("only %d MIDs enumerated" % len(plans))
    pf = ctx.path("plans.ndjson")
    vlib.write_ndjson(pf, plans)
    traces = ctx.path("traces.ndjson")
    p = vlib.run_harness(ctx, binary, ["mboxfs-c12", "--plans", pf, "--out", traces, "--tmp", ctx.path("sb", "x")[:-2],
                                       "--extra", "200" if ctx.tier == "quick" else "12000"], timeout=3000)
    if p.returncode != 0:
        raise vlib.Undecided("mboxfs-c12 failed: rc=%d %s" % (p.returncode, p.stderr[-3000:]))
    st = json.loads(p.stdout.strip().splitlines()[-1])
    acc, rejected, _ = vlib.validate_traces(ctx, "mailbox", "MailboxFSTrace", "MailboxFSTrace.cfg", traces, st["traces"])
    rows = vlib.read_ndjson(traces)
    for (t, l) in rejected:
        ev = rows[t - 1]["ev"][0]
        if ev["panic"]:
            key = "C12/panic/" + ev["call"]
        else:
            key = "C12/escape/" + ev["call"]
        vlib.report_violation(ctx, key, "%s with MID %s changed files outside the mailbox: %s %s" % (ev["call"], ev["mid"], ev["changes"][:4], ev["err"]),
                              {"event": ev})
    vlib.write_evidence(ctx, "exploration", {
        "traces_validated_against_impl": acc,
        "evaluations": st["traces"],
        "distinct_nontrivial": st["escaping_mids"],
        "rule": "one evaluation = one mailbox call with a remote-chosen identifier in a fresh sandbox, judged by a before/after snapshot; "
                "distinct_nontrivial = distinct identifiers that are not confined under a lexical join (as computed by MailboxFS.tla for "
                "plan MIDs; specials and seeded ones are counted as potentially escaping)",
        "samples": [rows[0]["ev"][0], rows[len(rows) // 2]["ev"][0]],
        "exhaustive": True,
        "stats": st,
    }, ["TLC", "file-system snapshot (path, size, mtime, inode, SHA-1) of the sandbox tree", "a process exit through log.Fatalf in "
        "SetSent is recorded but is not by itself a C12 violation"])
