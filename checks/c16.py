"""C16 — secure-login answers follow the Winlink algorithm, never exposing the password.

A real slave Session talks to the scripted master peer which issues ;PQ challenges; the library's ;FW and ;PR lines are
lexed and projected into one Login event per handshake together with the MD5 digests the harness computes from
challenge, password and the salt exported from Secure.tla.  TLC evaluates the response arithmetic (30-bit little-endian
value, last eight decimal digits, zero padded) and the handshake obligations (Secure.tla / SecureTrace.tla).
Handshakes run concurrently (16 workers), so state shared between sessions is exercised.
"""
import json

import vlib


def run(ctx):
    binary = vlib.build_harness(ctx)
    quick = ctx.tier == "quick"
    traces = ctx.path("traces.ndjson")
    import os
    p = vlib.run_harness(ctx, binary, ["b2f-c16", "--out", traces, "--salt", os.path.join(vlib.SPEC, "secure", "salt.json"),
                                       "--n", "3000" if quick else "400000", "--workers", "16"], timeout=3000)
    if p.returncode != 0:
        raise vlib.Undecided("b2f-c16 harness failed: rc=%d %s" % (p.returncode, p.stderr[-3000:]))
    st = json.loads(p.stdout.strip().splitlines()[-1])
    acc, rejected, _ = vlib.validate_traces(ctx, "secure", "SecureTrace", "SecureTrace.cfg", traces, st["traces"])
    rows = vlib.read_ndjson(traces)
    for (t, l) in rejected:
        ev = rows[t - 1]["ev"][0]
        if ev["pwonwire"]:
            key, what = "C16/password-on-wire", "the password appears in the bytes written by the session"
        elif ev["panic"]:
            key, what = "C16/panic-or-hang", "handshake panicked, hung or emitted a malformed line"
        elif ev["cb"] != "ok":
            key, what = "C16/callback-" + ev["cb"], "handshake did not fail / answered although no password was available"
        elif ev["prcount"] != 1 or not ev["prBeforeCmd"]:
            key, what = "C16/pr-missing", "no (or more than one, or late) ;PR answer to ;PQ"
        elif ev["res"] != "nil":
            key, what = "C16/session-failed", "the session failed after a correct login"
        else:
            key, what = "C16/response-value", ";PR or an auxiliary address token does not carry the Winlink response"
        vlib.report_violation(ctx, key, what + ": " + json.dumps({k: ev[k] for k in ("challenge", "cb", "pr", "prcount", "fwfirst", "aux", "res", "pwlen")})[:500],
                              {"event": ev})
    vlib.write_evidence(ctx, "model_checking", {
        "traces_validated_against_impl": acc,
        "evaluations": st["traces"],
        "distinct_nontrivial": st["distinct"],
        "rule": "one evaluation = one real handshake of a slave Session against the scripted master; distinct = distinct (challenge, "
                "password, auxiliary addresses, callback behaviour); all are non-trivial (a ;PQ is issued in each)",
        "samples": [rows[0]["ev"][0], rows[len(rows) // 2]["ev"][0]],
        "exhaustive": False,
    }, ["TLC", "crypto/md5 (harness computes the digest; TLC evaluates everything after it)", "wire lexer",
        "salt.json is tied to Secure.tla's Salt by an ASSUME; the repository's published vector anchors both",
        "password-on-wire is a substring search, meaningful for passwords of >= 5 bytes"])
