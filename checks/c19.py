"""C19 — connect URLs parse to exactly their components and reach the right dialer.

Url.tla gives the expected parse of a component tuple; the harness composes URLs by the documented grammar, calls the real
ParseURL and TLC compares (UrlTrace.tla).  Dialers.tla models the registry as a linearisable object; concurrent
register/unregister/dial histories of the real registry (race-detector build) are validated with the linearisation
steps inferred by TLC.
"""
import json
import os
import re
import shutil

import vlib

SPECDIR = "url"


def tla_string(s):
    return '"' + s.replace("\\", "\\\\").replace('"', '\\"') + '"'


def run(ctx):
    binary = vlib.build_harness(ctx)
    race = vlib.build_harness(ctx, race=True)
    vocab_path = os.path.join(vlib.SPEC, SPECDIR, "vocab.json")
    vocab = json.load(open(vocab_path))
    gen = ctx.path("gen", "x")[:-2]
    for d in (os.path.join(vlib.SPEC, SPECDIR), os.path.join(vlib.SPEC, "common")):
        for f in os.listdir(d):
            shutil.copy(os.path.join(d, f), gen)
    words = sorted(set(vocab["digivocab"] + vocab["targets"]))
    with open(os.path.join(gen, "MCUrlTrace.tla"), "w") as f:
        f.write("---- MODULE MCUrlTrace ----\nEXTENDS UrlTrace\nV_Upper == (" +
                " @@ ".join("%s :> %s" % (tla_string(w), tla_string(w.upper())) for w in words) + ")\n====\n")
    # design: the registry model
    vlib.design_check(ctx, SPECDIR, "Dialers", "Dialers_design.cfg")
    quick = ctx.tier == "quick"
    # 1. parse + raw
    t1 = os.path.join(gen, "parse.ndjson")
    p = vlib.run_harness(ctx, binary, ["url", "--vocab", vocab_path, "--out", t1, "--mode", "parse",
                                       "--sample", "3000" if quick else "60000", "--raw", "4000" if quick else "100000"])
    if p.returncode != 0:
        raise vlib.Undecided("url harness failed: " + p.stderr[-2000:])
    s1 = json.loads(p.stdout.strip().splitlines()[-1])
    acc1, rej1, _ = vlib.validate_traces(ctx, gen, "MCUrlTrace", "UrlTrace.cfg", t1, s1["traces"], name="tv-parse")
    rows = vlib.read_ndjson(t1)
    for (t, l) in rej1:
        ev = rows[t - 1]["ev"][0]
        if ev["op"] == "Raw":
            key, what = "C19/raw/" + ev["outcome"], "ParseURL(%s) -> %s" % (ev["raw"], ev["outcome"])
        else:
            r, c = ev["r"], ev["c"]
            if r.get("err") == "panic":
                key = "C19/parse/panic"
            elif r.get("err") != "none":
                key = "C19/parse/error-" + str(r.get("err"))
            else:
                bad = [k for k in ("scheme", "host", "user", "pass", "target", "digis", "params") if k in r]
                key = "C19/parse/components"
            what = "ParseURL(%r) = %s, tuple %s" % (ev["raw"], json.dumps(r), json.dumps(c))
        vlib.report_violation(ctx, key, what, {"event": ev})
    # 2. concurrent histories under the race detector
    t2 = os.path.join(gen, "conc.ndjson")
    racelog = os.path.join(gen, "race")
    p = vlib.run_harness(ctx, race, ["url", "--vocab", vocab_path, "--out", t2, "--mode", "conc",
                                     "--hist", "120" if quick else "1500"],
                         env={"GORACE": "halt_on_error=0 log_path=" + racelog})
    fatal = re.search(r"fatal error: (concurrent map [a-z ]+)", p.stderr)
    frames = re.findall(r"github\.com/la5nta/wl2k-go/transport\.[A-Za-z0-9_.()*]+?\(", p.stderr)
    if p.returncode == 2 and fatal and frames:
        # the Go runtime ended the process inside a registry function of the library (an unsynchronised map): no dial of
        # that history reached its dialer or reported a missing one.  The abort cannot be recovered from, the histories
        # recorded so far are lost with the process; the finding is the abort itself, identified by the library frames.
        vlib.report_violation(ctx, "C19/dial/fatal", "the Go runtime aborted the process under concurrent registry calls: %s in %s" % (
            fatal.group(1), sorted(set(f.rstrip("(") for f in frames))[:3]), {"stderr_tail": p.stderr[-3000:]})
        vlib.write_evidence(ctx, "model_checking", {
            "traces_validated_against_impl": acc1, "evaluations": s1["traces"], "distinct_nontrivial": len(set(r["ev"][0].get("raw") for r in rows)),
            "rule": "ParseURL calls only: the concurrent-history harness was aborted by the Go runtime", "samples": [rows[0]["ev"][0]],
            "exhaustive": False, "parse": s1, "concurrent": {"aborted": fatal.group(1)},
        }, ["TLC", "Go race detector"])
        return
    if p.returncode not in (0, 66):
        raise vlib.Undecided("url conc harness failed rc=%d: %s" % (p.returncode, p.stderr[-2000:]))
    s2 = json.loads(p.stdout.strip().splitlines()[-1])
    races = []
    for f in os.listdir(gen):
        if f.startswith("race."):
            txt = open(os.path.join(gen, f), errors="replace").read()
            for blk in txt.split("WARNING: DATA RACE")[1:]:
                fr = re.findall(r"^\s+(github\.com/la5nta/wl2k-go/\S+)\(\)\s*$", blk, re.M)
                races.append(fr[:2])
    acc2, rej2, _ = vlib.validate_traces(ctx, gen, "MCUrlTrace", "UrlTrace.cfg", t2, s2["traces"], name="tv-conc",
                                         java_opts="-Dtlc2.tool.queue.IStateQueue=StateDeque")
    rows2 = vlib.read_ndjson(t2)
    for (t, l) in rej2:
        evs = rows2[t - 1]["ev"]
        ev = evs[l - 1] if 0 < l <= len(evs) else None
        if ev and ev.get("got") == -2:
            key, what = "C19/dial/panic", "a registry call panicked under concurrent register/unregister/dial"
        elif ev and ev.get("op") == "Progress":
            key, what = "C19/dial/no-progress", "while one dial was in progress other registry calls did not complete (returned=%s), or a dialer could not dial through the registry (forward=%s)" % (
                ev.get("returned"), ev.get("forward"))
        else:
            key, what = "C19/dial/not-linearisable", "no linearisation explains the result of event %d: %s" % (l, ev)
        vlib.report_violation(ctx, key, what, {"history": evs[:l + 4], "rejected_at": l})
    if races:
        vlib.report_violation(ctx, "C19/data-race", "race detector: " + json.dumps(races[0]), {"races": races[:5]})
    distinct = set()
    for r in rows:
        ev = r["ev"][0]
        distinct.add(ev.get("raw"))
    vlib.write_evidence(ctx, "model_checking", {
        "traces_validated_against_impl": acc1 + acc2,
        "evaluations": s1["traces"] + s2.get("conc_events", 0) // 2,
        "distinct_nontrivial": len(distinct) + s2["traces"],
        "rule": "evaluations = ParseURL calls (composed tuples: exhaustive scheme x digi-path x target core, exhaustive user x host x "
                "host-parameter x params core, seeded sample of the full product; raw/mutated strings) + registry operations in "
                "concurrent histories; distinct = distinct URL strings + concurrent histories (each has >= 2 processes)",
        "samples": [rows[0]["ev"][0], rows[len(rows) // 2]["ev"][0], {"concurrent_history_prefix": rows2[1]["ev"][:10]}],
        "exhaustive": False,
        "parse": s1, "concurrent": s2, "race_reports": len(races),
    }, ["TLC", "net/url escaping used to compose URLs", "upper-case table generated with the vocabulary (Python str.upper)",
        "Go race detector", "recorder lock gives a real happens-before order of call/return events"])
