"""C15 — telnet login hands over a clean stream and honours the dial deadline.

Design: Telnet.tla — all segmentations of the peer's login lines and payload, all fill sizes of the private login reader:
CleanStream holds with a buffered handover and fails with a raw one (named deviation OverRead); DialReturns holds with a
deadline on the login and fails without.  Binding over loopback TCP: (a) Dial/DialTimeout/DialContext/DialURL against the
package's own listener, payload both ways, callsigns/passwords incl. spaces, non-ASCII, 1 KB; (b) Accept against a raw
client that writes callsign, password and payload in planned TCP writes (fully coalesced ... byte-wise, with and without
gaps); (c) Dial* against raw servers (silent, partial prompt, garbage, close early, stall after callsign, split prompts,
payload coalesced with the password prompt, MOTD first) with 150-400 ms deadlines.  TelnetPropsTrace.tla judges.
"""
import json

import vlib


def run(ctx):
    binary = vlib.build_harness(ctx)
    vlib.design_check(ctx, "telnet", "Telnet", "Telnet_buffered.cfg")
    d1 = vlib.tlc(ctx, "telnet", "Telnet", "Telnet_raw.cfg")
    d2 = vlib.tlc(ctx, "telnet", "Telnet", "Telnet_nodeadline.cfg")
    if d1.violated != "CleanStream" or not d2.error:
        raise vlib.Undecided("deviation configurations no longer exhibit OverRead / the missing deadline")
    rounds = 1 if ctx.tier == "quick" else 40
    total = acc_total = 0
    allrows = []
    for r in range(rounds):
        traces = ctx.path("traces%d.ndjson" % r)
        p = vlib.run_harness(ctx, binary, ["telnet", "--out", traces, "--n", "40"], timeout=600, env={"VERIF_SEED": str(ctx.seed * 100 + r)})
        if p.returncode != 0:
            raise vlib.Undecided("telnet harness failed: rc=%d %s" % (p.returncode, p.stderr[-3000:]))
        st = json.loads(p.stdout.strip().splitlines()[-1])
        acc, rejected, _ = vlib.validate_traces(ctx, "telnet", "TelnetPropsTrace", "TelnetPropsTrace.cfg", traces, st["traces"], name="tv%d" % r)
        rows = vlib.read_ndjson(traces)
        allrows += rows
        total += st["traces"]
        acc_total += acc
        for (t, l) in rejected:
            ev = rows[t - 1]["ev"][0]
            if ev["op"] == "Dial":
                if ev.get("panic"):
                    key, what = "C15/dial-panic/" + ev["behaviour"], "%s against a %s server panicked instead of returning a connection or an error: %s" % (
                        ev["how"], ev["behaviour"], ev["panic"])
                elif not ev["returned"] or ev["elapsedMs"] > ev["deadlineMs"] + 2000:
                    key, what = "C15/dial-deadline/" + ev["behaviour"], "%s against a %s server did not return by its deadline (%d ms, waited %d ms)" % (
                        ev["how"], ev["behaviour"], ev["deadlineMs"], ev["elapsedMs"])
                else:
                    key, what = "C15/dial-stream/" + ev["behaviour"], "the connection returned by %s lost or changed payload (%s of %s bytes)" % (
                        ev["how"], ev.get("got"), ev.get("want"))
            else:
                bad = [k for k in ("established", "toAcceptorOK", "toDiallerOK", "remoteCallOK") if not ev[k]]
                key = "C15/conn/" + "+".join(bad)
                what = "%s: %s (plan %s, gaps %s, call %s) %s" % (ev["kind"], bad, ev.get("plan"), ev.get("gaps"), ev.get("call"), ev.get("err", ""))
            vlib.report_violation(ctx, key, what, {"event": ev})
    distinct = set(json.dumps({k: v for k, v in r["ev"][0].items() if k in ("kind", "plan", "gaps", "behaviour", "how", "call", "deadlineMs")}, sort_keys=True)
                   for r in allrows)
    vlib.write_evidence(ctx, "model_checking", {
        "traces_validated_against_impl": acc_total,
        "evaluations": total,
        "distinct_nontrivial": len(distinct),
        "rule": "one evaluation = one real TCP login (library dialler vs library listener / raw client vs Accept / Dial* vs raw server); "
                "distinct = distinct (kind, write plan, gaps, server behaviour, API, callsign, deadline); all involve a login attempt",
        "samples": [allrows[0]["ev"][0], allrows[-1]["ev"][0]],
        "exhaustive": False,
    }, ["TLC", "loopback TCP: coalescing of back-to-back writes is likely, not guaranteed (cases are repeated and both gap variants run)",
        "deadlines are judged with 2 s slack"])
