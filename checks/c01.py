"""C01 — a completed exchange delivers every accepted message exactly once, intact.

Two real fbb.Session objects over the in-memory scheduler duplex; every handler call, every wire unit (lexed by the
independent judge), both results and the closing of the connection are recorded and validated by TLC against the
monitor B2FProps.tla (B2FPropsTrace.tla).  The mechanism module B2F.tla is model-checked for the same properties.
"""
import json
import os

import vlib
import b2fmech
import b2fcommon as bc


def robust_mode(ctx, binary, quick):
    """Growth beyond the listed properties (DESIGN.md 11.12): robust-mode switching of the session, RobustMode.tla.  The design
    configuration and its two named wrong variants are checked, then one trace per station of real sessions (clean and cut,
    every pair of mode settings) is validated.  A rejection is reported as SPEC-DRIFT, not as a violation of C01."""
    vlib.design_check(ctx, bc.SPECDIR, "RobustMode", "RobustMode_design.cfg")
    for cfg, inv in (("RobustMode_norestore.cfg", "RobustInv"), ("RobustMode_offforanswers.cfg", "UnitInv")):
        dev = vlib.tlc(ctx, bc.SPECDIR, "RobustMode", cfg)
        if dev.violated != inv:
            raise vlib.Undecided("%s no longer produces the %s counterexample" % (cfg, inv))
    f = ctx.path("robust.ndjson")
    p = vlib.run_harness(ctx, binary, ["b2f-robustmode", "--out", f, "--n", "150" if quick else "3000", "--workers", str(vlib.NCPU)])
    if p.returncode != 0:
        raise vlib.Undecided("b2f-robustmode harness failed: rc=%d %s" % (p.returncode, p.stderr[-3000:]))
    st = json.loads(p.stdout.strip().splitlines()[-1])
    acc, rejected, _ = vlib.validate_traces(ctx, bc.SPECDIR, "RobustModeTrace", "RobustModeTrace.cfg", f, st["traces"], name="tv-robust")
    if rejected:
        rows = vlib.read_ndjson(f)
        for (t, l) in rejected[:20]:
            row = rows[t - 1]
            line = "robust-mode trace %d (scenario %s station %s mode %s cut=%s) rejected at event %d: %s" % (
                t, row.get("scen"), row.get("s"), row.get("mode"), row.get("cut"), l, json.dumps(row["ev"][max(0, l - 3):l + 1]))
            print("SPEC-DRIFT: " + line[:400])
            ctx.drift.append(line)
    st["accepted"] = acc
    # the binding, demonstrated on every run: three corruptions of an accepted auto-mode trace with a transfer (a flipped
    # value, a dropped restoring call, a message moved in front of the switch) must all be rejected
    rows = vlib.read_ndjson(f)
    rej_t = set(t for t, _ in rejected)
    base = None
    for i, row in enumerate(rows):
        evs = row["ev"]
        if row.get("mode") == "auto" and (i + 1) not in rej_t and not row.get("cut"):
            off = [k for k, e in enumerate(evs) if e["op"] == "Robust" and not e["on"]]
            if len(off) >= 2 and off[0] + 1 < len(evs) and evs[off[0] + 1].get("kind") == "Frame":
                base, k = row, off[0]
                break
    if base is None:
        raise vlib.Undecided("no accepted auto-mode trace with a transfer to corrupt (robust-mode binding self-check)")
    evs = base["ev"]
    k_on = next(j for j in range(k + 1, len(evs)) if evs[j]["op"] == "Robust" and evs[j]["on"])
    flipped = [dict(e) for e in evs]
    flipped[k]["on"] = True
    dropped = evs[:k_on] + evs[k_on + 1:]
    moved = evs[:k] + [evs[k + 1], evs[k]] + evs[k + 2:]
    cf = ctx.path("robust-corrupt.ndjson")
    vlib.write_ndjson(cf, [{"t": n + 1, "mode": "auto", "cut": False, "ev": c} for n, c in enumerate((flipped, dropped, moved))])
    _, crej, _ = vlib.validate_traces(ctx, bc.SPECDIR, "RobustModeTrace", "RobustModeTrace.cfg", cf, 3, name="tv-robust-corrupt")
    if set(t for t, _ in crej) != {1, 2, 3}:
        raise vlib.Undecided("RobustModeTrace accepts a corrupted trace (rejected only %s of 3): the binding is lost" % sorted(set(t for t, _ in crej)))
    st["corrupted_traces_rejected"] = 3
    return st


def run(ctx):
    binary = vlib.build_harness(ctx)
    quick = ctx.tier == "quick"
    robust = robust_mode(ctx, binary, quick)
    # design: the mechanism model, all policy assignments x both role assignments, clean link
    vlib.design_check(ctx, bc.SPECDIR, "MCB2F", "B2F_clean.cfg")
    traces = ctx.path("traces.ndjson")
    scen = ctx.path("scen.ndjson")
    accepted = total = 0
    mech = {"accepted": 0, "total": 0, "skipped": 0}
    stats_all = []
    for gz in (("0", "1") if not quick else ("0", "1")):
        n = (250 if gz == "0" else 60) if quick else (5000 if gz == "0" else 1000)
        p = vlib.run_harness(ctx, binary, ["b2f-c01", "--out", traces, "--scenarios", scen, "--n", str(n),
                                           "--large", "4" if quick else "40", "--workers", str(vlib.NCPU)],
                             env={"GZIP_EXPERIMENT": gz, "VERIF_SEED": str(ctx.seed * 2 + int(gz))})
        if p.returncode != 0:
            raise vlib.Undecided("b2f-c01 harness failed: rc=%d %s" % (p.returncode, p.stderr[-3000:]))
        st = json.loads(p.stdout.strip().splitlines()[-1])
        st["gzip"] = gz
        stats_all.append(st)
        acc, rejected, _ = vlib.validate_traces(ctx, bc.SPECDIR, "B2FPropsTrace", "B2FPropsTrace.cfg", traces, st["traces"],
                                                name="tv-gz" + gz)
        accepted += acc
        total += st["traces"]
        # mechanism level: the same executions must be behaviours of B2F.tla (silent steps inferred); a rejection here that
        # the monitor does not share is reported as SPEC-DRIFT, not as a violation
        macc, mtot, mskip, drift = b2fmech.validate(ctx, vlib.read_ndjson(traces), name="mech-gz" + gz)
        mech["accepted"] += macc
        mech["total"] += mtot
        mech["skipped"] += mskip
        for dline in drift[:5]:
            print("SPEC-DRIFT: " + dline[:400])
        ctx.drift += drift[:20]
        if rejected:
            rows = vlib.read_ndjson(traces)
            scens = vlib.read_ndjson(scen)
            bc.report_rejections(ctx, "C01", rows, rejected, lambda row: scens[row["scen"] - 1])
        if gz == "0":
            rows = vlib.read_ndjson(traces)
            sample = {"scenario": vlib.read_ndjson(scen)[5], "first_events": rows[5]["ev"][:12]}
    vlib.write_evidence(ctx, "model_checking", {
        "traces_validated_against_impl": accepted,
        "evaluations": total,
        "distinct_nontrivial": sum(s["nontrivial"] for s in stats_all),
        "rule": "one evaluation = one complete two-station exchange of real Sessions; distinct_nontrivial = distinct abstract scenarios "
                "(message multiset with precedence/size class/attachments/charset/policy per side, master, batched, MOTD, schedule, "
                "segmentation) in which at least one message was stored by a handler",
        "samples": [sample],
        "exhaustive": False,
        "runs": stats_all,
        "mechanism_traces_validated": mech,
        "robust_mode_station_traces": robust,
    }, ["TLC", "wire lexer (harness/internal/b2f/lexer.go) written from docs/F6FBB-B2F", "bitwise CRC-16/XMODEM",
        "content identity = bytes.Equal(queued serialisation, delivered serialisation)",
        "in-memory duplex scheduler gives happens-before event order"])
