"""C20 — position reports state the given position in valid Winlink format.

Design: PosReport.tla (scaled) shows the reference algorithm satisfies MinutesBelow60/WithinHalfUnit for every input
and that the named deviation SplitThenRound does not.  Binding: real PosReport.Message on exact inputs; the parsed
output is judged by TLC (PosReportTrace.tla) with integer arithmetic in half-units.
"""
import json
import os

import vlib

SPECDIR = "posreport"


def classify(ev):
    if ev["op"] == "Pos":
        for axis in ("lat", "lon"):
            c = ev[axis]
            if not c["form"]:
                return "C20/format/" + axis
            if c["min"] >= 600000:
                return "C20/minutes-60"
            v = c["deg"] * 600000 + c["min"]
            if not (c["hi2"] >= 2 * v - 1 and c["lo2"] <= 2 * v + 1) or c["dlo"] < -501 or c["dhi"] > 501:
                return "C20/value-off"
            want = {(1, "lat"): "N", (-1, "lat"): "S", (1, "lon"): "E", (-1, "lon"): "W"}.get((c["sign"], axis))
            if want and c["hem"] != want:
                return "C20/hemisphere"
        if not ev["valid"]:
            return "C20/invalid-message"
        return "C20/pos-other"
    if ev["op"] == "Course":
        return "C20/course-format"
    return "C20/optional-fields"


def run(ctx):
    binary = vlib.build_harness(ctx)
    vlib.design_check(ctx, SPECDIR, "PosReport", "PosReport_design.cfg")
    dev = vlib.tlc(ctx, SPECDIR, "PosReport", "PosReport_deviation.cfg")
    if dev.violated != "InvMinutes":
        raise vlib.Undecided("deviation configuration no longer exhibits the 60.0000-minutes counterexample")
    traces = ctx.path("traces.ndjson")
    p = vlib.run_harness(ctx, binary, ["posrep", "--out", traces, "--tier", ctx.tier])
    if p.returncode != 0:
        raise vlib.Undecided("posrep harness failed: " + p.stderr[-2000:])
    stats = json.loads(p.stdout.strip().splitlines()[-1])
    acc, rejected, _ = vlib.validate_traces(ctx, SPECDIR, "PosReportTrace", "PosReportTrace.cfg", traces, stats["traces"])
    rows = vlib.read_ndjson(traces)
    for (t, l) in rejected:
        ev = rows[t - 1]["ev"][0]
        key = classify(ev)
        what = {"C20/minutes-60": "a coordinate whose fraction rounds up to a whole degree prints 60.0000 minutes",
                "C20/course-format": "course does not format as three digits plus T/M"}.get(key, "position report deviates from PosReport.tla")
        vlib.report_violation(ctx, key, what + ": " + json.dumps(ev)[:400], {"event": ev})
    distinct = set()
    for r in rows:
        ev = r["ev"][0]
        if ev["op"] == "Pos":
            distinct.add((ev["lat"]["in"], ev["lon"]["in"]))
        else:
            distinct.add(json.dumps(ev, sort_keys=True))
    vlib.write_evidence(ctx, "model_checking", {
        "traces_validated_against_impl": acc,
        "evaluations": stats["traces"],
        "distinct_nontrivial": len(distinct),
        "rule": "one evaluation = one PosReport.Message call (grid, +-3 half-units around every whole degree and sampled whole "
                "minutes, float neighbours, values just below whole degrees, seeded random), every course 0..360 x {T,M}, all 16 "
                "optional-field combinations; distinct = distinct (lat,lon) inputs / course / field-set cases; all are non-trivial "
                "(each produces a message that is parsed and judged)",
        "samples": [rows[0]["ev"][0], rows[len(rows) // 3]["ev"][0], rows[-1]["ev"][0]],
        "exhaustive": False,
        "inputs": stats,
    }, ["TLC", "math/big exact conversion of float64 to half-unit integers", "regular expression lexer of the LATITUDE/LONGITUDE lines"])
