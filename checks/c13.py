"""C13 — an AGWPE connection is a reliable, ordered byte stream.

Design: Agwpe.tla models the inbound demux pipeline (TNC read loop -> root/port/connection demux goroutines with
non-blocking Enqueue into capacity-1 channels -> buffered data channel -> Conn.Read).  TLC shows InOrderNoLossNoDup for a
blocking Enqueue and finds loss for the implementation's DropWhenFull; the loss-free envelope over all schedules is
computed by TLC (burst of K frames with an idle reader: holds for K = 1 only).  Binding: a simulated AGWPE TNC on loopback
TCP (own 36-byte header lexer) and schedules in child processes: outbound writes (ports 0..3, digipeaters, refusals),
inbound D frames with TCP segmentation (mid-header, mid-data, byte-wise, coalesced), reader buffer sizes 1..4096,
foreign callsigns/ports/kinds interleaved, the accept path, bursts, malformed frames.  AgwpePropsTrace.tla judges the
boundary events; AgwpeTrace.tla validates the library's own debug log (frames read, frames dropped) plus the application's
Read calls of every inbound schedule against the pipeline of Agwpe.tla with inferred silent steps: a loss counts as the
known drop-when-full finding only if it is explained by exactly the logged drops.
"""
import json

import vlib


def envelope(ctx):
    """Largest burst (idle reader) that no schedule of the implementation-shaped model loses."""
    import os, shutil
    k = 0
    for cand in (1, 2, 3):
        d = ctx.path("env%d" % cand, "x")[:-2]
        for f in ("Agwpe.tla",):
            shutil.copy(os.path.join(vlib.SPEC, "agwpe", f), d)
        with open(os.path.join(d, "e.cfg"), "w") as f:
            f.write('SPECIFICATION Spec\nCONSTANTS K = %d  Stages = 3  InCap = 1  DataCap = 10  Enqueue = "drop"  ReaderIdle = TRUE\n'
                    'INVARIANTS NothingDropped\nCHECK_DEADLOCK FALSE\n' % cand)
        r = vlib.tlc(ctx, d, "Agwpe", "e.cfg", copy=False, name="env%d" % cand)
        if r.ok:
            k = cand
        else:
            break
    return k


def _cand(key, what, replay):
    return {"key": key, "what": what, "replay": replay, "scen": replay.get("scenario")}


def analyse(ctx, traces, ntraces, tag=""):
    """Validates the recorded schedules of one harness run against the trace specifications.  Returns the candidate violations
    (not yet reported) and the figures for the evidence file."""
    found = []
    acc, rejected, _ = vlib.validate_traces(ctx, "agwpe", "AgwpePropsTrace", "AgwpePropsTrace.cfg", traces, ntraces, name=tag + "props")
    rows = vlib.read_ndjson(traces)
    # mechanism trace validation: the library's own debug log of every inbound schedule against Agwpe.tla
    mech_rows, mech_of = [], {}
    for ti, row in enumerate(rows):
        for ev in row["ev"]:
            # bursts of more than 16 frames are left out: the log does not say which frame a drop hit, and the number of
            # explanations TLC has to keep grows too fast
            if ev["op"] == "Mech" and ev["log"] and sum(1 for e in ev["log"] if e["op"] == "Recv") <= 16:
                mech_rows.append({"t": len(mech_rows) + 1, "ev": ev["log"], "scen": row["scen"]})
                mech_of[ti + 1] = len(mech_rows)
    mech_file = ctx.path(tag + "mech.ndjson")
    vlib.write_ndjson(mech_file, mech_rows)
    macc, mrej, _ = vlib.validate_traces(ctx, "agwpe", "AgwpeTrace", "AgwpeTrace.cfg", mech_file, len(mech_rows), name=tag + "mech")
    unexplained = {mt: ml for (mt, ml) in mrej}
    drops = sum(1 for r in mech_rows for e in r["ev"] if e["op"] == "Drop")
    for mt, ml in sorted(unexplained.items()):
        r = mech_rows[mt - 1]
        e = r["ev"][ml - 1] if 0 < ml <= len(r["ev"]) else {}
        if e.get("op") == "RRet":
            # what the application read is not what the pipeline of Agwpe.tla, with exactly the logged drops, can deliver
            found.append(_cand("C13/read/unexplained-by-logged-drops/%s" % r["scen"].get("pace"),
                                  "Read returned frame %s at log position %d, which the demux pipeline of Agwpe.tla with the logged drops cannot deliver (loss without a "
                                  "logged drop, reordering or duplicate); log %s" % (e.get("i"), ml, [(x["op"], x.get("i", "")) for x in r["ev"]][:80]),
                                  {"scenario": r["scen"], "log": r["ev"], "position": ml}))
        else:
            ctx.drift.append("SPEC-DRIFT: Agwpe.tla cannot follow the library's debug log of schedule %s at position %d (%s)" % (r["scen"], ml, e))
    # transmit side: the TNC's view of D frames and Y polls merged with the Write / Flush calls against AgwpeTx.tla
    tx_rows = []
    for row in rows:
        for ev in row["ev"]:
            if ev["op"] == "TxLog" and ev["log"]:
                log = []
                for e in ev["log"]:
                    # the model describes calls that succeed: a call that reports an error ends the part of the log it is asked about
                    # (the error itself is judged by the Api events)
                    if e["k"] in ("closeCall", "flushErr") or (e["k"] == "writeRet" and e["v"] == 0):
                        break
                    log.append({"op": e["k"], "v": e["v"]})
                if log and log[0]["op"] == "writeCall" and ev.get("maxframe") == 4:
                    tx_rows.append({"t": len(tx_rows) + 1, "ev": log, "nw": sum(1 for e in log if e["op"] == "writeCall"), "scen": row["scen"]})
    tacc = 0
    if tx_rows:
        tf = ctx.path(tag + "tx.ndjson")
        vlib.write_ndjson(tf, tx_rows)
        tacc, trej, _ = vlib.validate_traces(ctx, "agwpe", "AgwpeTxTrace", "AgwpeTxTrace.cfg", tf, len(tx_rows), name=tag + "tx")
        for (tt, tl) in trej:
            r = tx_rows[tt - 1]
            e = r["ev"][tl - 1] if 0 < tl <= len(r["ev"]) else {}
            shown = [(x["op"], x["v"]) for x in r["ev"]][max(0, tl - 6):tl]
            if e.get("op") == "flushRet":
                found.append(_cand("C13/flush/before-empty", "Flush returned although the last Y poll was not answered with 0 outstanding frames: ... %s" % shown,
                                      {"scenario": r["scen"], "log": r["ev"], "position": tl}))
            elif e.get("op") == "D":
                found.append(_cand("C13/write/window", "a data frame was sent without a Y poll answered with at most MAXFRAME outstanding frames before it: ... %s" % shown,
                                      {"scenario": r["scen"], "log": r["ev"], "position": tl}))
            else:
                msg = "SPEC-DRIFT: AgwpeTx.tla cannot follow the transmit log of schedule %s at position %d: ... %s" % (r["scen"], tl, shown)
                print(msg[:500])
                ctx.drift.append(msg)
    # several connections on one port: the TNC's per-connection log against AgwpeMux.tla
    mux_rows = []
    for row in rows:
        for ev in row["ev"]:
            if ev["op"] == "MuxLog" and ev["log"]:
                mux_rows.append({"t": len(mux_rows) + 1, "ev": ev["log"], "scen": row["scen"]})
    xacc = 0
    if mux_rows:
        xf = ctx.path(tag + "mux.ndjson")
        vlib.write_ndjson(xf, mux_rows)
        xacc, xrej, _ = vlib.validate_traces(ctx, "agwpe", "AgwpeMuxTrace", "AgwpeMuxTrace.cfg", xf, len(mux_rows), name=tag + "mux")
        for (tt, tl) in xrej:
            r = mux_rows[tt - 1]
            e = r["ev"][tl - 1] if 0 < tl <= len(r["ev"]) else {}
            shown = [(x["op"], x["c"], x["n"]) for x in r["ev"]][max(0, tl - 8):tl]
            if e.get("op") == "FlushRet":
                found.append(_cand("C13/flush/not-this-connections-report",
                                      "with two connections open on the port, Flush of %s returned although the TNC had not reported 0 outstanding frames "
                                      "for that connection: ... %s" % (e.get("c"), shown), {"scenario": r["scen"], "log": r["ev"], "position": tl}))
            else:
                msg = "SPEC-DRIFT: AgwpeMux.tla cannot follow the per-connection log of schedule %s at position %d: ... %s" % (r["scen"], tl, shown)
                print(msg[:500])
                ctx.drift.append(msg)
    for (t, l) in rejected:
        row = rows[t - 1]
        sc, ev = row["scen"], row["ev"][l - 1]
        op = ev["op"]
        ndrops = sum(e.get("n", 0) for e in row["ev"] if e["op"] == "Drops")
        if op == "Infra":
            raise vlib.Undecided("simulator could not start: %s" % ev)
        if op == "Drops" or any(e["op"] == "Drops" and e.get("dialok") and e.get("latecancel", 0) > 0 for e in row["ev"]):
            # (whatever failed first in such a schedule - a Flush or Read that reported EOF - is the consequence)
            found.append(_cand("C13/dial/disconnect-after-successful-dial", "the dial's cancellation watcher sent a disconnect frame although the dial had "
                               "succeeded and its context was cancelled only after DialContext had returned (library log: %d time(s)); schedule %s"
                               % (sum(e.get("latecancel", 0) for e in row["ev"] if e["op"] == "Drops"), {k: v for k, v in sc.items() if k in ("kind", "port", "writes", "frames")}),
                               {"scenario": sc, "events": row["ev"]}))
            continue
        if op == "Reads":
            if ev["panic"]:
                key = "C13/read/panic"
            elif ev["foreign"]:
                key = "C13/read/foreign-delivered"
            elif ev["class"] in ("truncated", "loss") and (sc.get("pace") == "burst" or ndrops > 0) and (t not in mech_of or mech_of[t] not in unexplained):
                # frames sent back to back (more than the loss-free envelope computed from Agwpe.tla), or a schedule in which the
                # library's own log reports dropped frames (a starved demux goroutine loses paced frames too): the known finding
                key = "C13/loss/drop-when-full"
            else:
                key = "C13/read/%s/%s" % (ev["class"], sc.get("pace"))
            what = "bytes read differ from the concatenation of the connection's frames: %s (%d of %d bytes), schedule %s" % (
                ev["class"], ev["got"], ev["want"], {k: v for k, v in sc.items() if k in ("kind", "port", "segs", "pace", "readbuf", "foreign", "readwait")})
        elif ndrops > 0 and not ev.get("panic") and op in ("Api", "Exchange", "TncData", "Crash") and not sc.get("malform"):
            # the TNC's replies (Y, C, d) go through the same demux: a schedule in which the library logged dropped frames and an
            # exchange then timed out or failed is the known finding, not a new one
            key = "C13/loss/drop-when-full"
            what = "%s failed in a schedule in which the library logged %d dropped frame(s) (%s)" % (op, ndrops, {k: v for k, v in sc.items() if k in ("kind", "port", "pace", "segs", "writes")})
        elif op == "Api":
            key = "C13/api/%s%s" % (ev["call"], "/panic" if ev.get("panic") else "")
            what = "%s: %s %s (scenario %s)" % (ev["call"], ev.get("panic") or "", ev.get("err", ""), {k: v for k, v in sc.items() if k in ("kind", "port", "via", "reply")})
        elif op == "TncData":
            key = "C13/tnc-frames/" + ("malformed" if not ev["wellformed"] else "payload")
            what = "frames received by the TNC: wellformed=%s payloadOK=%s (%s of %s bytes)" % (ev["wellformed"], ev["payloadOK"], ev["got"], ev["want"])
        elif op == "Exchange":
            key = "C13/exchange/" + ev["name"]
            what = "the %s exchange was not performed (scenario %s)" % (ev["name"], {k: v for k, v in sc.items() if k in ("kind", "port", "via")})
        elif op == "Malformed":
            key = "C13/malformed/" + ev["case"]
            what = "malformed input %s: crashed=%s hung=%s %s" % (ev["case"], ev["crashed"], ev["hung"], ev.get("site"))
        else:
            key = "C13/crash/" + (ev.get("func") or ev.get("site") or "?")
            what = "the process died: %s in %s (scenario %s)" % (ev.get("site"), ev.get("func"), sc)
        found.append(_cand(key, what, {"scenario": sc, "event": ev, "events": row["ev"]}))
    return found, dict(acc=acc, rows=rows, tacc=tacc, tx_rows=tx_rows, xacc=xacc, mux_rows=mux_rows, macc=macc, mech_rows=mech_rows, drops=drops)


def run(ctx):
    binary = vlib.build_harness(ctx)
    vlib.design_check(ctx, "agwpe", "Agwpe", "Agwpe_block.cfg")
    vlib.design_check(ctx, "agwpe", "AgwpeTx", "AgwpeTx_safety.cfg")
    vlib.design_check(ctx, "agwpe", "AgwpeMux", "AgwpeMux_safety.cfg")
    if ctx.tier != "quick":
        vlib.design_check(ctx, "agwpe", "AgwpeMux", "AgwpeMux_three.cfg")
    lv = vlib.tlc(ctx, "agwpe", "AgwpeMux", "AgwpeMux_liveness.cfg")
    if not lv.ok:
        raise vlib.Undecided("AgwpeMux_liveness.cfg: %s" % (lv.error or lv.out[-500:]))
    bp = vlib.tlc(ctx, "agwpe", "AgwpeMux", "AgwpeMux_byport.cfg")
    if bp.violated != "FlushSound":
        raise vlib.Undecided("the deviation MatchByPort of AgwpeMux.tla no longer violates FlushSound")
    # polls that give up before their reply has come: the late reply must not stop the demux (one-shot requests have room
    # for their one frame); without that room the demux goroutine blocks for ever
    vlib.design_check(ctx, "agwpe", "AgwpeMux", "AgwpeMux_timeout.cfg")
    lv2 = vlib.tlc(ctx, "agwpe", "AgwpeMux", "AgwpeMux_timeoutlive.cfg")
    if not lv2.ok:
        raise vlib.Undecided("AgwpeMux_timeoutlive.cfg: %s" % (lv2.error or lv2.out[-500:]))
    ub = vlib.tlc(ctx, "agwpe", "AgwpeMux", "AgwpeMux_unbuffered.cfg")
    if ub.violated != "DemuxLive":
        raise vlib.Undecided("the deviation of AgwpeMux.tla (one-shot requests without room for their frame) no longer violates DemuxLive")
    # registrations while a delivery is in progress (the port's inbound handler is a client of the demux it registers on): the
    # code accepts them, the code before fix 4ae63af did not and the two could wait for each other for ever
    vlib.design_check(ctx, "agwpe", "AgwpeReg", "AgwpeReg_code.cfg")
    rb = vlib.tlc(ctx, "agwpe", "AgwpeReg", "AgwpeReg_before.cfg")
    if rb.violated != "NoEmbrace":
        raise vlib.Undecided("AgwpeReg_before.cfg no longer violates NoEmbrace")
    obs = vlib.tlc(ctx, "agwpe", "AgwpeTx", "AgwpeTx_liveness.cfg")
    ctx.notes.append("AgwpeTx_liveness.cfg: WriteReturns %s (observation, not part of C13: a TNC that transmits a frame before the next poll is never "
                     "seen with an outstanding frame)" % ("violated" if obs.error else "holds"))
    dev = vlib.tlc(ctx, "agwpe", "Agwpe", "Agwpe_drop.cfg")
    if dev.violated != "InOrderNoLossNoDup":
        raise vlib.Undecided("the implementation-shaped configuration no longer exhibits DropWhenFull")
    env = envelope(ctx)
    traces = ctx.path("traces.ndjson")
    p = vlib.run_harness(ctx, binary, ["agwpe", "--out", traces, "--n", "30" if ctx.tier == "quick" else "1500"], timeout=6000)
    if p.returncode != 0:
        raise vlib.Undecided("agwpe harness failed: rc=%d %s" % (p.returncode, p.stderr[-3000:]))
    st = json.loads(p.stdout.strip().splitlines()[-1])
    found, A = analyse(ctx, traces, st["traces"])
    acc, rows, tacc, tx_rows, xacc, mux_rows, macc, mech_rows, drops = (A[k] for k in ("acc", "rows", "tacc", "tx_rows", "xacc", "mux_rows", "macc", "mech_rows", "drops"))
    # Everything here runs in real time against goroutines nobody schedules for us.  A schedule that fails while sixteen cores
    # are busy with other schedules (and whatever else runs on the machine) is run again on its own, twice, nothing beside
    # it; what the code does wrong it does then too.  A failure that does not come back is left out of the verdict and
    # counted in the evidence file.  (The known finding is attributed by the library's own log, not by re-running.)
    LOGGED = ("C13/loss/drop-when-full", "C13/dial/disconnect-after-successful-dial")     # identified by the library's own log
    # (a child that crashed on malformed input, or did not finish a one-second case within its 20 s, is reported as it is: the
    # one such hang that did not come back on its own was a genuine deadlock, fix 4ae63af)
    known = [c for c in found if c["key"] in LOGGED or c["key"].startswith("C13/malformed/")]
    cands = [c for c in found if not (c["key"] in LOGGED or c["key"].startswith("C13/malformed/"))]
    confirmed, unreproduced = [], []
    if cands:
        scens, seen = [], set()
        for c in cands:
            k = json.dumps(c["scen"], sort_keys=True)
            if c["scen"] and k not in seen and len(scens) < 24:
                seen.add(k)
                scens.append(c["scen"])
        again = set()
        if scens:
            sf, rt = ctx.path("rerun-scen.json"), ctx.path("rerun.ndjson")
            with open(sf, "w") as f:
                # (the recorder writes empty lists as "")
                json.dump([{k: v for k, v in sc.items() if not (v == "" and k in ("frames", "segs", "via", "writes"))} for sc in scens], f)
            p2 = vlib.run_harness(ctx, binary, ["agwpe", "--rerun", sf, "--times", "2", "--out", rt], timeout=6000)
            if p2.returncode != 0:
                raise vlib.Undecided("agwpe confirmation run failed: rc=%d %s" % (p2.returncode, p2.stderr[-2000:]))
            st2 = json.loads(p2.stdout.strip().splitlines()[-1])
            found2, _ = analyse(ctx, rt, st2["traces"], tag="rerun-")
            known += [c for c in found2 if c["key"] in LOGGED]
            again = {json.dumps(c["scen"], sort_keys=True) for c in found2 if c["key"] not in LOGGED}
        for c in cands:
            k = json.dumps(c["scen"], sort_keys=True)
            if not c["scen"] or k in again or k not in seen:
                confirmed.append(c)
            else:
                unreproduced.append(c)
    seen_keys = set()
    known = [c for c in known if not (c["key"] in seen_keys or seen_keys.add(c["key"]))]
    for c in known + confirmed:
        vlib.report_violation(ctx, c["key"], c["what"], c["replay"])
    for c in unreproduced:
        msg = "NOT-REPRODUCED: %s failed once among the parallel schedules and not in two runs on its own: %s" % (c["key"], c["what"][:300])
        print(msg)
        ctx.notes.append(msg)
    if len(unreproduced) > max(3, len(rows) // 10):
        raise vlib.Undecided("%d schedules failed under load and passed on their own: the machine is too busy for a verdict" % len(unreproduced))
    vlib.write_evidence(ctx, "model_checking", {
        "traces_validated_against_impl": acc,
        "evaluations": st["traces"],
        "distinct_nontrivial": len(set(json.dumps(r["scen"], sort_keys=True) for r in rows)),
        "rule": "one evaluation = one schedule run against the simulated TNC in a child process; distinct = distinct scenario descriptions; "
                "all are non-trivial (a TNC connection is opened and a port registered)",
        "samples": [rows[0], rows[len(rows) // 2]["scen"]],
        "exhaustive": False,
        "loss_free_envelope_frames": env,
        "transmit_traces_validated": {"accepted": tacc, "total": len(tx_rows)},
        "two_connection_traces_validated": {"accepted": xacc, "total": len(mux_rows)},
        "mechanism_traces_validated": macc,
        "mechanism_traces_total": len(mech_rows),
        "logged_drops_explained": drops,
        "failed_under_load_only": len(unreproduced),
    }, ["TLC", "simulated TNC and AGWPE header lexer written from the AGWPE TCP/IP API description", "internal goroutine interleavings of the "
        "library are not controlled; paced schedules never ask the pipeline to hold two frames", "real time: 200 ms polls of the library"])
