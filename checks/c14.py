"""C14 — an ARDOP connection is a reliable ordered byte stream with correct host framing.

Design: Ardop.tla models Write / CRCFAULT re-send / BUFFER reports / flush lock / control loop: TLC checks
WriteCountHonest, RetransmitOnCrcFault, FlushAfterBufferZero, AtMostThreeAttempts over all interleavings (and exhibits, as
an observation outside C14's safety wording, the schedule on which Flush never returns).  Binding: a simulated ARDOP TNC on
a CRC-protected in-memory serial line (own CRC-16 poly 0x8810 / init 0xFFFF and frame lexer) and on a TCP port pair;
schedules in child processes: write sizes 1 .. 200 000, CRCFAULT x 0-3, BUFFER sequences (incl. never 0), ARQ frames
1 .. 65 530 bytes with reader buffers 1 .. 70 000, FEC / IDF / ERR frames and BUSY / NEWSTATE / PTT events interleaved,
dial / listen, refusals, malformed control lines and frames.  ArdopPropsTrace.tla judges.
"""
import json

import vlib


def run(ctx):
    binary = vlib.build_harness(ctx)
    vlib.design_check(ctx, "ardop", "Ardop", "Ardop_safety.cfg")
    vlib.design_check(ctx, "ardop", "Ardop", "Ardop_twowrites.cfg")
    for cfg, inv in (("Ardop_lockpositive.cfg", "FlushAfterBufferZero"), ("Ardop_stalefault.cfg", "RetransmitOnCrcFault"), ("Ardop_progress.cfg", "FlushAfterBufferZero")):
        d = vlib.tlc(ctx, "ardop", "Ardop", cfg)
        if d.violated != inv:
            raise vlib.Undecided("%s no longer exhibits the violation of %s it documents" % (cfg, inv))
    obs = vlib.tlc(ctx, "ardop", "Ardop", "Ardop_liveness.cfg")
    ctx.notes.append("Ardop_liveness.cfg: FlushEventuallyReturns %s (observation, not part of C14)" % ("violated" if obs.error else "holds"))
    traces = ctx.path("traces.ndjson")
    p = vlib.run_harness(ctx, binary, ["ardop", "--out", traces, "--n", "20" if ctx.tier == "quick" else "1500"], timeout=6000)
    if p.returncode != 0:
        raise vlib.Undecided("ardop harness failed: rc=%d %s" % (p.returncode, p.stderr[-3000:]))
    st = json.loads(p.stdout.strip().splitlines()[-1])
    acc, rejected, _ = vlib.validate_traces(ctx, "ardop", "ArdopPropsTrace", "ArdopPropsTrace.cfg", traces, st["traces"])
    rows = vlib.read_ndjson(traces)
    # mechanism level: the TNC side event log of every outbound schedule against Ardop.tla (silent steps inferred)
    mech_rows = []
    for row in rows:
        sc = row.get("scen") or {}
        if not isinstance(sc, dict) or sc.get("kind") != "outbound" or not sc.get("writes"):
            continue
        for ev in row["ev"]:
            if ev["op"] == "TncLog":
                log = []
                for e in ev["log"]:
                    if e["k"] in ("closeCall", "closeRet", "disc"):
                        break
                    log.append({"op": e["k"], "v": e["v"]})
                if log and log[0]["op"] == "writeCall":
                    mech_rows.append({"t": len(mech_rows) + 1, "ev": log, "nw": sum(1 for e in log if e["op"] == "writeCall"), "scen": sc})
    macc = 0
    if mech_rows:
        mf = ctx.path("mech.ndjson")
        vlib.write_ndjson(mf, mech_rows)
        macc, mrej, _ = vlib.validate_traces(ctx, "ardop", "ArdopTrace", "ArdopTrace.cfg", mf, len(mech_rows), name="mech")
        for (mt, ml) in mrej:
            r = mech_rows[mt - 1]
            msg = "SPEC-DRIFT: Ardop.tla cannot follow the TNC log of schedule %s at position %d: %s" % (r["scen"], ml, [(e["op"], e["v"]) for e in r["ev"]][:ml + 1][-8:])
            print(msg[:500])
            ctx.drift.append(msg)
    starved = 0
    for (t, l) in rejected:
        row = rows[t - 1]
        sc = row["scen"]
        if isinstance(sc, dict) and not sc.get("stalledlistener") and any(e["op"] == "Starved" and e["n"] > 0 for e in row["ev"]):
            # the library's 500 ms eviction of a live receiver fired: the process was starved of CPU; not a verdict on the code
            starved += 1
            continue
        ev = row["ev"][l - 1] if 0 < l <= len(row["ev"]) else {"op": "?"}
        op = ev["op"]
        if op == "Infra":
            raise vlib.Undecided("simulator set-up failed: %s" % ev)
        if op == "Reads":
            key = "C14/read/" + ("panic" if ev["panic"] else "foreign-delivered" if ev["foreign"] else "mismatch")
            what = "bytes read differ from the concatenated ARQ payloads (%s of %s bytes, panic %r), scenario %s" % (ev["got"], ev["want"], ev["panic"], sc)
        elif op == "Api":
            key = "C14/api/%s%s" % (ev["call"], "/panic" if ev.get("panic") else "")
            what = "%s: ok=False panic=%r err=%s scenario %s" % (ev["call"], ev.get("panic"), ev.get("err"), sc)
        elif op == "TncData":
            key = "C14/tnc-frames/" + ("malformed" if not ev["wellformed"] else "payload")
            what = "what the TNC received: wellformed=%s payloadOK=%s (%s of %s bytes), scenario %s" % (ev["wellformed"], ev["payloadOK"], ev["got"], ev["want"], sc)
        elif op == "TncLog":
            key, what = "C14/flush/before-buffer-zero", "Flush returned although the TNC had not reported BUFFER 0 after the last data frame it accepted: log %s (scenario %s)" % (
                [(e["k"], e["v"]) for e in ev["log"]], sc)
        elif op == "CloseLog":
            key, what = "C14/close/before-disconnected", "Close returned although the TNC had not reported the end of the ARQ session: log %s (scenario %s)" % (
                [(e["k"], e["v"]) for e in ev["log"]][-8:], sc)
        elif op == "TncFaults":
            key = "C14/crcfault-not-retransmitted/" + (sc.get("script") or "plain")
            what = "a data frame answered with CRCFAULT was never sent again: TNC log %s (scenario %s)" % ([(e["k"], e["v"]) for e in ev["log"]], sc)
        elif op == "Retransmit":
            key, what = "C14/retransmit", "after CRCFAULT the frame was not retransmitted byte for byte (scenario %s)" % sc
        elif op == "Ptt":
            key, what = "C14/ptt-order", "PTT calls %s, TNC order %s" % (ev["calls"], ev["want"])
        elif op == "Exchange":
            key, what = "C14/exchange/" + ev["name"], "the %s exchange was not performed (scenario %s)" % (ev["name"], sc)
        elif op == "Malformed":
            key, what = "C14/malformed/" + ev["case"], "malformed TNC input %s: crashed=%s hung=%s %s" % (ev["case"], ev["crashed"], ev["hung"], ev.get("site"))
        else:
            key = "C14/crash/" + str(ev.get("func") or ev.get("site"))
            what = "the process died: %s in %s (scenario %s)" % (ev.get("site"), ev.get("func"), sc)
        vlib.report_violation(ctx, key, what, {"scenario": sc, "event": ev, "events": row["ev"]})
    if starved:
        ctx.notes.append("%d schedule(s) left out: the library evicted a live control-message receiver after 500 ms (CPU starvation)" % starved)
        if starved * 4 > len(rows):
            raise vlib.Undecided("%d of %d schedules were starved of CPU: machine too loaded" % (starved, len(rows)))
    vlib.write_evidence(ctx, "model_checking", {
        "traces_validated_against_impl": acc,
        "evaluations": st["traces"],
        "distinct_nontrivial": len(set(json.dumps(r["scen"], sort_keys=True) for r in rows)),
        "rule": "one evaluation = one schedule against the simulated ARDOP TNC in a child process; distinct = distinct scenario descriptions; "
                "all non-trivial (the TNC is initialised and a connection attempted)",
        "samples": [rows[0], rows[len(rows) // 2]["scen"]],
        "exhaustive": False,
        "mechanism_traces_validated": {"accepted": macc, "total": len(mech_rows)},
    }, ["TLC", "simulated TNC, frame lexer and CRC-16 (0x8810 / 0xFFFF) written from docs/ardop", "internal goroutine interleavings of the library "
        "are not controlled", "real time: 500 ms receiver eviction and 30 s close timeouts are not waited for"])
