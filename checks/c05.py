"""C05 — wire behaviour conforms to B2F as judged by an independently written peer.

The library (real Session + recording handler) talks to the scripted peer of harness/internal/b2f/peer.go, which is
written from the protocol documents and whose free choices (role, SID feature strings, ;FW forms, comments / ;PM / MOTD
placement, answer alphabet incl. zero-offset accepts, data block sizes 1..256, duplicate MIDs, CMS-style early FQ - in turn, and the real thing: FQ and hang-up right after its own last block -,
library-side user agent / callsign case / locator / auxiliary addresses) are drawn per scenario.  Every byte the Session
emits is lexed by the independent lexer; all units and handler events of both sides are validated by TLC against the
protocol rules of the monitor B2FProps.tla (handshake grammar, block shape and order, checksums, one answer per proposal,
frame arithmetic, payload header, turn-taking, FF/FQ) and the prescribed outcome (CompleteExchange).
"""
import json

import vlib
import b2fcommon as bc


def run(ctx):
    binary = vlib.build_harness(ctx)
    quick = ctx.tier == "quick"
    # the CMS-style quit at the level of the mechanism: with the write error of the pointless FF / FQ ignored (the code), the
    # station that has nothing to send ends cleanly and every other property of B2F.tla still holds; not ignoring it is the
    # named deviation that must break QuitIsClean
    vlib.design_check(ctx, bc.SPECDIR, "MCB2F", "B2F_cms.cfg")
    vlib.design_check(ctx, bc.SPECDIR, "MCB2F", "B2F_cmslive.cfg")
    dev = vlib.tlc(ctx, bc.SPECDIR, "MCB2F", "B2F_cmsfatal.cfg")
    if dev.violated != "QuitIsClean":
        raise vlib.Undecided("B2F_cmsfatal.cfg no longer produces the QuitIsClean counterexample")
    traces = ctx.path("traces.ndjson")
    scen = ctx.path("scen.ndjson")
    p = vlib.run_harness(ctx, binary, ["b2f-c05", "--out", traces, "--scenarios", scen, "--n", "1200" if quick else "20000",
                                       "--workers", str(vlib.NCPU)], timeout=3000)
    if p.returncode != 0:
        raise vlib.Undecided("b2f-c05 harness failed: rc=%d %s" % (p.returncode, p.stderr[-3000:]))
    st = json.loads(p.stdout.strip().splitlines()[-1])
    acc, rejected, _ = vlib.validate_traces(ctx, bc.SPECDIR, "B2FPropsTrace", "B2FPropsTrace.cfg", traces, st["traces"])
    scens = vlib.read_ndjson(scen)
    rows = vlib.read_ndjson(traces)
    if rejected:
        bc.report_rejections(ctx, "C05", rows, rejected, lambda row: scens[row["scen"] - 1])
    # CMS-style quits: how many sessions had one, and in how many the library's FF met the closed link (no FF on the wire
    # after the peer's FQ) - the schedule in which a write error of that pointless FF must not fail the exchange
    cms = cms_closed = cms_clean = 0
    for row in rows:
        evs = row["ev"]
        k = next((i for i, e in enumerate(evs) if e["op"] == "CmsIntent"), None)
        if k is None:
            continue
        cms += 1
        if not any(e["op"] == "Unit" and e.get("s") == "A" and e.get("kind") == "FF" for e in evs[k:]):
            cms_closed += 1
        if all(e.get("res") == "nil" for e in evs if e["op"] == "Return"):
            cms_clean += 1
    if cms == 0 or cms_closed == 0:
        raise vlib.Undecided("no session with a CMS-style quit whose FF met the closed link was generated (%d, %d)" % (cms, cms_closed))
    st["cms_style_quits"] = {"sessions": cms, "library_FF_met_closed_link": cms_closed, "both_returned_nil": cms_clean}
    # a conforming peer that rejects what it received is a violation too (PeerReject events are not monitor actions)
    vlib.write_evidence(ctx, "model_checking", {
        "traces_validated_against_impl": acc,
        "evaluations": st["traces"],
        "distinct_nontrivial": st["nontrivial"],
        "rule": "one evaluation = one scripted session (library vs independent peer); scenarios are drawn independently, non-trivial = "
                "at least one message transferred in either direction (counted by the harness)",
        "samples": [{"scenario": scens[0], "first_events": rows[0]["ev"][:14]}],
        "exhaustive": False,
        "stats": st,
    }, ["TLC", "scripted peer and wire lexer written from docs/F6FBB-B2F (my reading of the documents; Winlink's own B2F document is "
        "not in the sandbox)", "the peer's LZHUF codec is the library's (codec independence is C07's subject)",
        "answer letter H is read as a deferral (pinned by the repository's own test); E is not sent; lines end in CR only"])
