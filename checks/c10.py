"""C10 — the directory mailbox behaves like Mailbox.tla over any history.

spec -> code: TLC explores Mailbox.tla exhaustively per universe and dumps the graph; every
(state, operation, state') edge is executed on a real DirHandler by walks over the graph.
code -> spec: the recorded executions of those walks and of long random histories are validated
by MailboxTrace.tla, which compares the complete observation after every operation.
"""
import json
import os
import random
import shutil
from collections import defaultdict, deque

import vlib

SPECDIR = "mailbox"


def tla_str_set(xs):
    return "{" + ", ".join('"%s"' % x for x in xs) + "}"


def tla_fn(pairs):
    return "(" + " @@ ".join("%s :> %s" % (k, v) for k, v in pairs) + ")"


def universe(cfg, name):
    msgs = {}
    for mid, (shape, p2p) in cfg["universes"][name].items():
        s = cfg["shapes"][shape]
        msgs[mid] = {"to": s["to"], "cc": s["cc"], "p2p": p2p, "sole": s["sole"]}
    return {"name": name, "msgs": msgs, "fw": cfg["fw"]}


def mc_module(root, extends, u):
    mids = sorted(u["msgs"])
    lines = ["---- MODULE %s ----" % root, "EXTENDS %s" % extends,
             "U_MID == " + tla_str_set(mids),
             "U_Sole == " + tla_fn([('"%s"' % m, '"%s"' % u["msgs"][m]["sole"]) for m in mids]),
             "U_P2POnly == " + tla_fn([('"%s"' % m, "TRUE" if u["msgs"][m]["p2p"] else "FALSE") for m in mids]),
             "U_FW == " + tla_fn([('"%s"' % f, tla_str_set(u["fw"][f]["norm"])) for f in sorted(u["fw"])]),
             "===="]
    return "\n".join(lines) + "\n"


def state_key(st):
    return json.dumps({k: v for k, v in st.items() if k != "last"}, sort_keys=True)


def build_walks(nodes, edges, inits, maxlen, rng):
    """Cover every projected edge (state, op, state') with walks that each start in an initial state."""
    key = {n: state_key(s) for n, s in nodes.items()}
    adj = defaultdict(dict)   # skey -> {opjson: skey'}
    for u, v, _ in edges:
        last = nodes[v]["last"]
        op = json.dumps({"op": last["op"], "m": last["m"], "flag": last["flag"]}, sort_keys=True)
        adj[key[u]][op] = key[v]
    init_keys = sorted(set(key[i] for i in inits))
    uncovered = {(s, op) for s in adj for op in adj[s]}
    total = len(uncovered)

    def path_to_uncovered(src):
        """BFS from src to the nearest state with an uncovered out-edge; returns list of (op, next)."""
        if any((src, op) in uncovered for op in adj[src]):
            return []
        seen = {src: None}
        dq = deque([src])
        while dq:
            s = dq.popleft()
            for op, nx in adj[s].items():
                if nx in seen:
                    continue
                seen[nx] = (s, op)
                if any((nx, o) in uncovered for o in adj[nx]):
                    path = []
                    cur = nx
                    while seen[cur] is not None:
                        p, o = seen[cur]
                        path.append((o, cur))
                        cur = p
                    return list(reversed(path))
                dq.append(nx)
        return None

    walks = []
    ii = 0
    while uncovered:
        start = init_keys[ii % len(init_keys)]
        ii += 1
        cur = start
        ops = []
        progressed = False
        while len(ops) < maxlen and uncovered:
            cand = [op for op in adj[cur] if (cur, op) in uncovered]
            if cand:
                op = rng.choice(sorted(cand))
                uncovered.discard((cur, op))
                ops.append(json.loads(op))
                cur = adj[cur][op]
                progressed = True
                continue
            p = path_to_uncovered(cur)
            if p is None:
                break
            for op, nx in p:
                ops.append(json.loads(op))
                cur = nx
        so = json.loads(start)["sendOnly"]
        if ops:
            walks.append({"so": so, "ops": ops})
        if not progressed and ii > 4 * len(init_keys):
            break
    return walks, total, len(uncovered)


def run(ctx):
    with open(os.path.join(vlib.SPEC, SPECDIR, "universes.json")) as f:
        cfg = json.load(f)
    rng = random.Random(ctx.seed)
    binary = vlib.build_harness(ctx)
    names = cfg["tiers"][ctx.tier]
    total_traces = total_ops = total_edges = 0
    accepted_total = 0
    samples = []
    distinct_keys = set()
    exhaustive = True
    for name in names:
        u = universe(cfg, name)
        specsrc = os.path.join(vlib.SPEC, SPECDIR)
        # generated MC modules live next to a scratch copy of the spec
        gen = ctx.path("gen-" + name, "x")[:-2]
        for f in os.listdir(specsrc):
            shutil.copy(os.path.join(specsrc, f), gen)
        for f in os.listdir(os.path.join(vlib.SPEC, "common")):
            shutil.copy(os.path.join(vlib.SPEC, "common", f), gen)
        with open(os.path.join(gen, "MCMailbox.tla"), "w") as f:
            f.write(mc_module("MCMailbox", "Mailbox", u))
        with open(os.path.join(gen, "MCMailboxTrace.tla"), "w") as f:
            f.write(mc_module("MCMailboxTrace", "MailboxTrace", u))
        upath = os.path.join(gen, "universe.json")
        with open(upath, "w") as f:
            json.dump(u, f)
        # 1. design: exhaustive model check + graph dump
        dot = os.path.join(gen, "graph")
        r = vlib.design_check(ctx, gen, "MCMailbox", "Mailbox_design.cfg", copy=False,
                              args=["-dump", "dot,actionlabels", dot], name="design-" + name)
        nodes, edges, inits = vlib.read_dot(dot + ".dot")
        if len(nodes) != r.distinct:
            raise vlib.Undecided("graph dump has %d nodes, TLC reported %d" % (len(nodes), r.distinct))
        walks, nedges, left = build_walks(nodes, edges, inits, 300, rng)
        if left:
            raise vlib.Undecided("%d model edges not reachable by walks" % left)
        total_edges += nedges
        for e in edges[:0]:
            pass
        scen = os.path.join(gen, "scen.ndjson")
        vlib.write_ndjson(scen, [{"t": i + 1, "so": w["so"], "ops": w["ops"]} for i, w in enumerate(walks)])
        # 2. execute on the real DirHandler (+ random long histories: code -> spec)
        nrand = 20 if ctx.tier == "quick" else 200
        rlen = 300 if ctx.tier == "quick" else 1000
        traces = os.path.join(gen, "traces.ndjson")
        inflight = os.path.join(gen, "inflight.json")
        p = vlib.run_harness(ctx, binary, ["mbox", "--universe", upath, "--scen", scen, "--out", traces,
                                           "--random", str(nrand), "--len", str(rlen),
                                           "--tmp", os.path.join(gen, "mb"), "--inflight", inflight])
        if p.returncode != 0:
            if os.path.exists(inflight):
                sc = json.load(open(inflight))
                vlib.report_violation(ctx, "C10/process-death",
                                      "the process died (exit %d) during a mailbox operation of this history: %s"
                                      % (p.returncode, p.stderr[-300:]), {"universe": u, "scenario": sc})
                continue
            raise vlib.Undecided("mbox harness failed: rc=%d %s" % (p.returncode, p.stderr[-2000:]))
        stats = json.loads(p.stdout.strip().splitlines()[-1])
        ntr = stats["traces"]
        total_traces += ntr
        total_ops += stats["ops"]
        # 3. validate against the specification
        acc, rejected, tr = vlib.validate_traces(ctx, gen, "MCMailboxTrace", "MailboxTrace.cfg", traces, ntr,
                                                 name="tv-" + name)
        accepted_total += acc
        rows = None
        if rejected:
            rows = vlib.read_ndjson(traces)
        for (t, l) in rejected:
            tr_row = rows[t - 1]
            ev = tr_row["ev"][l - 1] if 0 < l <= len(tr_row["ev"]) else None
            op = ev["op"] if ev else "?"
            what = "operation #%d %s(%s,%s) of history %d in universe %s: observation differs from Mailbox.tla" % (
                l, op, ev and ev.get("m"), ev and ev.get("flag"), t, name)
            if ev and ev.get("obs", {}).get("priv"):
                key = "C10/private-headers-offered"
                what += " (GetOutbound returned a message carrying X-FilePath/X-Unread/X-P2POnly)"
            elif ev and ev.get("panic"):
                key = "C10/panic/" + op
            else:
                key = "C10/mismatch/" + op
            vlib.report_violation(ctx, key, what, {"universe": u, "so": tr_row["so"],
                                                   "ops": [{k: e[k] for k in ("op", "m", "flag")} for e in tr_row["ev"][:l]],
                                                   "observed": ev})
        for w in walks[:1]:
            samples.append({"universe": name, "walk_prefix": w["ops"][:8], "walk_len": len(w["ops"])})
        for n, s in nodes.items():
            distinct_keys.add(name + state_key(s))
    vlib.write_evidence(ctx, "model_checking", {
        "traces_validated_against_impl": accepted_total,
        "evaluations": total_ops,
        "distinct_nontrivial": total_edges,
        "rule": "evaluations = mailbox operations executed on a real DirHandler (graph walks + random histories), each followed "
                "by a full observation compared by TLC with Mailbox.tla; distinct_nontrivial = distinct (state, operation, "
                "state') edges of the exhaustively explored model graph, every one of which was executed at least once",
        "samples": samples,
        "exhaustive": exhaustive,
        "universes": names,
        "model_states_without_last": len(distinct_keys),
        "traces_total": total_traces,
    }, ["TLC", "Go toolchain", "address normalisation table in spec/mailbox/universes.json (sole receiver of each message shape)",
        "content identity computed by the harness (bytes.Equal modulo the private headers X-Unread/X-FilePath)"])
