"""C18 — setting a message body preserves the text.

Design: Body.tla (scaled Wrap/Tok) — TextPreserved and CRLFAndBound hold for all texts up to a bound over ASCII / wide
characters / LF / CR, and fail with the named deviations ScannerGivesUp and SplitInsideRune.  Binding: TLC enumerates
shape descriptors (BodyShapes.tla); the harness expands them with the real constants (998, 65536) and calls the real
SetBody; the projection's predicates are judged by BodyTrace.tla.
"""
import json

import vlib


def run(ctx):
    binary = vlib.build_harness(ctx)
    quick = ctx.tier == "quick"
    vlib.design_check(ctx, "message", "Body", "Body_design.cfg")
    dev = vlib.tlc(ctx, "message", "Body", "Body_deviations.cfg")
    if dev.violated != "TextPreserved":
        raise vlib.Undecided("deviation configuration no longer violates TextPreserved")
    r = vlib.tlc(ctx, "message", "BodyShapes", "BodyShapes_quick.cfg" if quick else "BodyShapes_thorough.cfg", timeout=1200)
    if not r.ok:
        raise vlib.Undecided("shape enumeration failed: %s" % r.error)
    shapes = []
    for line in r.out.splitlines():
        if line.startswith('"{') and '\\"shape\\"' in line:
            shapes.append(json.loads(json.loads(line)))
    if len(shapes) < 900:
        raise vlib.Undecided("only %d shapes enumerated" % len(shapes))
    if not quick:
        import random
        rng = random.Random(ctx.seed)
        two = [s for s in shapes if len(s["shape"]) <= 2]
        three = [s for s in shapes if len(s["shape"]) == 3]
        rng.shuffle(three)
        shapes = two + three[:20000]
    # the 5Tok shapes are 330 KB each: keep every shape but cap repeated huge ones in quick
    if quick:
        shapes = [s for s in shapes if sum(1 for x in s["shape"] if x["len"] in ("5Tok",)) <= 1]
    sf = ctx.path("shapes.ndjson")
    vlib.write_ndjson(sf, shapes)
    traces = ctx.path("traces.ndjson")
    p = vlib.run_harness(ctx, binary, ["body", "--shapes", sf, "--out", traces, "--extra", "400" if quick else "5000"], timeout=3000)
    if p.returncode != 0:
        raise vlib.Undecided("body harness failed: rc=%d %s" % (p.returncode, p.stderr[-3000:]))
    st = json.loads(p.stdout.strip().splitlines()[-1])
    acc, rejected, _ = vlib.validate_traces(ctx, "message", "BodyTrace", "BodyTrace.cfg", traces, st["traces"])
    rows = vlib.read_ndjson(traces)
    for (t, l) in rejected:
        ev = rows[t - 1]["ev"][0]
        if ev["op"] == "Recheck":
            vlib.report_violation(ctx, "C18/earlier-body-changed", "the stored body of an earlier message changed after SetBody on another "
                                  "message: %s" % json.dumps(ev["which"])[:200], {"event": ev})
            continue
        if ev["err"]:
            key, what = "C18/error", "SetBody failed: %s" % (ev.get("errtext") or ev.get("panic"))
        elif not ev["textPreserved"] and ev["outlen"] < ev["inlen"] // 2:
            key, what = "C18/text-dropped", "most of the text was dropped (in %d bytes, stored %d bytes)" % (ev["inlen"], ev["outlen"])
        elif not ev["textPreserved"]:
            key, what = "C18/text-changed", "stored text differs from the input (in %d bytes, stored %d)" % (ev["inlen"], ev["outlen"])
        elif ev["maxLine"] > 1000:
            key, what = "C18/line-too-long", "a stored line has %d bytes" % ev["maxLine"]
        elif not ev["crlfOnly"]:
            key, what = "C18/not-crlf", "a line of the stored body does not end in CRLF"
        elif ev["bodyHeader"] != ev["outlen"]:
            key, what = "C18/body-header", "Body header %d, stored %d bytes" % (ev["bodyHeader"], ev["outlen"])
        else:
            key, what = "C18/body-accessor", "Body() does not return the stored text"
        vlib.report_violation(ctx, key, what + " for " + json.dumps(ev["desc"])[:300], {"event": {k: v for k, v in ev.items()}})
    vlib.write_evidence(ctx, "exploration", {
        "traces_validated_against_impl": acc,
        "evaluations": st["traces"],
        "distinct_nontrivial": len(set(json.dumps(r["ev"][0]["desc"]) + str(r["ev"][0]["inlen"]) for r in rows
                                       if r["ev"][0]["op"] == "Body" and r["ev"][0]["inlen"] > 0)),
        "rule": "one evaluation = one SetBody call on a text expanded from a TLC-enumerated shape descriptor (runs of ascii/wide/mixed "
                "characters x length class around Wrap=998 and Tok=65536 x terminator) or a seeded free-form text; non-trivial = "
                "non-empty text; distinct by (descriptor, input length)",
        "samples": [{k: v for k, v in rows[0]["ev"][0].items()}, {k: v for k, v in rows[len(rows) // 2]["ev"][0].items()}],
        "exhaustive": quick is False and False,
        "shapes_enumerated": len(shapes),
    }, ["TLC", "projection predicates computed by harness/internal/msgh/body.go (Latin-1 conversion, CR/LF stripping, line scan)"])
