"""Shared helpers of the LZHUF family checks (C06, C07, C08)."""
import json
import os

import vlib

SPECDIR = "lzhuf"


def scaled_design(ctx):
    """Exhaustive scaled check: every input up to the bound x every valid coding decodes to the input."""
    return vlib.design_check(ctx, SPECDIR, "MCLzhufScaled", "LzhufScaled.cfg", timeout=1200)


def run_batch(ctx, jobs_file, name, timeout=3000):
    """Run the canonical codec (Lzhuf.tla) over a job file; returns the list of result records."""
    r = vlib.tlc(ctx, SPECDIR, "MCLzhufBatch", "LzhufBatch.cfg", env={"JOBS": jobs_file}, timeout=timeout, name=name)
    if not r.ok:
        raise vlib.Undecided("reference codec run failed: %s\n%s" % (r.error, r.out[-2000:]))
    res = []
    for line in r.out.splitlines():
        if line.startswith('"{') and '\\"result\\"' in line:
            res.append(json.loads(json.loads(line)))
    return res, r


def describe(rows, t, l, prefix):
    row = rows[t - 1]
    evs = row["ev"]
    ev = evs[l - 1] if 0 < l <= len(evs) else {}
    meta = {k: v for k, v in row.items() if k != "ev"}
    op = ev.get("op")
    if op == "Panic":
        return prefix + "/panic", "panic: %s (%s)" % (ev.get("text"), meta), ev, meta
    if op == "Spin":
        return prefix + "/spin", "Read makes no progress: %d reads (%s)" % (ev.get("reads"), meta), ev, meta
    if op == "WClose":
        if not ev.get("ok"):
            return prefix + "/writer-error", "Writer failed (%s)" % meta, ev, meta
        return prefix + "/chunk-dependent", "compressed bytes depend on how the writes were split (%s)" % meta, ev, meta
    if op == "Read":
        if not ev.get("match", True):
            return prefix + "/wrong-bytes", "decompressed bytes differ from the input (%s)" % meta, ev, meta
        if ev.get("n") == 0 and ev.get("err") == "nil":
            return prefix + "/spin", "Read returned (0, nil) repeatedly (%s)" % meta, ev, meta
        return prefix + "/read-contract", "Read(%s) = (%s, %s) violates the stream contract (%s)" % (ev.get("k"), ev.get("n"), ev.get("err"), meta), ev, meta
    if op == "Close":
        if not ev.get("canonOK", True):
            return prefix + "/close-unsound", "Close = nil although the bytes read are not the canonical decoding (%s)" % meta, ev, meta
        return prefix + "/close", "Close = %s violates the stream contract (%s)" % (ev.get("err"), meta), ev, meta
    if op == "RefDecode":
        if not ev.get("hdrOK"):
            return prefix + "/header", "B2 header (CRC-16 LE over size+data, 32-bit LE size) is not as specified (%s)" % meta, ev, meta
        return prefix + "/ref-decode", "the reference codec does not decode the library's stream to the input (%s)" % meta, ev, meta
    if op == "Open":
        return prefix + "/open", "NewReader result violates the contract (%s)" % meta, ev, meta
    return prefix + "/" + str(op), "event not allowed (%s)" % meta, ev, meta
