"""C02 — link failure never marks an undelivered message sent, nor loses/duplicates one.

Fault enumeration on real Sessions: for core scenarios the link is cut after every byte count k in either direction
(all k for the smallest scenario, a stride plus the confirmation window for the others), storage failures at every inbound
message index, and multi-fault sequences; every faulty session is followed by a clean one on the same mailboxes.  All
handler calls / wire units / returns are validated by TLC against the monitor B2FProps.tla: NoFalseSent and the other
invariants at every step, both Exchange calls return (watchdog), and EndAll (delivered exactly once and reported sent).
"""
import json

import vlib
import b2fmech
import b2fcommon as bc


def run(ctx):
    binary = vlib.build_harness(ctx)
    quick = ctx.tier == "quick"
    # design: the mechanism model with Cut at every unit boundary, StoreFail, several sessions; liveness; and the
    # counterexample of the named deviation ReportBeforeConfirm
    vlib.design_check(ctx, bc.SPECDIR, "MCB2F", "B2F_fault.cfg" if quick else "B2F_fault_thorough.cfg", timeout=3000)
    vlib.design_check(ctx, bc.SPECDIR, "MCB2F", "B2F_live.cfg")
    dev = vlib.tlc(ctx, bc.SPECDIR, "MCB2F", "B2F_deviation.cfg")
    if dev.violated != "NoFalseSent":
        raise vlib.Undecided("B2F_deviation.cfg no longer produces the NoFalseSent counterexample")
    traces = ctx.path("traces.ndjson")
    scen = ctx.path("scen.ndjson")
    p = vlib.run_harness(ctx, binary, ["b2f-c02", "--out", traces, "--scenarios", scen, "--stride", "7" if quick else "1",
                                       "--seqs", "60" if quick else "2000", "--workers", str(vlib.NCPU),
                                       "--tmp", ctx.path("mb", "x")[:-2]], timeout=3000)
    if p.returncode != 0:
        raise vlib.Undecided("b2f-c02 harness failed: rc=%d %s" % (p.returncode, p.stderr[-3000:]))
    st = json.loads(p.stdout.strip().splitlines()[-1])
    acc, rejected, _ = vlib.validate_traces(ctx, bc.SPECDIR, "B2FPropsTrace", "B2FPropsTrace.cfg", traces, st["traces"])
    scens = vlib.read_ndjson(scen)
    # mechanism level: the faulty executions (cuts at byte positions, storage failures, several sessions) must be behaviours
    # of B2F.tla with its Cut / StoreFail / WriteFails environment (silent steps and the units that survive a cut inferred)
    macc, mtot, mskip, drift = b2fmech.validate(ctx, vlib.read_ndjson(traces), name="mech", limit=900 if quick else None)
    for dline in drift[:5]:
        print("SPEC-DRIFT: " + dline[:400])
    ctx.drift += drift[:20]
    if rejected:
        rows = vlib.read_ndjson(traces)
        bc.report_rejections(ctx, "C02", rows, rejected, lambda row: scens[row["item"] - 1])
    # a store that fails in the middle of writing the message's file (directory mailboxes; the process's file size limit is
    # lowered for the call, so these sequences run one session at a time in a process of their own)
    ptraces, pscen = ctx.path("traces-fsp.ndjson"), ctx.path("scen-fsp.ndjson")
    p2 = vlib.run_harness(ctx, binary, ["b2f-c02", "--fspartial", "--out", ptraces, "--scenarios", pscen, "--tmp", ctx.path("mbp", "x")[:-2]], timeout=1200)
    if p2.returncode != 0:
        raise vlib.Undecided("b2f-c02 --fspartial failed: rc=%d %s" % (p2.returncode, p2.stderr[-3000:]))
    st2 = json.loads(p2.stdout.strip().splitlines()[-1])
    prows = vlib.read_ndjson(ptraces)
    hit = sum(1 for r in prows if any(e["op"] == "Store" and e.get("err") for e in r["ev"]))
    if st2["traces"] == 0 or hit == 0:
        raise vlib.Undecided("no sequence with a store failing in mid-file was produced (%d, %d)" % (st2["traces"], hit))
    pacc, prej, _ = vlib.validate_traces(ctx, bc.SPECDIR, "B2FPropsTrace", "B2FPropsTrace.cfg", ptraces, st2["traces"], name="fsp")
    if prej:
        pscens = vlib.read_ndjson(pscen)
        bc.report_rejections(ctx, "C02", prows, prej, lambda row: pscens[row["item"] - 1])
    acc += pacc
    st["store_fails_in_mid_file"] = {"sequences": st2["traces"], "with_failed_store": hit, "accepted": pacc}
    vlib.write_evidence(ctx, "fault_enumeration", {
        "traces_validated_against_impl": acc,
        "evaluations": st["sessions"],
        "distinct_nontrivial": st["nontrivial"],
        "rule": "one evaluation = one real two-station session; a case = (core scenario, fault sequence) followed by a clean session; "
                "distinct_nontrivial = distinct (abstract scenario, fault list) cases in which at least one message was stored; "
                "cut positions: every byte count of the smallest scenario in both directions, stride + last 12 bytes elsewhere "
                "(thorough: every byte everywhere); storage failure at every inbound index",
        "samples": [scens[0], scens[len(scens) // 2], scens[-1]],
        "exhaustive": not quick,
        "stats": st,
        "mechanism_traces_validated": {"accepted": macc, "total": mtot, "skipped": mskip},
    }, ["TLC", "wire lexer", "content identity by bytes.Equal", "cut model: receiver gets exactly k bytes then EOF; writer sees error or "
        "silent success; reverse bytes in flight delivered or dropped", "watchdog 20 s per session"])
