"""Shared helpers of the B2F family checks (C01, C02, C04, C05, C16, C03)."""
import json

import vlib

SPECDIR = "b2f"


def describe_rejection(evs, l):
    """Derive a finding key and a description from the first unmatched event of a B2F monitor trace."""
    ev = evs[l - 1] if 0 < l <= len(evs) else None
    if ev is None:
        return "B2F/unknown", "trace rejected at %d" % l, None
    op = ev.get("op")
    if op == "Unit":
        k = ev.get("kind")
        if k == "Bad":
            return "B2F/wire/bad-unit", "station %s emitted a non-conforming unit: %s (%s)" % (ev["s"], ev.get("raw"), ev.get("why")), ev
        if k == "Frame":
            bad = [f for f in ("hdrOK", "sumOK", "crcOK") if not ev.get(f)]
            return "B2F/wire/frame" + ("-" + "-".join(bad) if bad else ""), "message transfer by %s violates the framing rules: %s" % (
                ev["s"], {x: ev.get(x) for x in ("hdrOK", "sumOK", "crcOK", "offset", "nbytes", "usize", "maxchunk", "title")}), ev
        return "B2F/wire/" + str(k), "unit %s from station %s is not allowed here by the protocol monitor: %s" % (k, ev["s"], json.dumps(ev)[:300]), ev
    if op == "Store":
        if not ev.get("intact"):
            return "B2F/store/not-intact", "ProcessInbound(%s) received content that differs from what the sender queued" % ev["m"], ev
        return "B2F/store/unexpected", "ProcessInbound(%s) called for a proposal that was not accepted, or twice" % ev["m"], ev
    if op == "SetSent":
        if ev.get("rej"):
            return "B2F/setsent/rejected-wrong", "SetSent(%s, rejected) although the peer did not reject it (or it was transferred)" % ev["m"], ev
        return "B2F/setsent/before-stored", "SetSent(%s) although the peer's handler has not completely received it" % ev["m"], ev
    if op == "SetDeferred":
        return "B2F/setdeferred/wrong", "SetDeferred(%s) although the peer did not defer it" % ev["m"], ev
    if op == "Return":
        if ev.get("res") == "panic":
            top = ""
            for line in (ev.get("panic") or "").splitlines():
                if "wl2k-go/" in line and ".go:" not in line:
                    top = line.strip().split("(")[0].split("/")[-1]
                    break
            return "B2F/panic/" + top, "Exchange panicked: " + (ev.get("panic") or "")[:300], ev
        return "B2F/return", "Exchange returned twice or out of order", ev
    if op == "End":
        if ev.get("timedout"):
            return "B2F/end/hang", "an Exchange call did not return (watchdog)", ev
        return "B2F/end/incomplete", "session end state violates the property (completeness / results / stats / closed)", ev
    if op == "EndAll":
        return "B2F/endall/not-exactly-once", "after the final clean session a message is not delivered exactly once and reported sent", ev
    return "B2F/" + str(op), "event %s not allowed by the monitor" % json.dumps(ev)[:300], ev


def report_rejections(ctx, prefix, rows, rejected, scen_of):
    for (t, l) in rejected:
        evs = rows[t - 1]["ev"]
        key, what, ev = describe_rejection(evs, l)
        key = key.replace("B2F", prefix, 1)
        lo = max(0, l - 8)
        vlib.report_violation(ctx, key, what, {"scenario": scen_of(rows[t - 1]), "rejected_event_index": l,
                                               "events_before": evs[lo:l]})
