"""C04 — a transfer damaged in transit is never delivered as a good message.

Real two-station sessions through a tampering duplex: for several message shapes, every single-byte substitution and
deletion in the SOH..EOT range (stride on the larger ones), insertions, the structural bytes, and sum-compensating pairs
(+d/-d) inside block data.  The independent lexer + CRC classify each alteration (do the protocol's integrity checks
still hold?); TLC validates the recorded events against the monitor: nothing is stored unless the checks hold, nothing
stored is corrupt, the sender never records the message as sent unless the peer stored it, and a following clean session
delivers it exactly once.
"""
import json

import vlib
import b2fcommon as bc


def run(ctx):
    binary = vlib.build_harness(ctx)
    quick = ctx.tier == "quick"
    total = acc_total = 0
    stats = []
    sample = None
    for gz in ("0", "1"):
        traces = ctx.path("traces%s.ndjson" % gz)
        scen = ctx.path("scen%s.ndjson" % gz)
        args = ["b2f-c04", "--out", traces, "--scenarios", scen, "--workers", str(vlib.NCPU)]
        if quick:
            args += ["--stride", "3" if gz == "0" else "9", "--pairs", "300" if gz == "0" else "60"]
        else:
            args += ["--stride", "1", "--pairs", "6000" if gz == "0" else "1000"]
        p = vlib.run_harness(ctx, binary, args, env={"GZIP_EXPERIMENT": gz}, timeout=3000)
        if p.returncode != 0:
            raise vlib.Undecided("b2f-c04 harness failed: rc=%d %s" % (p.returncode, p.stderr[-3000:]))
        st = json.loads(p.stdout.strip().splitlines()[-1])
        st["gzip"] = gz
        stats.append(st)
        acc, rejected, _ = vlib.validate_traces(ctx, bc.SPECDIR, "B2FPropsTrace", "B2FPropsTrace.cfg", traces, st["traces"],
                                                name="tv-gz" + gz)
        total += st["sessions"]
        acc_total += acc
        scens = vlib.read_ndjson(scen)
        if rejected:
            rows = vlib.read_ndjson(traces)
            bc.report_rejections(ctx, "C04", rows, rejected, lambda row: scens[row["item"] - 1])
        if sample is None:
            sample = [scens[0], scens[len(scens) // 2], scens[-1]]
    vlib.write_evidence(ctx, "fault_enumeration", {
        "traces_validated_against_impl": acc_total,
        "evaluations": total,
        "distinct_nontrivial": sum(s["distinct"] for s in stats),
        "rule": "one case = (message shape, alteration of the transfer's byte range) run as a tampered session followed by a clean "
                "session; all cases are non-trivial (a transfer is attempted in each); distinct = distinct (message, alteration)",
        "samples": sample,
        "exhaustive": False,
        "runs": stats,
    }, ["TLC", "wire lexer and bitwise CRC-16/XMODEM classify which integrity checks still hold",
        "content identity by bytes.Equal", "a stalled link (both stations blocked reading) is treated as a link failure"])
