"""C09 — message serialisation round-trips and is canonical.

Design: Message.tla — Parse(Serialise(m)) = m and canonicity of the section layout for all (body, attachments) over a small
byte alphabet incl. CR, LF, NUL (TLC, exhaustive).  Binding: the same enumeration is the test plan: every (body, files)
combination is built through the public API with cycling address / subject / name / date / extra-header variations,
serialised, parsed back through five chunkings, compared field by field and accessor by accessor, and re-serialised
(identity oracle = verdict, MessageTrace.tla).  The byte layout is compared with the specification as a drift diagnostic.
"""
import json

import vlib


def run(ctx):
    binary = vlib.build_harness(ctx)
    quick = ctx.tier == "quick"
    r = vlib.design_check(ctx, "message", "Message", "Message_quick.cfg", timeout=1200)
    if not quick:
        vlib.design_check(ctx, "message", "Message", "Message_thorough.cfg", timeout=3000)
    plans = []
    for line in r.out.splitlines():
        if line.startswith('"{') and '\\"plan\\"' in line:
            plans.append(json.loads(json.loads(line)))
    if len(plans) < 5000:
        raise vlib.Undecided("only %d plan items" % len(plans))
    pf = ctx.path("plans.ndjson")
    vlib.write_ndjson(pf, plans)
    traces = ctx.path("traces.ndjson")
    p = vlib.run_harness(ctx, binary, ["msg", "--plans", pf, "--out", traces, "--extra", "400" if quick else "150000"], timeout=3000)
    if p.returncode != 0:
        raise vlib.Undecided("msg harness failed: rc=%d %s" % (p.returncode, p.stderr[-3000:]))
    st = json.loads(p.stdout.strip().splitlines()[-1])
    acc, rejected, _ = vlib.validate_traces(ctx, "message", "MessageTrace", "MessageTrace.cfg", traces, st["traces"])
    rows = vlib.read_ndjson(traces)
    for (t, l) in rejected:
        ev = rows[t - 1]["ev"][0]
        bad = [k for k in ("panic", "writeErr", "parseErr") if ev[k]] + \
              [k for k in ("headersEqual", "bodyEqual", "filesEqual", "accessorsEqual", "reserialiseEqual", "chunkIndependent", "earlierBytesStable", "reuseIndependent") if not ev[k]]
        key = "C09/" + (bad[0] if bad else "?")
        vlib.report_violation(ctx, key, "round trip of a message built through the API fails (%s): %s %s" % (
            ",".join(bad), json.dumps(ev["desc"])[:200], ev.get("errtext") or ev.get("accdiff") or ""), {"event": ev})
    drift = [r["ev"][0]["desc"] for r in rows if not r["ev"][0]["panic"] and not r["ev"][0]["writeErr"]
             and not (r["ev"][0]["tailMatches"] and r["ev"][0]["hdrOrder"])]
    if drift:
        print("SPEC-DRIFT: %d messages whose byte layout differs from Message.tla (not a violation), e.g. %s" % (len(drift), json.dumps(drift[0])[:200]))
        ctx.drift.append({"count": len(drift), "example": drift[0]})
    vlib.write_evidence(ctx, "model_checking", {
        "traces_validated_against_impl": acc,
        "evaluations": st["traces"],
        "distinct_nontrivial": st["plans"] + (st["traces"] - st["plans"]),
        "rule": "one evaluation = one message built through the public API, serialised, parsed back through 5 (plan) or 2 (seeded) "
                "chunkings and re-serialised; the plan part is the exhaustive TLC enumeration of (body, attachments) over {x,CR,LF,NUL} "
                "up to the bound, each distinct; seeded messages are Latin-1 rich / large and distinct by construction",
        "samples": [rows[3]["ev"][0], rows[-1]["ev"][0]],
        "exhaustive": True,
    }, ["TLC", "identity oracle in harness/internal/msgh/message.go", "Q-encoding and date layouts are opaque to the specification"])
