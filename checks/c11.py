"""C11 — the mailbox survives a crash at any point.

Design: MailboxFS.tla (part 2) — every Crash point of a store operation incl. every write-prefix length: TLC shows the
recovery invariants hold for WriteTempThenRename and fail for WriteInPlace.  Binding: each mutating call (ProcessInbound,
AddOut, SetSent, SetUnread, re-receive) is recorded once under strace in a child process; for every recorded file-system
call index (process killed before it) and every prefix length of every write (torn write) the state is materialised on a
copy of the pre-state (replaying the complete record is first checked to reproduce the real result) and the real recovery
code runs on it (Prepare, all listings, GetInboundAnswer, GetOutbound); MailboxFSTrace.tla judges the obligations.
"""
import json

import vlib

KNOWN = {"open write close": "WriteInPlace", "open write close rename": "WriteTempThenRename", "rename": "Rename",
         "open write fsync close rename": "WriteTempThenRename(+fsync)"}


def run(ctx):
    binary = vlib.build_harness(ctx)
    quick = ctx.tier == "quick"
    vlib.design_check(ctx, "mailbox", "MailboxFS", "MailboxFS_temprename.cfg")
    # sequences of operations with crashes and restarts in between (what a later operation does to the leftovers of an
    # interrupted one): the code's protocol keeps a complete message complete, the link-then-unlink publication does not
    vlib.design_check(ctx, "mailbox", "MailboxFSSeq", "MailboxFSSeq_temprename.cfg")
    dev2 = vlib.tlc(ctx, "mailbox", "MailboxFSSeq", "MailboxFSSeq_linkunlink.cfg")
    if dev2.violated != "StaysComplete":
        raise vlib.Undecided("MailboxFSSeq_linkunlink.cfg no longer violates StaysComplete")
    dev = vlib.tlc(ctx, "mailbox", "MailboxFS", "MailboxFS_inplace.cfg")
    if dev.violated not in ("FoldersLoad", "DedupSound"):
        raise vlib.Undecided("WriteInPlace configuration no longer violates the recovery invariants")
    traces = ctx.path("traces.ndjson")
    p = vlib.run_harness(ctx, binary, ["mboxfs-c11", "--out", traces, "--tmp", ctx.path("fs", "x")[:-2], "--stride", "3" if quick else "1"],
                         timeout=6000)
    if p.returncode != 0:
        raise vlib.Undecided("mboxfs-c11 failed (strace recording / replay): rc=%d %s" % (p.returncode, p.stderr[-3000:]))
    st = json.loads(p.stdout.strip().splitlines()[-1])
    for op, proto in st["protocols"].items():
        if proto and proto not in KNOWN:      # (an operation that is refused before it touches the file system has no protocol)
            msg = "SPEC-DRIFT: %s issues the file-system calls [%s], a protocol MailboxFS.tla does not describe (not a violation)" % (op, proto)
            print(msg)
            ctx.drift.append({"op": op, "protocol": proto})
    acc, rejected, _ = vlib.validate_traces(ctx, "mailbox", "MailboxFSTrace", "MailboxFSTrace.cfg", traces, st["traces"])
    rows = vlib.read_ndjson(traces)
    for (t, l) in rejected:
        ev = rows[t - 1]["ev"][0]
        bad = [k for k in ("foldersLoad", "oldIntact", "outXorSent", "rejectedImpliesComplete") if not ev[k]] + (["panic"] if ev["panic"] else [])
        key = "C11/%s/%s" % (ev["call"], "+".join(bad))
        vlib.report_violation(ctx, key, "after a crash of %s (%s) recovery fails: %s %s" % (
            ev["call"], ev["point"], bad, {k: ev[k] for k in ("listerr", "damaged", "outsent", "rejected") if k in ev}), {"event": ev})
    vlib.write_evidence(ctx, "fault_enumeration", {
        "traces_validated_against_impl": acc,
        "evaluations": st["states"],
        "distinct_nontrivial": st["states"],
        "rule": "one evaluation = one crash state (operation x pre-state x message size x kill point or torn-write length) on which the real "
                "recovery code ran; all are distinct and non-trivial (an operation was in flight); quick: torn lengths with stride 3",
        "samples": [rows[0]["ev"][0], rows[len(rows) // 2]["ev"][0]],
        "exhaustive": not quick,
        "stats": st, "protocols": {op: KNOWN.get(pr, "unknown") for op, pr in st["protocols"].items()},
    }, ["TLC", "strace recording of the child's file-system calls; crash states are materialised from the record (checked: replaying the "
        "full record reproduces the real result)", "a crash is a process kill, not a power cut: no fsync / reordering model"])
