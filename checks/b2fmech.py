"""Projection of recorded B2F session traces (C01 / C02) onto the events of spec/b2f/B2FTrace.tla (mechanism trace
validation of B2F.tla).  Messages are renamed a1, a2, ... / b1, b2, ... in the order in which each station first proposed
them (the model's proposal order Rank), unproposed ones after them."""
import vlib

MAXMSG = 16


def project(rows):
    out, skipped = [], 0
    for row in rows:
        evs = row["ev"]
        queued = {"A": [], "B": []}
        pol = {}
        first_prop = {"A": [], "B": []}
        for e in evs:
            if e["op"] == "Queue":
                queued[e["s"]].append(e["m"])
                pol[e["m"]] = e["policy"]
            if e["op"] == "Unit" and e.get("kind") == "Prop" and e["mid"] not in first_prop[e["s"]]:
                first_prop[e["s"]].append(e["mid"])
        if any(p not in ("+", "-", "=", "dedup") for p in pol.values()):
            skipped += 1            # defer-once handlers are not constant policies: outside B2F.tla's handler model
            continue
        if any(len(set(q)) != len(q) for q in queued.values()) or any(len(q) > MAXMSG for q in queued.values()):
            skipped += 1
            continue
        name = {}
        ok = True
        for s, pre in (("A", "a"), ("B", "b")):
            order = [m for m in first_prop[s] if m in queued[s]] + [m for m in queued[s] if m not in first_prop[s]]
            if any(m not in queued[s] for m in first_prop[s]):
                ok = False          # a proposal for something that was never queued: the monitor's business, not this projection's
            for i, m in enumerate(order):
                name[(s, m)] = "%s%d" % (pre, i + 1)
        if not ok:
            skipped += 1
            continue
        peer = {"A": "B", "B": "A"}
        nm = lambda s, m: name.get((s, m)) or name.get((peer[s], m))
        mev = []
        block = {"A": [], "B": []}      # proposals of the open block
        last_block = {"A": [], "B": []}
        accepted = {"A": [], "B": []}   # accepted proposals still to be framed by the station
        bad = False
        for ei, e in enumerate(evs):
            op = e["op"]
            if op == "Session":
                mev.append({"op": "Session", "master": e["master"]})
                block = {"A": [], "B": []}
                accepted = {"A": [], "B": []}
            elif op == "Unit":
                s, k = e["s"], e["kind"]
                if k == "Prop":
                    if not block[s]:
                        # the station has decided on a block when it writes the first proposal line (the peer's confirmation
                        # peek sees that line's first byte): the Block event stands here, with the proposals that follow
                        ahead, complete = [], False
                        for f in evs[ei:]:
                            if f["op"] == "Session":
                                break
                            if f["op"] == "Unit" and f["s"] == s and f["kind"] == "Prop":
                                ahead.append(f["mid"])
                            if f["op"] == "Unit" and f["s"] == s and f["kind"] == "EndBlock":
                                complete = True
                                break
                        ms = [name.get((s, m)) for m in ahead]
                        if None in ms or len(set(ms)) != len(ms):
                            bad = True
                            break
                        mev.append({"op": "Block", "s": s, "ms": ms, "complete": complete})
                    block[s].append(e["mid"])
                elif k == "EndBlock":
                    last_block[s], block[s] = block[s], []
                elif k == "Fs":
                    p = peer[s]
                    if len(e["answers"]) != len(last_block[p]):
                        bad = True
                        break
                    mev.append({"op": "FS", "s": s, "a": e["answers"]})
                    accepted[p] = [m for m, a in zip(last_block[p], e["answers"]) if a == "+"]
                elif k == "Frame":
                    if not accepted[s]:
                        bad = True
                        break
                    mev.append({"op": "Frame", "s": s, "m": name[(s, accepted[s].pop(0))]})
                elif k in ("FF", "FQ"):
                    mev.append({"op": k, "s": s})
                elif k == "Err":
                    mev.append({"op": "Err", "s": s})
                elif k == "Bad":
                    bad = True
                    break
            elif op == "SetDeferred":
                mev.append({"op": "Def", "s": e["s"], "m": nm(e["s"], e["m"])})
            elif op == "SetSent":
                mev.append({"op": "Rej" if e["rej"] else "Sent", "s": e["s"], "m": nm(e["s"], e["m"])})
            elif op == "Store":
                mev.append({"op": "Store", "s": e["s"], "m": nm(e["s"], e["m"]), "err": bool(e["err"])})
            elif op == "Return":
                mev.append({"op": "Ret", "s": e["s"], "res": e["res"]})
            elif op == "Cut":
                mev.append({"op": "Cut"})
        if bad or not mev or mev[0]["op"] != "Session" or any(x.get("m", "") is None for x in mev):
            skipped += 1
            continue
        polmap = {}
        for (s, m), n in name.items():
            p = pol.get(m, "+")
            polmap[n] = "+" if p == "dedup" else p
        out.append({"t": len(out) + 1, "src": row.get("t"), "ev": mev, "qa": [name[("A", m)] for m in queued["A"]],
                    "qb": [name[("B", m)] for m in queued["B"]], "pol": polmap})
    return out, skipped


def validate(ctx, rows, name="mech", limit=None):
    """Returns (accepted, total, skipped, drift lines)."""
    proj, skipped = project(rows)
    if limit and len(proj) > limit:
        step = len(proj) / float(limit)
        proj = [proj[int(i * step)] for i in range(limit)]
        for i, r in enumerate(proj):
            r["t"] = i + 1
    if not proj:
        return 0, 0, skipped, []
    f = ctx.path(name + ".ndjson")
    vlib.write_ndjson(f, proj)
    acc, rej, _ = vlib.validate_traces(ctx, "b2f", "B2FTrace", "B2FTrace.cfg", f, len(proj), name=name)
    drift = []
    for (t, l) in rej:
        r = proj[t - 1]
        e = r["ev"][l - 1] if 0 < l <= len(r["ev"]) else {}
        drift.append("B2F.tla cannot follow recorded session trace %s at event %d %s (previous: %s)" % (r.get("src"), l, e, r["ev"][max(0, l - 4):l - 1]))
    return acc, len(proj), skipped, drift
