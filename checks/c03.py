"""C03 — no byte sequence from the remote can crash, hang or exhaust a session.

B2FRobust.tla is the hostile-input automaton: protocol phase x token class -> permitted outcomes (Continue / ReturnNil /
ReturnErr only).  TLC enumerates all class paths to a depth bound; a covering subset (every (role, pending, path prefix
phase, malformed class) at least once) plus a seeded sample is concretised into byte transcripts; conforming transcripts
recorded from scripted-peer sessions are mutated at the byte level (truncate, delete, insert, substitute, numeric boundary
values, short lines, duplication).  Every transcript is fed to a real Session in an isolated child process with a watchdog
and allocation accounting; TLC validates the outcomes against the automaton (B2FRobustTrace.tla).
"""
import json
import os
import random
import re

import vlib

SPECDIR = "b2f"


def bad_tokens():
    txt = open(os.path.join(vlib.SPEC, SPECDIR, "B2FRobust.tla")).read()
    blk = txt[txt.index("BadTokens =="):txt.index("VARIABLES role")]
    return set(re.findall(r'"([A-Za-z0-9]+)"', blk)) - {"Hs", "Cmd", "FsWait", "Xfer", "Done"}


BAD = bad_tokens()


def run(ctx):
    binary = vlib.build_harness(ctx)
    quick = ctx.tier == "quick"
    rng = random.Random(ctx.seed)
    import hashlib
    cfgname = "B2FRobust_plan_quick.cfg" if quick else "B2FRobust_plan_thorough.cfg"
    h = hashlib.sha1()
    for fn in ("B2FRobust.tla", cfgname):
        h.update(open(os.path.join(vlib.SPEC, SPECDIR, fn), "rb").read())
    cache = os.path.join(vlib.VERIF, ".cache", "c03-plan-%s.json" % h.hexdigest()[:16])
    plan_states = None
    if os.path.exists(cache):
        # the plan is a deterministic function of the specification: reuse the enumeration TLC produced for these files
        c = json.load(open(cache))
        plans, plan_states = c["plans"], c["states"]
        ctx.states += plan_states["distinct"]
        ctx.transitions += plan_states["generated"]
        ctx.tlc_runs.append({"module": "B2FRobust", "cfg": cfgname, "cached": True, **plan_states})
    else:
        r = vlib.tlc(ctx, SPECDIR, "B2FRobust", cfgname, timeout=1500 if quick else 6000)
        if not r.ok:
            raise vlib.Undecided("plan enumeration failed: %s" % r.error)
        plans = []
        for line in r.out.splitlines():
            if line.startswith('"{') and '\\"plan\\"' in line:
                plans.append(json.loads(json.loads(line)))
        os.makedirs(os.path.dirname(cache), exist_ok=True)
        json.dump({"plans": plans, "states": {"distinct": r.distinct, "generated": r.generated}}, open(cache, "w"))
    if len(plans) < 1000:
        raise vlib.Undecided("plan enumeration produced only %d paths" % len(plans))
    # covering subset: first occurrence of every (role, pend, context, last non-EOF token)
    rng.shuffle(plans)
    chosen, seen, floods = [], set(), set()
    for p in plans:
        toks = [t for t in p["path"] if t != "EOF"]
        if not toks:
            continue
        # context of a path: the malformed tokens it contains with the token that follows each, and how it ends
        ctxt = []
        for i, t in enumerate(toks):
            if t in BAD:
                ctxt.append((t, toks[i + 1] if i + 1 < len(toks) else "EOF", toks[i + 2] if i + 2 < len(toks) else "EOF"))
        keys = {(p["role"], p["pend"], "end", tuple(toks[-2:]))} | {(p["role"], p["pend"], "bad", c) for c in ctxt}
        if "BlankFlood" in toks:
            # six megabytes each: a handful is enough (role x pending x phase of the flood)
            fk = (p["role"], p["pend"], toks.index("BlankFlood") > 2)
            if fk in floods:
                continue
            floods.add(fk)
        if not keys <= seen:
            seen |= keys
            chosen.append(p)
    budget = 5000 if quick else 60000
    extra = [p for p in plans if p not in chosen[:0]][:max(0, budget - len(chosen))]
    chosen += extra
    plan_file = ctx.path("plans.ndjson")
    vlib.write_ndjson(plan_file, chosen)
    traces = ctx.path("traces.ndjson")
    p = vlib.run_harness(ctx, binary, ["b2f-c03", "--plans", plan_file, "--work", ctx.path("shards", "x")[:-2], "--out", traces,
                                       "--mutants", "3000" if quick else "100000", "--shards", str(vlib.NCPU)], timeout=6000)
    if p.returncode != 0:
        raise vlib.Undecided("b2f-c03 harness failed: rc=%d %s" % (p.returncode, p.stderr[-3000:]))
    st = json.loads(p.stdout.strip().splitlines()[-1])
    if st["missing"]:
        raise vlib.Undecided("%d transcripts have no outcome" % st["missing"])
    acc, rejected, _ = vlib.validate_traces(ctx, SPECDIR, "B2FRobustTrace", "B2FRobustTrace.cfg", traces, st["traces"])
    rows = vlib.read_ndjson(traces)
    for (t, l) in rejected:
        ev = rows[t - 1]["ev"][0]
        site = ev.get("site") or ""
        site = re.sub(r"\.func\d+.*$", "", site)
        if ev["outcome"] in ("panic", "exit"):
            key = "C03/%s/%s" % (ev["outcome"], site or "?")
        elif ev["outcome"] == "allocbomb":
            deep = [t for t in ev["desc"].split() if t.startswith(("Msg", "Payload", "Gzip", "Long"))]
            key = "C03/allocbomb/" + (deep[0] if deep else ev["desc"].split()[0])
        else:
            key = "C03/%s/%s" % (ev["outcome"], ev["desc"].split()[-2] if ev["kind"] == "plan" and len(ev["desc"].split()) > 1 else ev["desc"])
        what = "remote transcript [%s] (station is %s, outbound pending=%s): outcome %s %s" % (
            ev["desc"], ev["role"], ev["pend"], ev["outcome"], (ev.get("panic") or "")[:300])
        vlib.report_violation(ctx, key, what, {"event": ev})
    classes = set()
    for row in rows:
        ev = row["ev"][0]
        classes.add((ev["role"], ev["pend"], ev["desc"]))
    vlib.write_evidence(ctx, "exploration", {
        "traces_validated_against_impl": acc,
        "evaluations": st["traces"],
        "distinct_nontrivial": len(seen) + st["mutants"],
        "rule": "one evaluation = one hostile transcript fed to a real Session in a child process; distinct_nontrivial = distinct "
                "(role, outbound pending, last two token classes) contexts covered by the model-generated paths + byte-level mutants of "
                "conforming transcripts; TLC enumerated %d class paths, %d were run" % (len(plans), len(chosen)),
        "samples": [rows[0]["ev"][0], rows[len(rows) // 2]["ev"][0], rows[-1]["ev"][0]],
        "exhaustive": False,
        "stats": st,
        "plan_paths_enumerated": len(plans),
    }, ["TLC", "token classes are concretised by harness/internal/b2f/robust.go", "watchdog 5 s after the input is delivered",
        "allocation threshold 32 MiB + 4096 x bytes received (runtime.MemStats.TotalAlloc delta)", "the scripted peer for conforming bases"])
