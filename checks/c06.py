"""C06 — LZHUF compression is lossless for every input and every chunking.

Design: Lzhuf.tla in a scaled configuration — for every input up to the bound and every coding the nondeterministic
encoder may choose, the decoder returns the input (TLC, exhaustive, incl. window wrap and tree rebuild).  Binding: the real
Writer/Reader on exhaustive short strings over {a,b,space}, runs, periodic and window-boundary shapes, random / text /
skewed data, a 70 000-symbol input (tree rebuild), all write compositions of short inputs and 59/60/61 pre-fill splits,
read schedules incl. 1-byte reads, with and without CRC header; every call is an event validated against LzhufStream.tla.
"""
import json

import vlib
import lzcommon as lz


def run(ctx):
    binary = vlib.build_harness(ctx)
    lz.scaled_design(ctx)
    traces = ctx.path("traces.ndjson")
    p = vlib.run_harness(ctx, binary, ["lzh-run", "--out", traces, "--jobs", ctx.path("jobs.ndjson"), "--inputs", ctx.path("in.ndjson"),
                                       "--budget", "0", "--tier", ctx.tier], timeout=3000)
    if p.returncode != 0:
        raise vlib.Undecided("lzh-run failed: rc=%d %s" % (p.returncode, p.stderr[-3000:]))
    st = json.loads(p.stdout.strip().splitlines()[-1])
    acc, rejected, _ = vlib.validate_traces(ctx, lz.SPECDIR, "LzhufStreamTrace", "LzhufStreamTrace.cfg", traces, st["traces"], timeout=3000)
    rows = vlib.read_ndjson(traces) if rejected else None
    sample = None
    for (t, l) in rejected:
        key, what, ev, meta = lz.describe(rows, t, l, "C06")
        vlib.report_violation(ctx, key, what, {"meta": meta, "event": ev, "events_before": rows[t - 1]["ev"][max(0, l - 5):l]})
    with open(traces) as f:
        first = json.loads(f.readline())
    vlib.write_evidence(ctx, "model_checking", {
        "traces_validated_against_impl": acc,
        "evaluations": st["executions"],
        "distinct_nontrivial": st["inputs"] - 1,
        "rule": "one evaluation = one (input, write partition, CRC mode, read schedule) round trip through the real Writer and Reader; "
                "distinct_nontrivial = distinct non-empty inputs (exhaustive short strings over {a,b,space} + generated families)",
        "samples": [{"meta": {k: v for k, v in first.items() if k != "ev"}, "events": first["ev"][:6]}],
        "exhaustive": False,
        "stats": st,
    }, ["TLC", "byte comparison in the harness (match flag of Read events)"])
