"""C08 — the decompressor is safe on arbitrary input and its integrity verdict is sound.

Valid streams are truncated at every length, bit-flipped, header-edited (sizes -1, 0, true+-1, +60, 2^31-1, -2^31, with
and without repaired CRC; CRC edits) and spliced; random bytes with plausible headers; read with buffer sizes
{1,2,59,60,61,4096}.  Every NewReader/Read/Close is an event validated against LzhufStream.tla (no panic, no spinning,
sticky errors, never more than the declared size, Close = nil only with CRC and size matching).  For survivors
(Close = nil) the reference codec Lzhuf.tla (TLC) computes the canonical decoding and it must equal the bytes read.
"""
import json

import vlib
import lzcommon as lz


def run(ctx):
    binary = vlib.build_harness(ctx)
    quick = ctx.tier == "quick"
    traces = ctx.path("traces.ndjson")
    jobs = ctx.path("jobs.ndjson")
    p = vlib.run_harness(ctx, binary, ["lzh-hostile", "--out", traces, "--jobs", jobs, "--stride", "5" if quick else "1",
                                       "--random", "3000" if quick else "100000", "--survivors", "600" if quick else "20000"], timeout=6000)
    if p.returncode != 0:
        raise vlib.Undecided("lzh-hostile failed (a crash of the harness process is attributed to the Reader): rc=%d %s" % (p.returncode, p.stderr[-3000:]))
    st = json.loads(p.stdout.strip().splitlines()[-1])
    canon = {}
    if st["jobs"]:
        res, _ = lz.run_batch(ctx, jobs, "survivors", timeout=6000)
        canon = {r["result"]: r["equal"] for r in res}
        if len(canon) != st["jobs"]:
            raise vlib.Undecided("reference codec answered %d of %d survivor jobs" % (len(canon), st["jobs"]))
    # merge the reference codec's judgement into the Close events
    rows = vlib.read_ndjson(traces)
    bad = 0
    for row in rows:
        j = row.get("canonJob")
        if j is not None and not canon.get(j, True):
            row["ev"][-1]["canonOK"] = False
            bad += 1
    vlib.write_ndjson(traces, rows)
    acc, rejected, _ = vlib.validate_traces(ctx, lz.SPECDIR, "LzhufStreamTrace", "LzhufStreamTrace.cfg", traces, st["traces"], timeout=3000)
    for (t, l) in rejected:
        key, what, ev, meta = lz.describe(rows, t, l, "C08")
        vlib.report_violation(ctx, key, what, {"meta": meta, "event": ev, "events_before": rows[t - 1]["ev"][max(0, l - 4):l]})
    # unusual but well-formed streams: parses with matches reaching into the initial window (spaces and the zero-initialised
    # lookahead area) coded by the reference codec; Close = nil must mean the canonical decoding was returned
    jobs2 = ctx.path("jobs2.ndjson")
    p = vlib.run_harness(ctx, binary, ["lzh-run", "--out", ctx.path("unused.ndjson"), "--jobs", jobs2, "--inputs", ctx.path("in2.ndjson"),
                                       "--budget", "40000", "--tier", "quick"], timeout=3000)
    if p.returncode != 0:
        raise vlib.Undecided("lzh-run failed: rc=%d %s" % (p.returncode, p.stderr[-2000:]))
    sel = [j for j in vlib.read_ndjson(jobs2) if j["kind"] == "enc" and j["name"].split("/")[0].startswith(("run-nul", "run-sp", "zero60", "period-1"))
           and j["name"].split("/")[-1] in ("farthest", "random", "nearest")]
    unusual = 0
    if sel:
        vlib.write_ndjson(jobs2, sel)
        res2, _ = lz.run_batch(ctx, jobs2, "unusual", timeout=3000)
        rf = ctx.path("res2.ndjson")
        vlib.write_ndjson(rf, res2)
        t2 = ctx.path("traces2.ndjson")
        p = vlib.run_harness(ctx, binary, ["lzh-judge", "--results", rf, "--jobs", jobs2, "--out", t2], timeout=3000)
        if p.returncode != 0:
            raise vlib.Undecided("lzh-judge failed: rc=%d %s" % (p.returncode, p.stderr[-2000:]))
        js = json.loads(p.stdout.strip().splitlines()[-1])
        unusual = js["encoded"]
        acc2, rej2, _ = vlib.validate_traces(ctx, lz.SPECDIR, "LzhufStreamTrace", "LzhufStreamTrace.cfg", t2, js["traces"], name="tv-unusual")
        acc += acc2
        rows2 = vlib.read_ndjson(t2)
        for (t, l) in rej2:
            key, what, ev, meta = lz.describe(rows2, t, l, "C08")
            vlib.report_violation(ctx, key + "/well-formed-unusual", what, {"meta": meta, "event": ev})
    vlib.write_evidence(ctx, "exploration", {
        "traces_validated_against_impl": acc,
        "evaluations": st["cases"],
        "distinct_nontrivial": st["cases"],
        "rule": "one evaluation = one byte string read to the end through the real Reader; every case is a distinct mutation "
                "(truncation length / flipped bit / header edit / splice / random bytes) and non-trivial (a Reader is constructed and "
                "read); survivors = cases where Close returned nil, %d of them judged by the reference codec" % st["jobs"],
        "samples": [{k: v for k, v in rows[0].items()}, {k: v for k, v in rows[len(rows) // 2].items() if k != "ev"}],
        "exhaustive": False,
        "stats": st, "survivors_not_canonical": bad, "unusual_wellformed_streams": unusual,
    }, ["TLC as evaluator of Lzhuf.tla for the survivors", "bitwise CRC-16/XMODEM", "read budget declared size + 8 x input length + 64 calls"])
