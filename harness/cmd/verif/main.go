// Command verif is the Go conformance harness: one subcommand per specification family.
package main

import (
	"fmt"
	"os"

	"verifharness/internal/agwpeh"
	"verifharness/internal/ardoph"
	"verifharness/internal/b2f"
	"verifharness/internal/lzh"
	"verifharness/internal/mbox"
	"verifharness/internal/mboxfs"
	"verifharness/internal/msgh"
	"verifharness/internal/posrep"
	"verifharness/internal/telneth"
	"verifharness/internal/urlh"
)

var cmds = map[string]func([]string) int{
	"mbox":           mbox.Main,
	"agwpe":          agwpeh.Main,
	"ardop":          ardoph.Main,
	"mboxfs-c12":     mboxfs.MainConfine,
	"mboxfs-c11":     mboxfs.MainCrash,
	"lzh-run":        lzh.MainRun,
	"lzh-judge":      lzh.MainJudge,
	"lzh-hostile":    lzh.MainHostile,
	"body":           msgh.MainBody,
	"msg":            msgh.MainMsg,
	"b2f-c01":        b2f.MainC01,
	"b2f-c02":        b2f.MainC02,
	"b2f-c04":        b2f.MainC04,
	"b2f-c05":        b2f.MainC05,
	"b2f-c16":        b2f.MainC16,
	"b2f-c17":        b2f.MainC17,
	"b2f-c03":        b2f.MainC03,
	"b2f-robustmode": b2f.MainRobustMode,
	"b2f-c03-child":  b2f.MainC03Child,
	"posrep":         posrep.Main,
	"telnet":         telneth.Main,
	"url":            urlh.Main,
}

func main() {
	if len(os.Args) < 2 {
		fmt.Fprintln(os.Stderr, "usage: verif <subcommand> [flags]")
		os.Exit(2)
	}
	fn, ok := cmds[os.Args[1]]
	if !ok {
		fmt.Fprintln(os.Stderr, "unknown subcommand", os.Args[1])
		os.Exit(2)
	}
	os.Exit(fn(os.Args[2:]))
}
