// Package mboxfs exercises the directory mailbox against the file system: confinement (C12) and crash points (C11).
package mboxfs

import (
	"bytes"
	"crypto/sha1"
	"encoding/json"
	"flag"
	"fmt"
	"io/fs"
	"math/rand"
	"os"
	"os/exec"
	"path/filepath"
	"sort"
	"strings"
	"syscall"
	"time"

	"github.com/la5nta/wl2k-go/fbb"
	"github.com/la5nta/wl2k-go/mailbox"

	"verifharness/internal/rec"
)

type midPlan struct {
	Mid      []string `json:"mid"`
	Confined bool     `json:"confined"`
}

// "m" is a name that has the mailbox directory's own name as a prefix (a neighbouring mailbox), "b" the mailbox directory's own name
var segText = map[string]string{"n": "NAME1", "m": "mbox-1", "b": "mbox", "..": "..", ".": ".", "": ""}

type snapEntry struct {
	Size  int64
	Mtime int64
	Ino   uint64
	Hash  string
	Dir   bool
}

func snapshot(root string) map[string]snapEntry {
	out := map[string]snapEntry{}
	filepath.WalkDir(root, func(p string, d fs.DirEntry, err error) error {
		if err != nil {
			return nil
		}
		info, err := d.Info()
		if err != nil {
			return nil
		}
		e := snapEntry{Size: info.Size(), Mtime: info.ModTime().UnixNano(), Dir: d.IsDir()}
		if st, ok := info.Sys().(*syscall.Stat_t); ok {
			e.Ino = st.Ino
		}
		if !d.IsDir() {
			if b, err := os.ReadFile(p); err == nil {
				e.Hash = fmt.Sprintf("%x", sha1.Sum(b))
			}
		} else {
			e.Size = 0 // a directory's time changes when an entry is added or removed, even if it is gone again afterwards
		}
		rel, _ := filepath.Rel(root, p)
		out[rel] = e
		return nil
	})
	return out
}

func diffOutside(before, after map[string]snapEntry, mboxRel string) []string {
	var ch []string
	inside := func(p string) bool { return p == mboxRel || strings.HasPrefix(p, mboxRel+string(filepath.Separator)) }
	for p, a := range after {
		if inside(p) {
			continue
		}
		b, ok := before[p]
		if !ok {
			ch = append(ch, "created:"+p)
		} else if b != a {
			ch = append(ch, "modified:"+p)
		}
	}
	for p := range before {
		if inside(p) {
			continue
		}
		if _, ok := after[p]; !ok {
			ch = append(ch, "removed:"+p)
		}
	}
	sort.Strings(ch)
	return ch
}

const nest = "l1/l2/l3/l4/l5/l6/l7"

// folderNest: a mailbox configured below directories that are named like the mailbox's own folders
const folderNest = "out/in/sent/archive/out/l6/l7"

// setupFolderSandbox creates sandbox/<folderNest>/mbox with the message mid queued in its outbox, and next to it every
// tree that differs from the mailbox's path in one component being another folder name (with the four folders in it):
// where a path computed by editing folder names in the whole path, instead of below the mailbox, would land.
func setupFolderSandbox(base string, mid string) (sandbox, mbox string) {
	sandbox, _ = os.MkdirTemp(base, "sb")
	folders := []string{"in", "out", "sent", "archive"}
	comps := strings.Split(folderNest, "/")
	mk := func(root string) {
		for _, d := range folders {
			os.MkdirAll(filepath.Join(root, d), 0755)
		}
	}
	mbox = filepath.Join(sandbox, folderNest, "mbox")
	mk(mbox)
	for i, c := range comps {
		for _, f := range folders {
			if f == c {
				continue
			}
			alt := append([]string{}, comps...)
			alt[i] = f
			mk(filepath.Join(append(append([]string{sandbox}, alt...), "mbox")...))
		}
	}
	m := fbb.NewMessage(fbb.Private, "LA1AAA")
	m.Header.Set("Mid", mid)
	m.AddTo("LA2BBB")
	m.SetSubject("queued")
	m.SetBody("a queued message\r\n")
	b, _ := m.Bytes()
	os.WriteFile(filepath.Join(mbox, "out", mid+".b2f"), b, 0644)
	os.WriteFile(filepath.Join(mbox, "in", mid+".b2f"), b, 0644)
	return
}

// setupSandbox creates sandbox/<nest>/mbox with the four folders and bait files where a lexical join of folder and
// MID.b2f would land outside the mailbox.
func setupSandbox(base string, mid string) (sandbox, mbox string) {
	sandbox, _ = os.MkdirTemp(base, "sb")
	mbox = filepath.Join(sandbox, nest, "mbox")
	for _, d := range []string{"in", "out", "sent", "archive"} {
		os.MkdirAll(filepath.Join(mbox, d), 0755)
	}
	// a neighbouring mailbox whose name starts with this mailbox's name
	for _, d := range []string{"in", "out", "sent", "archive"} {
		os.MkdirAll(filepath.Join(sandbox, nest, "mbox-1", d), 0755)
	}
	os.WriteFile(filepath.Join(sandbox, nest, "mbox-1", "in", "THEIRS.b2f"), validBait(), 0644)
	// an unrelated file next to the mailbox and one in each ancestor
	p := filepath.Join(sandbox, nest)
	for p != filepath.Dir(sandbox) && len(p) >= len(sandbox) {
		os.WriteFile(filepath.Join(p, "neighbour.txt"), []byte("do not touch"), 0644)
		p = filepath.Dir(p)
	}
	for _, folder := range []string{"in", "out", "sent"} {
		target := filepath.Clean(filepath.Join(mbox, folder, mid+".b2f"))
		if !strings.HasPrefix(target, mbox+string(filepath.Separator)) && strings.HasPrefix(target, sandbox+string(filepath.Separator)) && !strings.ContainsRune(mid, 0) {
			if folder == "sent" {
				continue // the destination of a rename: leave it absent so that a rename would create it
			}
			os.MkdirAll(filepath.Dir(target), 0755)
			if _, err := os.Stat(target); err != nil {
				os.WriteFile(target, validBait(), 0644)
			}
		}
	}
	return
}

func validBait() []byte {
	m := fbb.NewMessage(fbb.Private, "LA5NTA")
	m.Header.Set("Mid", "BAIT")
	m.AddTo("LA1B")
	m.SetSubject("bait")
	m.SetBody("bait file outside the mailbox\r\n")
	b, _ := m.Bytes()
	return b
}

// hostile header content of a received message, besides the Mid; {SANDBOX} is replaced by the sandbox root
type hdrT [][2]string

func doOp(op, mbox, mid string, hdrs hdrT) (errText string) {
	defer func() {
		if p := recover(); p != nil {
			errText = fmt.Sprint("panic: ", p)
		}
	}()
	h := mailbox.NewDirHandler(mbox, false)
	if op != "ProcessInboundNoPrepare" { // (the folders exist: a handler on an existing mailbox, used without Prepare)
		if err := h.Prepare(); err != nil {
			return err.Error()
		}
	}
	switch op {
	case "ProcessInbound", "ProcessInboundNoPrepare", "ProcessInboundBatch":
		m := fbb.NewMessage(fbb.Private, "LA2BBB")
		m.Header.Set("Mid", mid)
		m.AddTo("LA1AAA")
		m.SetSubject("hostile mid")
		m.SetBody("content from a remote station\r\n")
		for _, kv := range hdrs {
			m.Header.Set(kv[0], kv[1])
		}
		// what the session hands to the mailbox is a message parsed from received bytes
		if raw, err := m.Bytes(); err == nil {
			pm := new(fbb.Message)
			if err := pm.ReadFrom(bytes.NewReader(raw)); err == nil {
				m = pm
			}
		}
		batch := []*fbb.Message{m}
		if op == "ProcessInboundBatch" {
			// several messages handed over in one call: the hostile one first, an ordinary one last
			g := fbb.NewMessage(fbb.Private, "LA2BBB")
			g.Header.Set("Mid", "GOODBATCH001")
			g.AddTo("LA1AAA")
			g.SetSubject("ordinary")
			g.SetBody("ordinary message in the same batch\r\n")
			batch = append(batch, g)
		}
		if err := h.ProcessInbound(batch...); err != nil {
			return err.Error()
		}
	case "GetInboundAnswer":
		p := fbb.NewProposal(mid, "t", fbb.Wl2kProposal, []byte("x"))
		_ = h.GetInboundAnswer(*p)
	case "SetDeferred":
		h.SetDeferred(mid)
	case "SetSent":
		h.SetSent(mid, false) // may log.Fatalf: always run in a child process
	case "SetSentRejected":
		h.SetSent(mid, true)
	}
	return ""
}

// MainConfine is the "mboxfs-c12" subcommand.
func MainConfine(args []string) int {
	fl := flag.NewFlagSet("mboxfs-c12", flag.ExitOnError)
	plans := fl.String("plans", "", "MID plan from TLC")
	out := fl.String("out", "", "trace ndjson")
	tmp := fl.String("tmp", os.TempDir(), "scratch")
	extra := fl.Int("extra", 200, "seeded extra MIDs")
	child := fl.String("child", "", "internal: run one op")
	cmbox := fl.String("mbox", "", "internal")
	cmid := fl.String("mid", "", "internal")
	fl.Parse(args)
	if *child != "" {
		doOp(*child, *cmbox, *cmid, nil)
		return 0
	}
	os.MkdirAll(*tmp, 0755)
	rng := rand.New(rand.NewSource(rec.Seed()))
	type caseT struct {
		mid      string
		confined bool
		src      string
		hdrs     hdrT
	}
	var cases []caseT
	err := rec.ReadNDJSON(*plans, func(line []byte) error {
		var p midPlan
		if err := json.Unmarshal(line, &p); err != nil {
			return err
		}
		segs := make([]string, len(p.Mid))
		for i, s := range p.Mid {
			segs[i] = segText[s]
		}
		cases = append(cases, caseT{strings.Join(segs, "/"), p.Confined, "plan", nil})
		return nil
	})
	if err != nil {
		fmt.Fprintln(os.Stderr, err)
		return 2
	}
	specials := []string{"/abs/path", "/etc/passwd", "//double", "a\x00b", "\x00", strings.Repeat("L", 300), strings.Repeat("../", 5) + "deep",
		"blåbær/../../ø", "..", ".", "", " ", "a b", "..\\..\\win", "x/../../../l1/evil", "../sent/moved", "../../mbox/in/self", "NAME1/", "/",
		"../neighbour.txt\x00", "..%2f..%2fx", "../../mbox", "../../mboxx", "../../mbox-1/in/EVIL", "../../mbox-1/in/THEIRS", "../../mbox.b2f/x", "../../mbox-1/out/Q", strings.Repeat("日", 13) + "/../../../NAME1", strings.Repeat("Æ", 14) + "/../../../EVIL", strings.Repeat("ø", 40) + "/../../x",
		"日/../../NAME1", "ÆØÅ/../../../NAME1", "~/.ssh/key", "con/../..", "a/./../../b"}
	for _, s := range specials {
		cases = append(cases, caseT{s, false, "special", nil})
	}
	// very long identifiers (file name limits), identifiers hidden in RFC 2047 encoded words, and other header content a
	// remote station controls: the mailbox's private headers
	for _, n := range []int{200, 240, 246, 247, 248, 249, 250, 251, 252, 253, 255, 256, 300, 1000, 5000} {
		cases = append(cases, caseT{strings.Repeat("L", n), true, "long", nil})
	}
	for _, s := range []string{"=?utf-8?q?=2E=2E=2F=2E=2E=2Fdropped?=", "=?utf-8?b?Li4vLi4vZHJvcHBlZA==?=", "=?ISO-8859-1?q?=2E=2E=2F=2E=2E=2F=2E=2E=2Fx?=",
		"=?utf-8?q?=2Fabs=2Fpath?=", "=?utf-8?q?ordinary?="} {
		cases = append(cases, caseT{s, true, "encoded-word", nil})
	}
	for _, h := range []hdrT{
		{{"X-FilePath", "{SANDBOX}/l1/by-header.b2f"}},
		{{"X-FilePath", "{SANDBOX}/l1/l2/l3/l4/l5/l6/l7/neighbour.txt"}},
		{{"X-FilePath", "../../../by-relative-header.b2f"}},
		{{"X-FilePath", "{SANDBOX}/l1/by-header.b2f"}, {"X-Unread", "false"}, {"X-P2POnly", "true"}},
		{{"X-Unread", "{SANDBOX}/l1/x"}, {"X-Origin", "../../x"}, {"File", "12 ../../../att.bin"}},
	} {
		cases = append(cases, caseT{"HDRCASE00001", true, "header", h})
	}
	// ordinary identifiers of messages that are in the mailbox, the mailbox lying below directories named like its folders
	for _, s := range []string{"ORDINARY0001", "out", "sent"} {
		cases = append(cases, caseT{s, true, "folder-named-ancestors", nil})
	}
	for i := 0; i < *extra; i++ {
		n := 1 + rng.Intn(5)
		segs := make([]string, n)
		for j := range segs {
			segs[j] = []string{"..", "..", ".", "", "x", "NAME1", "l6", "l7", "mbox", "in", "out", "mbox-1", "mbox2"}[rng.Intn(13)]
		}
		cases = append(cases, caseT{strings.Join(segs, "/"), false, "seeded", nil})
	}
	self, _ := os.Executable()
	w, err := rec.NewWriter(*out)
	if err != nil {
		fmt.Fprintln(os.Stderr, err)
		return 2
	}
	defer w.Close()
	ops := []string{"ProcessInbound", "GetInboundAnswer", "SetDeferred", "SetSent"}
	opsSpecial := []string{"ProcessInbound", "GetInboundAnswer", "SetDeferred", "SetSent", "ProcessInboundNoPrepare", "ProcessInboundBatch", "SetSentRejected"}
	nEsc := 0
	for ci, c := range cases {
		if !c.confined {
			nEsc++
		}
		caseOps := ops
		if c.src != "plan" && c.src != "seeded" {
			caseOps = opsSpecial
		}
		for oi, op := range caseOps {
			// plan MIDs that are confined are run with every 3rd op only (they cannot show anything)
			if c.confined && c.src == "plan" && (ci+oi)%3 != 0 {
				continue
			}
			var sandbox, mbox string
			if c.src == "folder-named-ancestors" {
				sandbox, mbox = setupFolderSandbox(*tmp, c.mid)
			} else {
				sandbox, mbox = setupSandbox(*tmp, c.mid)
			}
			mboxRel, _ := filepath.Rel(sandbox, mbox)
			// the system temporary directory is not part of the mailbox either: point it into the watched tree
			os.MkdirAll(filepath.Join(sandbox, "systmp"), 0755)
			os.Setenv("TMPDIR", filepath.Join(sandbox, "systmp"))
			// ... and neither is the process's working directory
			os.MkdirAll(filepath.Join(sandbox, "cwd"), 0755)
			os.Chdir(filepath.Join(sandbox, "cwd"))
			var hdrs hdrT
			for _, kv := range c.hdrs {
				hdrs = append(hdrs, [2]string{kv[0], strings.ReplaceAll(kv[1], "{SANDBOX}", sandbox)})
			}
			before := snapshot(sandbox)
			errText, exit := "", 0
			if op == "SetSent" || op == "SetSentRejected" {
				cmd := exec.Command(self, "mboxfs-c12", "--child", op, "--mbox", mbox, "--mid", c.mid)
				if strings.ContainsRune(c.mid, 0) {
					// a NUL cannot be passed in argv: run in-process guarded (rename fails with EINVAL -> Fatalf would kill us)
					exit = -1
				} else if err := cmd.Run(); err != nil {
					if ee, ok := err.(*exec.ExitError); ok {
						exit = ee.ExitCode()
					}
				}
			} else {
				errText = doOp(op, mbox, c.mid, hdrs)
			}
			time.Sleep(0)
			after := snapshot(sandbox)
			ch := diffOutside(before, after, mboxRel)
			ev := rec.Event{"op": "FsOp", "call": op, "mid": fmt.Sprintf("%q", c.mid), "confined": c.confined, "touchedOutside": len(ch) > 0,
				"changes": ch, "err": errText, "exit": exit, "panic": strings.HasPrefix(errText, "panic:")}
			w.Write(map[string]interface{}{"src": c.src}, []rec.Event{ev})
			os.Chdir(*tmp)
			os.RemoveAll(sandbox)
		}
	}
	fmt.Printf("{\"traces\":%d,\"mids\":%d,\"escaping_mids\":%d}\n", w.Count(), len(cases), nEsc)
	return 0
}
