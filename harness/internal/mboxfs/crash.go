package mboxfs

import (
	"bufio"
	"bytes"
	"encoding/hex"
	"flag"
	"fmt"
	"os"
	"os/exec"
	"path/filepath"
	"regexp"
	"strconv"
	"strings"
	"syscall"
	"time"

	"github.com/la5nta/wl2k-go/fbb"
	"github.com/la5nta/wl2k-go/mailbox"

	"verifharness/internal/rec"
)

// C11: crash points. Step 1 records the file system calls a mutating mailbox operation really issues (strace on a
// child process); steps 2/3 materialise, on a copy of the pre-state, the state "all earlier calls applied" for every
// call index (the process was killed before that call) and "this write applied for k bytes" for every k (torn write);
// the real recovery code then runs on every such directory.

type sysCall struct {
	Name   string
	Path   string // openat / mkdir / unlink
	Path2  string // rename target
	FD     int
	Ret    int
	Data   []byte
	Trunc  bool
	Creat  bool
	Append bool
}

var (
	reLine   = regexp.MustCompile(`^(?:\[pid\s+\d+\]\s+|\d+\s+)?(\w+)\((.*)\)\s+=\s+(-?\d+)`)
	reQuoted = regexp.MustCompile(`"((?:\\x[0-9a-f]{2}|[^"\\]|\\.)*)"`)
)

func unhex(s string) []byte {
	// strace -xx prints every byte as \xNN
	s = strings.ReplaceAll(s, `\x`, "")
	b, err := hex.DecodeString(s)
	if err != nil {
		return []byte(s)
	}
	return b
}

func parseStrace(path string, under string) ([]sysCall, error) {
	f, err := os.Open(path)
	if err != nil {
		return nil, err
	}
	defer f.Close()
	var out []sysCall
	fds := map[int]bool{}
	sc := bufio.NewScanner(f)
	sc.Buffer(make([]byte, 1<<20), 1<<28)
	for sc.Scan() {
		line := sc.Text()
		m := reLine.FindStringSubmatch(line)
		if m == nil {
			continue
		}
		name, args := m[1], m[2]
		ret, _ := strconv.Atoi(m[3])
		qs := reQuoted.FindAllStringSubmatch(args, -1)
		switch name {
		case "openat", "open":
			if len(qs) < 1 || ret < 0 {
				continue
			}
			p := string(unhex(qs[0][1]))
			if !strings.HasPrefix(p, under) {
				continue
			}
			if !strings.Contains(args, "O_WRONLY") && !strings.Contains(args, "O_RDWR") {
				continue // read-only opens do not change the file system
			}
			fds[ret] = true
			out = append(out, sysCall{Name: "open", Path: p, FD: ret, Ret: ret, Trunc: strings.Contains(args, "O_TRUNC"), Creat: strings.Contains(args, "O_CREAT"),
				Append: strings.Contains(args, "O_APPEND")})
		case "write", "pwrite64":
			fd, _ := strconv.Atoi(strings.TrimSpace(strings.SplitN(args, ",", 2)[0]))
			if !fds[fd] || len(qs) < 1 {
				continue
			}
			data := unhex(qs[0][1])
			if ret >= 0 && ret < len(data) {
				data = data[:ret]
			}
			out = append(out, sysCall{Name: "write", FD: fd, Ret: ret, Data: data})
		case "close":
			fd, _ := strconv.Atoi(strings.TrimSpace(args))
			if fds[fd] {
				out = append(out, sysCall{Name: "close", FD: fd})
				delete(fds, fd)
			}
		case "fsync", "fdatasync":
			fd, _ := strconv.Atoi(strings.TrimSpace(args))
			if fds[fd] {
				out = append(out, sysCall{Name: "fsync", FD: fd})
			}
		case "rename", "renameat", "renameat2":
			if len(qs) < 2 || ret != 0 {
				continue
			}
			a, b := string(unhex(qs[0][1])), string(unhex(qs[1][1]))
			if strings.HasPrefix(a, under) || strings.HasPrefix(b, under) {
				out = append(out, sysCall{Name: "rename", Path: a, Path2: b})
			}
		case "link", "linkat", "symlink", "symlinkat":
			if len(qs) < 2 || ret != 0 {
				continue
			}
			a, b := string(unhex(qs[0][1])), string(unhex(qs[1][1]))
			if strings.HasPrefix(a, under) || strings.HasPrefix(b, under) {
				out = append(out, sysCall{Name: map[bool]string{true: "link", false: "symlink"}[strings.HasPrefix(name, "link")], Path: a, Path2: b})
			}
		case "unlink", "unlinkat":
			if len(qs) < 1 || ret != 0 {
				continue
			}
			p := string(unhex(qs[0][1]))
			if strings.HasPrefix(p, under) {
				out = append(out, sysCall{Name: "unlink", Path: p})
			}
		case "mkdir", "mkdirat":
			if len(qs) < 1 || ret != 0 {
				continue
			}
			p := string(unhex(qs[0][1]))
			if strings.HasPrefix(p, under) {
				out = append(out, sysCall{Name: "mkdir", Path: p})
			}
		case "ftruncate":
			// not used by the code today; recorded so that a new protocol is not silently ignored
			fd, _ := strconv.Atoi(strings.TrimSpace(strings.SplitN(args, ",", 2)[0]))
			if fds[fd] {
				out = append(out, sysCall{Name: "ftruncate", FD: fd})
			}
		}
	}
	return out, sc.Err()
}

// applyCalls materialises calls[0:n] (and, if tear >= 0, the first tear bytes of calls[n], which must be a write) on dir,
// where the recorded paths below recRoot are mapped below dir.
func applyCalls(calls []sysCall, n int, tear int, recRoot, dir string) error {
	mapPath := func(p string) string { return filepath.Join(dir, strings.TrimPrefix(p, recRoot)) }
	// the replay keeps real descriptors open, so a write lands in the file the descriptor refers to even if that file was
	// renamed or unlinked in between (as in the recorded process)
	open := map[int]*os.File{}
	defer func() {
		for _, f := range open {
			f.Close() // the crash: descriptors vanish, what was written stays
		}
	}()
	apply := func(c sysCall, limit int) error {
		switch c.Name {
		case "open":
			p := mapPath(c.Path)
			flags := os.O_WRONLY
			if c.Creat {
				flags |= os.O_CREATE
			}
			if c.Trunc {
				flags |= os.O_TRUNC
			}
			if c.Append {
				flags |= os.O_APPEND
			}
			f, err := os.OpenFile(p, flags, 0644)
			if err != nil {
				return err
			}
			if old := open[c.FD]; old != nil {
				old.Close()
			}
			open[c.FD] = f
		case "write":
			f := open[c.FD]
			if f == nil {
				return fmt.Errorf("write to unknown fd %d", c.FD)
			}
			data := c.Data
			if limit >= 0 && limit < len(data) {
				data = data[:limit]
			}
			if _, err := f.Write(data); err != nil {
				return err
			}
		case "close":
			if f := open[c.FD]; f != nil {
				f.Close()
			}
			delete(open, c.FD)
		case "rename":
			return os.Rename(mapPath(c.Path), mapPath(c.Path2))
		case "link": // a second name for the same file: what is written through one name later shows under the other
			return os.Link(mapPath(c.Path), mapPath(c.Path2))
		case "symlink":
			return os.Symlink(c.Path, mapPath(c.Path2))
		case "unlink":
			return os.Remove(mapPath(c.Path))
		case "mkdir":
			return os.MkdirAll(mapPath(c.Path), 0755)
		}
		return nil
	}
	for i := 0; i < n; i++ {
		if err := apply(calls[i], -1); err != nil {
			return fmt.Errorf("call %d %s: %v", i, calls[i].Name, err)
		}
	}
	if tear >= 0 {
		return apply(calls[n], tear)
	}
	return nil
}

// copyTree copies a directory tree; names that refer to the same file (hard links) do so in the copy too.
func copyTree(src, dst string) error {
	seen := map[uint64]string{}
	return filepath.Walk(src, func(p string, info os.FileInfo, err error) error {
		if err != nil {
			return err
		}
		rel, _ := filepath.Rel(src, p)
		t := filepath.Join(dst, rel)
		if info.IsDir() {
			return os.MkdirAll(t, 0755)
		}
		if st, ok := info.Sys().(*syscall.Stat_t); ok && st.Nlink > 1 {
			if first, ok := seen[st.Ino]; ok {
				return os.Link(first, t)
			}
			seen[st.Ino] = t
		}
		b, err := os.ReadFile(p)
		if err != nil {
			return err
		}
		return os.WriteFile(t, b, 0644)
	})
}

func crashMsg(mid string, size int, from string) *fbb.Message {
	m := fbb.NewMessage(fbb.Private, from)
	m.Header.Set("Mid", mid)
	m.SetDate(fixedDate)
	m.AddTo("LA1AAA")
	m.SetSubject("crash test " + mid)
	m.SetBody(strings.Repeat("0123456789 abcdefghij\r\n", size/22+1)[:size] + "\r\n")
	if size > 100 {
		m.AddFile(fbb.NewFile("a.bin", bytes.Repeat([]byte{0, 1, 2, '\r', '\n'}, size/10)))
	}
	return m
}

var fixedDate = crashDate()

// childOp runs one mutating operation on an existing mailbox (in the strace'd child).
var longMID = strings.Repeat("L", 249)

func childOp(op, mbox string, size int) int {
	h := mailbox.NewDirHandler(mbox, false)
	h.Prepare()
	switch op {
	case "ProcessInbound":
		if err := h.ProcessInbound(crashMsg("NEWIN0000001", size, "LA2BBB")); err != nil {
			return 3
		}
	case "AddOut":
		if err := h.AddOut(crashMsg("NEWOUT000001", size, "LA1AAA")); err != nil {
			return 3
		}
	case "SetSent":
		h.SetSent("OLDOUT000001", false)
	case "SetSentRejected": // the peer answered "already received"
		h.SetSent("OLDOUT000001", true)
	case "SetUnread":
		msgs, err := h.Inbox()
		if err != nil {
			return 3
		}
		for _, m := range msgs {
			if m.MID() == "OLDIN0000001" {
				if err := mailbox.SetUnread(m, false); err != nil {
					return 3
				}
			}
		}
	case "MarkUnreadLatest": // after a restart: the newest message (or the old one) is marked unread, a rewrite of its file
		msgs, err := h.Inbox()
		if err != nil {
			return 3
		}
		target := "OLDIN0000001"
		for _, m := range msgs {
			if m.MID() == "NEWIN0000001" {
				target = "NEWIN0000001"
			}
		}
		for _, m := range msgs {
			if m.MID() == target {
				if err := mailbox.SetUnread(m, true); err != nil {
					return 3
				}
			}
		}
	case "ProcessInboundLong": // an identifier so long that ".<MID>.b2f.tmp" exceeds the file name limit while "<MID>.b2f" fits
		if err := h.ProcessInbound(crashMsg(longMID, size, "LA2BBB")); err != nil {
			return 3
		}
	case "ReAddSent": // a message that is already in the sent folder is queued again
		if err := h.AddOut(crashMsg("OLDOUT000002", 30, "LA1AAA")); err != nil {
			return 3
		}
	case "ReceiveAgain": // the inbound message is already there (e.g. read flag cleared) and is stored again
		if err := h.ProcessInbound(crashMsg("OLDIN0000001", size, "LA2BBB")); err != nil {
			return 3
		}
	}
	return 0
}

// preState builds the mailbox content that exists before the interrupted operation.
func preState(dir string, kind int, size int) map[string][]byte {
	h := mailbox.NewDirHandler(dir, false)
	h.Prepare()
	old := map[string][]byte{}
	put := func(folder string, m *fbb.Message, viaInbound bool) {
		if viaInbound {
			h.ProcessInbound(m)
		} else {
			h.AddOut(m)
		}
		_ = folder
	}
	put("in", crashMsg("OLDIN0000001", size, "LA2BBB"), true)
	put("out", crashMsg("OLDOUT000001", size, "LA1AAA"), false)
	if kind >= 1 {
		put("in", crashMsg("OLDIN0000002", 30, "LA2BBB"), true)
		put("out", crashMsg("OLDOUT000002", 30, "LA1AAA"), false)
		h.SetSent("OLDOUT000002", false)
		// a message received earlier that the application has filed away (moved to the archive folder, as the mail clients
		// built on the library do): the same identifier arrives again in the interrupted operation
		h.ProcessInbound(crashMsg("NEWIN0000001", 30, "LA2BBB"))
		os.Rename(filepath.Join(dir, mailbox.DIR_INBOX, "NEWIN0000001"+mailbox.Ext), filepath.Join(dir, mailbox.DIR_ARCHIVE, "NEWIN0000001"+mailbox.Ext))
	}
	filepath.Walk(dir, func(p string, info os.FileInfo, err error) error {
		if err == nil && !info.IsDir() {
			b, _ := os.ReadFile(p)
			rel, _ := filepath.Rel(dir, p)
			old[rel] = b
		}
		return nil
	})
	return old
}

func publicOf(m *fbb.Message) []byte {
	cp := *m
	cp.Header = make(fbb.Header)
	for k, v := range m.Header {
		if k == "X-Unread" || k == "X-Filepath" {
			continue
		}
		cp.Header[k] = append([]string(nil), v...)
	}
	b, _ := cp.Bytes()
	return b
}

// recover runs the real recovery code on dir and evaluates C11's obligations.
func recoverCheck(dir string, op string, size int, old map[string][]byte) (ev rec.Event) {
	ev = rec.Event{"op": "Recovery", "call": op, "foldersLoad": false, "oldIntact": false, "outXorSent": false, "rejectedImpliesComplete": false, "panic": false}
	defer func() {
		if p := recover(); p != nil {
			ev["panic"], ev["panictext"] = true, fmt.Sprint(p)
		}
	}()
	h := mailbox.NewDirHandler(dir, false)
	if err := h.Prepare(); err != nil {
		ev["preparerr"] = err.Error()
		return
	}
	in, e1 := h.Inbox()
	out, e2 := h.Outbox()
	sent, e3 := h.Sent()
	_, e4 := h.Archive()
	ev["foldersLoad"] = e1 == nil && e2 == nil && e3 == nil && e4 == nil
	for _, e := range []error{e1, e2, e3, e4} {
		if e != nil {
			ev["listerr"] = e.Error()
		}
	}
	find := func(msgs []*fbb.Message, mid string) *fbb.Message {
		for _, m := range msgs {
			if m.MID() == mid {
				return m
			}
		}
		return nil
	}
	// every message stored before the interrupted operation is intact (the one being rewritten is judged separately)
	intact := true
	touched := map[string]string{"SetUnread": "in/OLDIN0000001.b2f", "SetSent": "out/OLDOUT000001.b2f", "SetSentRejected": "out/OLDOUT000001.b2f", "ReceiveAgain": "in/OLDIN0000001.b2f"}[op]
	for rel, want := range old {
		if rel == touched {
			continue
		}
		got, err := os.ReadFile(filepath.Join(dir, rel))
		if err != nil || !bytes.Equal(got, want) {
			intact = false
			ev["damaged"] = rel
		}
	}
	if op == "SetUnread" || op == "ReceiveAgain" {
		// the message being rewritten must still be there, complete (read flag either way)
		m := find(in, "OLDIN0000001")
		if e1 == nil && (m == nil || !bytes.Equal(publicOf(m), publicOf(crashMsg("OLDIN0000001", size, "LA2BBB")))) {
			intact = false
			ev["damaged"] = "in/OLDIN0000001.b2f (being rewritten)"
		}
	}
	ev["oldIntact"] = intact
	// an outbound message is in out xor sent
	x := true
	for _, mid := range []string{"OLDOUT000001", "OLDOUT000002"} {
		if _, ok := old["out/"+mid+".b2f"]; !ok {
			if _, ok2 := old["sent/"+mid+".b2f"]; !ok2 {
				continue
			}
		}
		o, s := find(out, mid) != nil, find(sent, mid) != nil
		// "still in outbox or sent": gone from both is the violation (in both is what re-queueing a sent message gives)
		if e2 == nil && e3 == nil && !o && !s {
			x = false
			ev["outsent"] = fmt.Sprintf("%s out=%v sent=%v", mid, o, s)
		}
	}
	if op == "AddOut" && e2 == nil {
		// the interrupted AddOut leaves nothing or a complete message, never both folders
		if m := find(out, "NEWOUT000001"); m != nil && !bytes.Equal(publicOf(m), publicOf(crashMsg("NEWOUT000001", size, "LA1AAA"))) {
			x = false
			ev["outsent"] = "NEWOUT000001 listed but incomplete"
		}
	}
	ev["outXorSent"] = x
	// "already received" only if a complete copy is in the inbox
	ric := true
	for _, mid := range []string{"NEWIN0000001", "OLDIN0000001", longMID} {
		a := h.GetInboundAnswer(*fbb.NewProposal(mid, "t", fbb.Wl2kProposal, []byte("x")))
		if a == fbb.Reject {
			m := find(in, mid)
			if e1 != nil || m == nil || !bytes.Equal(publicOf(m), publicOf(crashMsg(mid, size, "LA2BBB"))) {
				ric = false
				ev["rejected"] = mid
			}
		}
	}
	ev["rejectedImpliesComplete"] = ric
	_ = h.GetOutbound()
	// life goes on after the restart: the interrupted message arrives (or is queued) again, this time shorter (the sender
	// edited it); the folders must still load and hold exactly that version
	if ev["foldersLoad"] == true && (op == "ProcessInbound" || op == "AddOut") {
		short := size / 3
		var rerr error
		mid, from := "NEWIN0000001", "LA2BBB"
		if op == "AddOut" {
			mid, from = "NEWOUT000001", "LA1AAA"
			rerr = h.AddOut(crashMsg(mid, short, from))
		} else {
			rerr = h.ProcessInbound(crashMsg(mid, short, from))
		}
		in2, e5 := h.Inbox()
		out2, e6 := h.Outbox()
		var m *fbb.Message
		if op == "AddOut" {
			m = find(out2, mid)
		} else {
			m = find(in2, mid)
		}
		if rerr != nil || e5 != nil || e6 != nil || m == nil || !bytes.Equal(publicOf(m), publicOf(crashMsg(mid, short, from))) {
			ev["foldersLoad"] = false
			ev["listerr"] = fmt.Sprintf("after the interrupted %s was repeated with a shorter message: err=%v inbox=%v outbox=%v found=%v", op, rerr, e5, e6, m != nil)
		}
	}
	return
}

const tracedCalls = "trace=open,openat,write,pwrite64,close,fsync,fdatasync,rename,renameat,renameat2,unlink,unlinkat,mkdir,mkdirat,ftruncate,link,linkat,symlink,symlinkat"

func straceCmd(trace, self, op, mbox string, size int) *exec.Cmd {
	return exec.Command("strace", "-f", "-xx", "-s", "10000000", "-o", trace, "-e", tracedCalls,
		self, "mboxfs-c11", "--child", op, "--mbox", mbox, "--size", fmt.Sprint(size))
}

// inboxPublic lists the inbox of dir: MID -> public bytes (nil map if the folder does not load).
func inboxPublic(dir string) map[string][]byte {
	h := mailbox.NewDirHandler(dir, false)
	if err := h.Prepare(); err != nil {
		return nil
	}
	msgs, err := h.Inbox()
	if err != nil {
		return nil
	}
	out := map[string][]byte{}
	for _, m := range msgs {
		out[m.MID()] = publicOf(m)
	}
	return out
}

// secondCrash: the process has crashed once (state dir1, whose folders load), is restarted, marks the message of the
// interrupted operation unread - a rewrite of that file - and crashes again at any point of that.  What the inbox held
// after the first crash is still there, complete, after the second.
func secondCrash(tmp, self, dir1, op string, size, stride int, emit func(rec.Event)) (states int, err error) {
	before := inboxPublic(dir1)
	if before == nil {
		return 0, nil
	}
	recDir, _ := os.MkdirTemp(tmp, "rec2")
	defer os.RemoveAll(recDir)
	copyTree(dir1, recDir)
	trace := filepath.Join(tmp, "strace2.out")
	if e := straceCmd(trace, self, "MarkUnreadLatest", recDir, size).Run(); e != nil {
		if ee, ok := e.(*exec.ExitError); !ok || ee.ExitCode() != 3 {
			return 0, fmt.Errorf("recording the second operation failed: %v", e)
		}
	}
	calls, e := parseStrace(trace, recDir)
	if e != nil {
		return 0, e
	}
	check := func(n, tear int, what string) {
		d, _ := os.MkdirTemp(tmp, "st2")
		defer os.RemoveAll(d)
		copyTree(dir1, d)
		if err := applyCalls(calls, n, tear, recDir, d); err != nil {
			return
		}
		ev := rec.Event{"op": "Recovery", "call": op + ", restart, SetUnread", "foldersLoad": false, "oldIntact": true, "outXorSent": true,
			"rejectedImpliesComplete": true, "panic": false, "point": what, "size": size}
		func() {
			defer func() {
				if p := recover(); p != nil {
					ev["panic"], ev["panictext"] = true, fmt.Sprint(p)
				}
			}()
			after := inboxPublic(d)
			ev["foldersLoad"] = after != nil
			for mid, want := range before {
				if after != nil && !bytes.Equal(after[mid], want) {
					ev["oldIntact"] = false
					ev["damaged"] = "in/" + mid + ".b2f (complete after the first crash)"
				}
			}
			h := mailbox.NewDirHandler(d, false)
			if h.Prepare() == nil {
				for _, mid := range []string{"NEWIN0000001", "OLDIN0000001"} {
					if h.GetInboundAnswer(*fbb.NewProposal(mid, "t", fbb.Wl2kProposal, []byte("x"))) == fbb.Reject && (after == nil || after[mid] == nil) {
						ev["rejectedImpliesComplete"] = false
						ev["rejected"] = mid
					}
				}
			}
		}()
		emit(ev)
		states++
	}
	for n := 0; n <= len(calls); n++ {
		check(n, -1, fmt.Sprintf("second crash before call %d/%d", n, len(calls)))
		if n < len(calls) && calls[n].Name == "write" {
			step := len(calls[n].Data)/6 + 1
			if step < stride {
				step = stride
			}
			for k := 0; k < len(calls[n].Data); k += step {
				check(n, k, fmt.Sprintf("second crash, write %d torn after %d of %d bytes", n, k, len(calls[n].Data)))
			}
		}
	}
	return states, nil
}

// MainCrash is the "mboxfs-c11" subcommand.
func MainCrash(args []string) int {
	fl := flag.NewFlagSet("mboxfs-c11", flag.ExitOnError)
	out := fl.String("out", "", "trace ndjson")
	tmp := fl.String("tmp", os.TempDir(), "scratch")
	child := fl.String("child", "", "internal: run one op")
	cmbox := fl.String("mbox", "", "internal")
	csize := fl.Int("size", 300, "message size")
	stride := fl.Int("stride", 1, "stride of torn write lengths")
	fl.Parse(args)
	if *child != "" {
		return childOp(*child, *cmbox, *csize)
	}
	if _, err := exec.LookPath("strace"); err != nil {
		fmt.Fprintln(os.Stderr, "strace not available")
		return 2
	}
	os.MkdirAll(*tmp, 0755)
	self, _ := os.Executable()
	w, err := rec.NewWriter(*out)
	if err != nil {
		fmt.Fprintln(os.Stderr, err)
		return 2
	}
	defer w.Close()
	ops := []string{"ProcessInbound", "AddOut", "SetSent", "SetSentRejected", "SetUnread", "ReceiveAgain", "ProcessInboundLong", "ReAddSent"}
	sizes := []int{300}
	if *stride == 1 {
		sizes = []int{40, 300, 3000}
	}
	protocols := map[string]string{}
	nStates, nCalls, n2 := 0, 0, 0
	for _, size := range sizes {
		for kind := 0; kind < 2; kind++ {
			for _, op := range ops {
				pre, _ := os.MkdirTemp(*tmp, "pre")
				old := preState(pre, kind, size)
				// step 1: record
				recDir, _ := os.MkdirTemp(*tmp, "rec")
				copyTree(pre, recDir)
				trace := filepath.Join(*tmp, "strace.out")
				cmd := straceCmd(trace, self, op, recDir, size)
				if err := cmd.Run(); err != nil {
					// exit status 3: the operation itself reported an error (e.g. a name too long) - that is an outcome
					if ee, ok := err.(*exec.ExitError); !ok || ee.ExitCode() != 3 {
						fmt.Fprintf(os.Stderr, "recording %s failed: %v\n", op, err)
						return 2
					}
				}
				calls, err := parseStrace(trace, recDir)
				// (an operation that turns out to need no change of the file system has no crash points; the operations that
				// must write keep the guard against a recording that silently failed)
				if err != nil || (len(calls) == 0 && (op == "ProcessInbound" || op == "AddOut" || op == "SetSent" || op == "SetUnread")) {
					fmt.Fprintf(os.Stderr, "no file system calls recorded for %s (%v)\n", op, err)
					return 2
				}
				nCalls += len(calls)
				var names []string
				for _, c := range calls {
					names = append(names, c.Name)
				}
				protocols[op] = strings.Join(names, " ")
				// sanity: replaying the whole record reproduces what the real run left behind
				full, _ := os.MkdirTemp(*tmp, "full")
				copyTree(pre, full)
				if err := applyCalls(calls, len(calls), -1, recDir, full); err != nil {
					fmt.Fprintf(os.Stderr, "replay of %s failed: %v\n", op, err)
					return 2
				}
				if !sameTree(full, recDir) {
					fmt.Fprintf(os.Stderr, "replaying the recorded calls of %s does not reproduce the real result\n", op)
					return 2
				}
				os.RemoveAll(full)
				// steps 2 and 3: every kill point and every torn write
				state := func(n, tear int, what string) {
					d, _ := os.MkdirTemp(*tmp, "st")
					copyTree(pre, d)
					if err := applyCalls(calls, n, tear, recDir, d); err != nil {
						os.RemoveAll(d)
						return
					}
					if tear < 0 && size == 300 && (op == "ProcessInbound" || op == "SetUnread" || op == "ReceiveAgain") {
						// a second crash after the restart, while the message is rewritten
						k, err := secondCrash(*tmp, self, d, op, size, *stride, func(ev rec.Event) {
							ev["point"] = what + "; " + ev["point"].(string)
							w.Write(map[string]interface{}{"call": op, "pre": kind}, []rec.Event{ev})
						})
						if err != nil {
							fmt.Fprintln(os.Stderr, err)
						}
						nStates += k
						n2 += k
					}
					ev := recoverCheck(d, op, size, old)
					ev["point"] = what
					ev["size"] = size
					w.Write(map[string]interface{}{"call": op, "pre": kind}, []rec.Event{ev})
					nStates++
					os.RemoveAll(d)
				}
				for n := 0; n <= len(calls); n++ {
					state(n, -1, fmt.Sprintf("killed before call %d/%d", n, len(calls)))
					if n < len(calls) && calls[n].Name == "write" {
						for k := 0; k < len(calls[n].Data); k += *stride {
							state(n, k, fmt.Sprintf("write %d torn after %d of %d bytes", n, k, len(calls[n].Data)))
						}
					}
				}
				os.RemoveAll(pre)
				os.RemoveAll(recDir)
			}
		}
	}
	pb := []string{}
	for k, v := range protocols {
		pb = append(pb, fmt.Sprintf("%q:%q", k, v))
	}
	fmt.Printf("{\"traces\":%d,\"states\":%d,\"second_crash_states\":%d,\"syscalls\":%d,\"protocols\":{%s}}\n", w.Count(), nStates, n2, nCalls, strings.Join(pb, ","))
	return 0
}

func sameTree(a, b string) bool {
	ma, mb := map[string]string{}, map[string]string{}
	for _, x := range []struct {
		root string
		m    map[string]string
	}{{a, ma}, {b, mb}} {
		filepath.Walk(x.root, func(p string, info os.FileInfo, err error) error {
			if err == nil && !info.IsDir() {
				c, _ := os.ReadFile(p)
				rel, _ := filepath.Rel(x.root, p)
				x.m[rel] = string(c)
			}
			return nil
		})
	}
	if len(ma) != len(mb) {
		return false
	}
	for k, v := range ma {
		if mb[k] != v {
			return false
		}
	}
	return true
}

func crashDate() time.Time { return time.Date(2018, 7, 8, 9, 10, 0, 0, time.UTC) }
