// Package posrep exercises catalog.PosReport on exact inputs and logs what the message says (C20).
package posrep

import (
	"flag"
	"fmt"
	"math"
	"math/big"
	"math/rand"
	"os"
	"regexp"
	"strconv"
	"strings"
	"sync"
	"time"

	"github.com/la5nta/wl2k-go/catalog"

	"verifharness/internal/rec"
)

var (
	reLat = regexp.MustCompile(`^(\d{2})-(\d{2})\.(\d{4})([NS ])$`)
	reLon = regexp.MustCompile(`^(\d{3})-(\d{2})\.(\d{4})([EW ])$`)
)

// halfUnits returns floor and ceil of 2*|v|*600000 computed exactly.
func halfUnits(v float64) (lo, hi int64) {
	r := new(big.Rat)
	r.SetFloat64(math.Abs(v))
	r.Mul(r, big.NewRat(1200000, 1))
	q := new(big.Int)
	m := new(big.Int)
	q.DivMod(r.Num(), r.Denom(), m)
	lo = q.Int64()
	hi = lo
	if m.Sign() != 0 {
		hi = lo + 1
	}
	return
}

func sign(v float64) int {
	switch {
	case v > 0:
		return 1
	case v < 0:
		return -1
	}
	return 0
}

func bodyLines(body string) map[string]string {
	out := map[string]string{}
	for _, l := range strings.Split(body, "\n") {
		l = strings.TrimRight(l, "\r")
		if i := strings.Index(l, ": "); i > 0 {
			out[l[:i]] = l[i+2:]
		}
	}
	return out
}

func coord(v float64, line string, isLat bool) map[string]interface{} {
	lo, hi := halfUnits(v)
	c := map[string]interface{}{"lo2": lo, "hi2": hi, "sign": sign(v), "form": false, "deg": 0, "min": 0, "hem": "?", "text": line, "dlo": 0, "dhi": 0,
		"in": strconv.FormatFloat(v, 'g', -1, 64)}
	re := reLon
	if isLat {
		re = reLat
	}
	m := re.FindStringSubmatch(line)
	if m == nil {
		return c
	}
	d, _ := strconv.Atoi(m[1])
	mi, _ := strconv.Atoi(m[2])
	mf, _ := strconv.Atoi(m[3])
	c["form"] = true
	c["deg"] = d
	c["min"] = mi*10000 + mf
	c["hem"] = m[4]
	// exact difference input - output in 1/1000 unit (floor and ceil), for the fine half-unit test
	x := new(big.Rat)
	x.SetFloat64(math.Abs(v))
	x.Mul(x, big.NewRat(600000, 1))
	x.Sub(x, big.NewRat(int64(d)*600000+int64(mi*10000+mf), 1))
	x.Mul(x, big.NewRat(1000, 1))
	q, r := new(big.Int), new(big.Int)
	q.DivMod(x.Num(), x.Denom(), r) // Euclidean: q = floor
	const clamp = 1000000000
	dlo := q.Int64()
	if !q.IsInt64() || dlo > clamp {
		dlo = clamp
	} else if dlo < -clamp {
		dlo = -clamp
	}
	dhi := dlo
	if r.Sign() != 0 && dhi < clamp {
		dhi++
	}
	c["dlo"], c["dhi"] = dlo, dhi
	return c
}

func safeMessage(p catalog.PosReport) (body string, valid bool, pan string) {
	defer func() {
		if r := recover(); r != nil {
			pan = fmt.Sprint(r)
		}
	}()
	msg := p.Message("LA5NTA")
	valid = msg.Validate() == nil
	if _, err := msg.Bytes(); err != nil {
		valid = false
	}
	body, _ = msg.Body()
	return
}

var date = time.Date(2021, 3, 4, 5, 6, 0, 0, time.UTC)

func posEvent(lat, lon float64) rec.Event {
	body, valid, pan := safeMessage(catalog.PosReport{Date: date, Lat: &lat, Lon: &lon})
	lines := bodyLines(body)
	ev := rec.Event{"op": "Pos", "valid": valid && pan == "",
		"lat": coord(lat, lines["LATITUDE"], true), "lon": coord(lon, lines["LONGITUDE"], false)}
	if pan != "" {
		ev["panic"] = pan
	}
	return ev
}

// axisValues generates the structured input set for one axis: grid, neighbourhoods of whole degrees
// and whole minutes in half-unit steps, float neighbours, and seeded random values.
func axisValues(max int, step float64, rng *rand.Rand, nrand int, minutes []int) []float64 {
	var vs []float64
	add := func(v float64) {
		if v < -float64(max) || v > float64(max) || math.IsNaN(v) {
			return
		}
		vs = append(vs, v)
	}
	for v := -float64(max); v <= float64(max); v += step {
		add(v)
	}
	const hu = 1.0 / 1200000.0 // half a unit in degrees
	for d := 0; d <= max; d++ {
		for _, s := range []float64{1, -1} {
			for k := -3; k <= 3; k++ {
				add(s * (float64(d) + float64(k)*hu))
				add(s * (float64(d) + float64(k)*hu*0.5))
			}
			add(s * math.Nextafter(float64(d), 1000))
			add(s * math.Nextafter(float64(d), -1000))
			add(s * (float64(d) - 1e-7))
			add(s * (float64(d) - 1e-9))
			add(s * (float64(d) - 1e-12))
			for _, m := range minutes {
				base := float64(d) + float64(m)/60.0
				for k := -2; k <= 2; k++ {
					add(s * (base + float64(k)*hu))
				}
				add(s * math.Nextafter(base, 1000))
				add(s * math.Nextafter(base, -1000))
			}
		}
	}
	for i := 0; i < nrand; i++ {
		add((rng.Float64()*2 - 1) * float64(max))
		// random value just below a whole degree
		add(float64(rng.Intn(max)+1) - rng.Float64()*2e-6)
		add(-(float64(rng.Intn(max)+1) - rng.Float64()*2e-6))
	}
	return vs
}

func Main(args []string) int {
	fs := flag.NewFlagSet("posrep", flag.ExitOnError)
	out := fs.String("out", "", "trace ndjson")
	tier := fs.String("tier", "quick", "tier")
	fs.Parse(args)
	w, err := rec.NewWriter(*out)
	if err != nil {
		fmt.Fprintln(os.Stderr, err)
		return 2
	}
	defer w.Close()
	rng := rand.New(rand.NewSource(rec.Seed()))
	step, nrand := 0.5, 1500
	minutes := []int{1, 30, 59}
	if *tier == "thorough" {
		step, nrand = 0.01, 20000
		minutes = []int{1, 2, 7, 15, 30, 45, 58, 59}
	}
	lats := axisValues(90, step, rng, nrand, minutes)
	lons := axisValues(180, step, rng, nrand, minutes)
	n := len(lats)
	if len(lons) > n {
		n = len(lons)
	}
	npos := 0
	for i := 0; i < n; i++ {
		w.Write(nil, []rec.Event{posEvent(lats[i%len(lats)], lons[i%len(lons)])})
		npos++
	}
	// the corners, the origin and the axes (both coordinates set, one or both of them zero)
	for _, pr := range [][2]float64{{0, 0}, {0, 12.5}, {-33.25, 0}, {math.Copysign(0, -1), 0}, {0, math.Copysign(0, -1)}, {90, 180}, {-90, -180}, {90, -180}, {-90, 180}, {0, 180}, {0, -180}, {90, 0}} {
		w.Write(nil, []rec.Event{posEvent(pr[0], pr[1])})
		npos++
	}
	// reports built by several goroutines at the same time are what they are when built alone
	{
		type job struct{ lat, lon float64 }
		jobs := make([]job, 4000)
		alone := make([]string, len(jobs))
		for i := range jobs {
			jobs[i] = job{-90 + 180*rng.Float64(), -180 + 360*rng.Float64()}
			la, lo := jobs[i].lat, jobs[i].lon
			alone[i], _, _ = safeMessage(catalog.PosReport{Date: date, Lat: &la, Lon: &lo, Comment: fmt.Sprint("report ", i)})
		}
		together := make([]string, len(jobs))
		var wg sync.WaitGroup
		for g := 0; g < 8; g++ {
			wg.Add(1)
			go func(g int) {
				defer wg.Done()
				for i := g; i < len(jobs); i += 8 {
					la, lo := jobs[i].lat, jobs[i].lon
					together[i], _, _ = safeMessage(catalog.PosReport{Date: date, Lat: &la, Lon: &lo, Comment: fmt.Sprint("report ", i)})
				}
			}(g)
		}
		wg.Wait()
		diff := 0
		for i := range jobs {
			if together[i] != alone[i] {
				diff++
			}
		}
		w.Write(nil, []rec.Event{{"op": "Concurrent", "reports": len(jobs), "differ": diff}})
	}
	// courses
	ncourse := 0
	for deg := 0; deg <= 360; deg++ {
		for _, mag := range []bool{false, true} {
			c, err := catalog.NewCourse(deg, mag)
			ev := rec.Event{"op": "Course", "deg": deg, "mag": mag, "ok": err == nil && c != nil, "str": "", "line": ""}
			if c != nil {
				ev["str"] = c.String()
				lat, lon := 1.5, 2.5
				body, _, _ := safeMessage(catalog.PosReport{Date: date, Lat: &lat, Lon: &lon, Course: c})
				ev["line"] = bodyLines(body)["COURSE"]
			}
			w.Write(nil, []rec.Event{ev})
			ncourse++
		}
	}
	// optional fields: all 16 combinations
	nfields := 0
	for mask := 0; mask < 64; mask++ {
		p := catalog.PosReport{Date: date}
		if mask&16 != 0 {
			p.Date = time.Time{} // no date given
		}
		set := map[string]bool{"pos": mask&1 != 0, "speed": mask&2 != 0, "course": mask&4 != 0, "comment": mask&8 != 0}
		lat, lon, speed := -33.25, 151.5, 12.5
		if mask&32 != 0 {
			lat, lon, speed = 0, 0, 0 // set, and zero
		}
		if set["pos"] {
			p.Lat, p.Lon = &lat, &lon
		}
		if set["speed"] {
			p.Speed = &speed
		}
		if set["course"] {
			p.Course, _ = catalog.NewCourse(270, true)
		}
		if set["comment"] {
			p.Comment = "all well on board"
		}
		body, valid, pan := safeMessage(p)
		l := bodyLines(body)
		has := map[string]bool{}
		for k, name := range map[string]string{"date": "DATE", "lat": "LATITUDE", "lon": "LONGITUDE", "speed": "SPEED", "course": "COURSE", "comment": "COMMENT"} {
			_, has[k] = l[name]
		}
		w.Write(nil, []rec.Event{{"op": "Fields", "set": set, "has": has, "valid": valid && pan == ""}})
		nfields++
	}
	fmt.Printf("{\"traces\":%d,\"pos\":%d,\"course\":%d,\"fields\":%d}\n", w.Count(), npos, ncourse, nfields)
	return 0
}
