package msgh

import (
	"bytes"
	"encoding/json"
	"flag"
	"fmt"
	"io"
	"math/rand"
	"os"
	"reflect"
	"sort"
	"strings"
	"time"

	"github.com/la5nta/wl2k-go/fbb"

	"verifharness/internal/rec"
)

type planT struct {
	Body  []string   `json:"body"`
	Files [][]string `json:"files"`
}

var byteOf = map[string]byte{"x": 'x', "CR": '\r', "LF": '\n', "NUL": 0}

func bytesOf(s []string) []byte {
	out := make([]byte, 0, len(s))
	for _, c := range s {
		out = append(out, byteOf[c])
	}
	return out
}

// chunkReader returns data in chunks of the scheduled sizes.
type chunkReader struct {
	data  []byte
	sizes []int
	i     int
}

func (c *chunkReader) Read(p []byte) (int, error) {
	if len(c.data) == 0 {
		return 0, io.EOF
	}
	n := c.sizes[c.i%len(c.sizes)]
	c.i++
	if n > len(p) {
		n = len(p)
	}
	if n > len(c.data) {
		n = len(c.data)
	}
	copy(p, c.data[:n])
	c.data = c.data[n:]
	return n, nil
}

type built struct {
	To, Cc  []string
	Subject string
	Date    time.Time
	From    string
	Body    string
	Files   []struct {
		Name string
		Data []byte
	}
	X    map[string]string
	Type fbb.MsgType
}

var latin1Repertoire = func() string {
	var sb strings.Builder
	for r := rune(0xa1); r <= 0xff; r++ {
		sb.WriteRune(r)
	}
	return sb.String()
}()

func build(b built) *fbb.Message {
	m := fbb.NewMessage(b.Type, "LA5NTA")
	m.Header.Set("Mid", "MSGTEST00001")
	m.SetDate(b.Date)
	if b.From != "" {
		m.SetFrom(b.From)
	}
	m.AddTo(b.To...)
	m.AddCc(b.Cc...)
	m.SetSubject(b.Subject)
	m.SetBody(b.Body)
	for _, f := range b.Files {
		m.AddFile(fbb.NewFile(f.Name, f.Data))
	}
	for k, v := range b.X {
		m.Header.Set(k, v)
	}
	return m
}

func addrStrings(as []fbb.Address) []string {
	out := []string{}
	for _, a := range as {
		out = append(out, a.String())
	}
	return out
}

// MsgEvent builds a message through the public API, serialises, parses it back through chunked readers and compares.
// the bytes Bytes() returned for the previous message (the slice itself, and a copy taken at once): serialising another
// message must not change them
var lastRaw, lastCopy []byte

// addrWant is what the address accessors must return for an address given as text, written from the format description
// (docs: callsigns and <call>@winlink.org are Winlink addresses, upper-cased; other mailbox@domain forms are SMTP:; an
// explicit PROTO: prefix is kept), independently of fbb.AddressFromString.
func addrWant(a string) string {
	if i := strings.Index(a, ":"); i >= 0 && strings.Count(a, ":") == 1 {
		return a
	}
	at := strings.Index(a, "@")
	if at < 0 {
		return strings.ToUpper(a)
	}
	if strings.Count(a, "@") == 1 && strings.EqualFold(a[at+1:], "winlink.org") {
		return strings.ToUpper(a[:at])
	}
	return "SMTP:" + a
}

// the previous message object and its serialisation: building another message must not change it
var prevMsg *fbb.Message

// reused: a Message value holding the previous message of the run, into which the next one is parsed as well
var reused *fbb.Message
var prevMsgBytes []byte

func MsgEvent(b built, desc interface{}, schedules [][]int) rec.Event {
	ev := rec.Event{"op": "Msg", "desc": desc, "earlierBytesStable": true, "panic": false, "writeErr": false, "parseErr": false, "headersEqual": false, "bodyEqual": false,
		"filesEqual": false, "accessorsEqual": false, "reserialiseEqual": false, "chunkIndependent": true, "tailMatches": false, "hdrOrder": false, "reuseIndependent": true}
	func() {
		defer func() {
			if p := recover(); p != nil {
				ev["panic"], ev["panictext"] = true, fmt.Sprint(p)
			}
		}()
		m := build(b)
		raw, err := m.Bytes()
		if err != nil {
			ev["writeErr"], ev["errtext"] = true, err.Error()
			return
		}
		ev["size"] = len(raw)
		if prevMsg != nil {
			if again, err := prevMsg.Bytes(); err != nil || !bytes.Equal(again, prevMsgBytes) {
				ev["earlierBytesStable"] = false // the message built before this one no longer serialises to what it did
			}
		}
		prevMsg, prevMsgBytes = m, append([]byte(nil), raw...)
		if lastRaw != nil && !bytes.Equal(lastRaw, lastCopy) {
			ev["earlierBytesStable"] = false
		}
		lastRaw, lastCopy = raw, append([]byte(nil), raw...)
		raw = lastCopy // everything below works on the bytes as they were when Bytes() returned
		var first *fbb.Message
		for si, sched := range schedules {
			p := new(fbb.Message)
			if err := p.ReadFrom(&chunkReader{data: append([]byte(nil), raw...), sizes: sched}); err != nil {
				ev["parseErr"], ev["errtext"] = true, fmt.Sprintf("schedule %v: %v", sched, err)
				return
			}
			if si == 0 {
				first = p
			} else {
				b1, _ := first.Bytes()
				b2, _ := p.Bytes()
				if !bytes.Equal(b1, b2) || !reflect.DeepEqual(first.Header, p.Header) {
					ev["chunkIndependent"] = false
				}
			}
		}
		p := first
		ev["headersEqual"] = reflect.DeepEqual(map[string][]string(m.Header), map[string][]string(p.Header))
		mb, _ := m.Body()
		pb, _ := p.Body()
		ev["bodyEqual"] = mb == pb && m.BodySize() == p.BodySize()
		fe := len(m.Files()) == len(p.Files()) && len(p.Files()) == len(b.Files)
		acc := true
		if fe {
			for i, f := range p.Files() {
				if !bytes.Equal(f.Data(), b.Files[i].Data) || f.Size() != len(b.Files[i].Data) {
					fe = false
				}
				if f.Name() != b.Files[i].Name {
					acc = false
					ev["accdiff"] = fmt.Sprintf("file name %q != %q", f.Name(), b.Files[i].Name)
				}
			}
		}
		ev["filesEqual"] = fe
		if p.Subject() != b.Subject {
			acc = false
			ev["accdiff"] = fmt.Sprintf("subject %q != %q", p.Subject(), b.Subject)
		}
		if !p.Date().Equal(b.Date.Truncate(time.Minute)) {
			acc = false
			ev["accdiff"] = fmt.Sprintf("date %v != %v", p.Date(), b.Date)
		}
		wantTo, wantCc := []string{}, []string{}
		for _, a := range b.To {
			wantTo = append(wantTo, addrWant(a))
		}
		for _, a := range b.Cc {
			wantCc = append(wantCc, addrWant(a))
		}
		if !reflect.DeepEqual(addrStrings(p.To()), wantTo) || !reflect.DeepEqual(addrStrings(p.Cc()), wantCc) {
			acc = false
			ev["accdiff"] = fmt.Sprintf("to/cc %v %v != %v %v", p.To(), p.Cc(), wantTo, wantCc)
		}
		from := b.From
		if from == "" {
			from = "LA5NTA"
		}
		if p.From().String() != addrWant(from) || string(p.Type()) != string(m.Type()) || p.MID() != "MSGTEST00001" {
			acc = false
			ev["accdiff"] = "from/type/mid"
		}
		ev["accessorsEqual"] = acc
		raw2, err := p.Bytes()
		ev["reserialiseEqual"] = err == nil && bytes.Equal(raw, raw2)
		// a Message value that held another message before (the previous one of this run) parses to the same as a fresh one
		if reused != nil {
			if err := reused.ReadFrom(bytes.NewReader(append([]byte(nil), raw...))); err != nil {
				ev["reuseIndependent"], ev["errtext"] = false, "into a used Message: "+err.Error()
			} else if rb, err := reused.Bytes(); err != nil || !bytes.Equal(rb, raw) || !reflect.DeepEqual(map[string][]string(reused.Header), map[string][]string(p.Header)) ||
				len(reused.Files()) != len(p.Files()) {
				ev["reuseIndependent"] = false
			}
		}
		reused = new(fbb.Message)
		if err := reused.ReadFrom(bytes.NewReader(append([]byte(nil), raw...))); err != nil {
			reused = nil
		}
		// drift diagnostics against Message.tla's layout: section tail and header key order
		i := bytes.Index(raw, []byte("\r\n\r\n"))
		stored := raw[i+4:]
		bodyBytes := stored[:m.BodySize()]
		var want []byte
		want = append(want, bodyBytes...)
		if len(b.Files) > 0 {
			want = append(want, '\r', '\n')
		}
		for _, f := range b.Files {
			want = append(want, f.Data...)
			want = append(want, '\r', '\n')
		}
		ev["tailMatches"] = bytes.Equal(stored, want)
		var keys []string
		for _, l := range strings.Split(string(raw[:i]), "\r\n") {
			if k := strings.Index(l, ": "); k > 0 {
				keys = append(keys, l[:k])
			}
		}
		rest := append([]string(nil), keys[1:]...)
		ev["hdrOrder"] = len(keys) > 0 && keys[0] == "Mid" && sort.StringsAreSorted(rest)
	}()
	return ev
}

func randLatin1(rng *rand.Rand, n int, space bool) string {
	rs := []rune(latin1Repertoire)
	var sb strings.Builder
	for i := 0; i < n; i++ {
		switch rng.Intn(4) {
		case 0:
			sb.WriteRune(rs[rng.Intn(len(rs))])
		case 1:
			if space && i > 0 && i < n-1 {
				sb.WriteByte(' ')
			} else {
				sb.WriteByte('_')
			}
		default:
			sb.WriteByte(byte(33 + rng.Intn(94)))
		}
	}
	return sb.String()
}

// MainMsg is the "msg" subcommand.
func MainMsg(args []string) int {
	// the process does not run in UTC: dates are instants, whatever the local zone is
	time.Local = time.FixedZone("TEST+0530", 5*3600+1800)
	fs := flag.NewFlagSet("msg", flag.ExitOnError)
	plans := fs.String("plans", "", "plan ndjson from TLC")
	out := fs.String("out", "", "trace ndjson")
	extra := fs.Int("extra", 300, "seeded large / Latin-1 rich messages")
	fs.Parse(args)
	rng := rand.New(rand.NewSource(rec.Seed()))
	w, err := rec.NewWriter(*out)
	if err != nil {
		fmt.Fprintln(os.Stderr, err)
		return 2
	}
	defer w.Close()
	toSets := [][]string{{}, {"LA1B"}, {"la1b@winlink.org"}, {"foo@example.com"}, {"LA1B", "SMTP:Bar@Example.org"}, {"n0call-7", "LA1B@WINLINK.ORG"},
		{"sysop@mail.winlink.org", "Bob.Smith@darwinlink.org"}, {"ops@NOTWINLINK.ORG", "x@winlink.org.example.com"}}
	ccSets := [][]string{{}, {"LD5SK"}, {"someone@example.com", "la9x"}}
	subjects := []string{"plain ascii subject", "//WL2K P/ Blåbærsyltetøy på brødskiva", "", "=?not an encoded word", "inner  double space", "tab\there", strings.TrimSpace(strings.Repeat("long ", 20)),
		"esc\x1b[0m and del\x7f", "nul\x00inside", "line\nInjected: header", "cr\ronly", "crlf\r\nX-Injected: 1"}
	names := []string{"a.txt", "blåbær syltetøy.jpg", "name with  two spaces.bin", "üñí.ç", "x"}
	schedSets := [][][]int{{{1 << 20}, {1}, {2, 3}, {7}, {4096}}, {{1 << 20}, {1}}}
	n := 0
	err = rec.ReadNDJSON(*plans, func(line []byte) error {
		var p planT
		if err := json.Unmarshal(line, &p); err != nil {
			return err
		}
		b := built{To: toSets[n%len(toSets)], Cc: ccSets[(n/2)%len(ccSets)], Subject: subjects[(n/3)%len(subjects)],
			Date: time.Date(2000+n%30, time.Month(1+n%12), 1+n%28, n%24, (n*7)%60, 0, 0, time.UTC), Body: string(bytesOf(p.Body))}
		if n%5 == 0 {
			b.X = map[string]string{"X-Custom": "value " + fmt.Sprint(n), "X-Other": "æ?"}
		}
		if n%7 == 0 {
			b.From = "sender@example.org"
		}
		for i, f := range p.Files {
			b.Files = append(b.Files, struct {
				Name string
				Data []byte
			}{names[(n+i)%len(names)], bytesOf(f)})
		}
		w.Write(nil, []rec.Event{MsgEvent(b, map[string]interface{}{"body": p.Body, "files": p.Files, "k": n}, schedSets[0])})
		n++
		return nil
	})
	if err != nil {
		fmt.Fprintln(os.Stderr, err)
		return 2
	}
	zones := []*time.Location{time.UTC, time.FixedZone("A", 3600*5+1800), time.FixedZone("B", -3600*11)}
	for i := 0; i < *extra; i++ {
		b := built{To: toSets[rng.Intn(len(toSets))], Cc: ccSets[rng.Intn(len(ccSets))], Subject: randLatin1(rng, 1+rng.Intn(40), true),
			Date: time.Date(1990+rng.Intn(60), time.Month(1+rng.Intn(12)), 1+rng.Intn(28), rng.Intn(24), rng.Intn(60), rng.Intn(60), 0, zones[rng.Intn(3)])}
		var sb strings.Builder
		for l := rng.Intn(30); l >= 0; l-- {
			sb.WriteString(randLatin1(rng, rng.Intn(120), true))
			sb.WriteString("\r\n")
		}
		b.Body = sb.String()
		for f := rng.Intn(4); f > 0; f-- {
			sz := []int{0, 1, 2, 100, 5000, 200000}[rng.Intn(6)]
			if i%50 != 0 && sz > 5000 {
				sz = 5000
			}
			data := make([]byte, sz)
			rng.Read(data)
			if rng.Intn(3) == 0 && sz > 4 {
				copy(data[sz-2:], "\r\n")
				copy(data, "\r\n")
			}
			b.Files = append(b.Files, struct {
				Name string
				Data []byte
			}{randLatin1(rng, 1+rng.Intn(30), true), data})
		}
		w.Write(nil, []rec.Event{MsgEvent(b, fmt.Sprintf("seeded #%d", i), schedSets[1])})
	}
	fmt.Printf("{\"traces\":%d,\"plans\":%d}\n", w.Count(), n)
	return 0
}
