// Package msgh drives the message format code: SetBody (C18) and serialisation round trips (C09).
package msgh

import (
	"bytes"
	"encoding/json"
	"flag"
	"fmt"
	"math/rand"
	"os"
	"strings"

	"github.com/la5nta/wl2k-go/fbb"

	"verifharness/internal/rec"
)

type run struct {
	Kind string `json:"kind"`
	Len  string `json:"len"`
	Term string `json:"term"`
}

type shapeT struct {
	Shape []run `json:"shape"`
}

const wrapC, tokC = 998, 65536

var lenOf = map[string]int{"0": 0, "1": 1, "Wrap-1": wrapC - 1, "Wrap": wrapC, "Wrap+1": wrapC + 1, "2Wrap": 2 * wrapC,
	"Tok-1": tokC - 1, "Tok": tokC, "Tok+1": tokC + 1, "5Tok": 5 * tokC}

const wides = "æøåÆØÅüéñßÿ¿¡©®µ"

// expand builds the text of a shape. Lengths are in characters; a "mixed" run alternates so that wide characters fall
// on and around the wrap column.
func expand(s shapeT, rng *rand.Rand) string {
	var sb strings.Builder
	wr := []rune(wides)
	for _, r := range s.Shape {
		n := lenOf[r.Len]
		switch r.Kind {
		case "ascii":
			for i := 0; i < n; i++ {
				sb.WriteByte(byte(33 + rng.Intn(94)))
			}
		case "wide":
			for i := 0; i < n; i++ {
				sb.WriteRune(wr[rng.Intn(len(wr))])
			}
		default:
			for i := 0; i < n; i++ {
				if rng.Intn(5) == 0 || i%997 == 996 {
					sb.WriteRune(wr[rng.Intn(len(wr))])
				} else if rng.Intn(9) == 0 {
					sb.WriteByte(' ')
				} else {
					sb.WriteByte(byte(97 + rng.Intn(26)))
				}
			}
		}
		switch r.Term {
		case "LF":
			sb.WriteString("\n")
		case "CRLF":
			sb.WriteString("\r\n")
		}
	}
	return sb.String()
}

func latin1(s string) ([]byte, bool) {
	out := make([]byte, 0, len(s))
	for _, r := range s {
		if r > 255 {
			return nil, false
		}
		out = append(out, byte(r))
	}
	return out, true
}

func stripCRLF(b []byte) []byte {
	out := make([]byte, 0, len(b))
	for _, c := range b {
		if c != '\r' && c != '\n' {
			out = append(out, c)
		}
	}
	return out
}

// BodyEvent calls SetBody on the real code and projects the result.
func BodyEvent(text string, desc interface{}) rec.Event { return BodyEventPrior(text, desc, 0) }

// BodyEventPrior: prior = 0 sets the body of a fresh message, 1 of a message that already had another body set, 2 of a
// message that was parsed from bytes (and so already has a body and a Body header), 3 of a parsed message that declares
// another character set.
func BodyEventPrior(text string, desc interface{}, prior int) rec.Event {
	ev := rec.Event{"op": "Body", "desc": desc, "inlen": len(text), "err": false, "crlfOnly": false, "maxLine": 0, "textPreserved": false,
		"bodyHeader": -1, "bodyHeaderWire": -1, "outlen": 0, "bodyAccessor": false, "prior": prior}
	func() {
		defer func() {
			if p := recover(); p != nil {
				ev["err"], ev["panic"] = true, fmt.Sprint(p)
			}
		}()
		m := fbb.NewMessage(fbb.Private, "LA5NTA")
		switch prior {
		case 1:
			m.SetBody("an earlier body of another length\r\nsecond line\r\n")
		case 2, 3:
			pm := fbb.NewMessage(fbb.Private, "LA5NTA")
			pm.AddTo("LA1B")
			pm.SetSubject("parsed first")
			pm.SetBody("the body this message had when it was read\r\n")
			if prior == 3 { // written by a client that declares another character set (the ASCII body is valid in it)
				pm.Header.Set("Content-Type", "text/plain; charset=UTF-8")
				pm.Header.Set("Content-Transfer-Encoding", "8bit")
			}
			if b, err := pm.Bytes(); err == nil {
				m = new(fbb.Message)
				if err := m.ReadFrom(bytes.NewReader(b)); err != nil {
					ev["err"], ev["errtext"] = true, "harness: "+err.Error()
					return
				}
			}
		}
		// every third text goes through SetBodyWithCharset with another charset name: whatever the message then declares,
		// its own Body() accessor must give the text back
		charset := ""
		if prior == 0 && len(text)%3 == 1 {
			charset = []string{"UTF-8", "ISO-8859-15", "iso-8859-1"}[len(text)%9/3]
		}
		ev["charset"] = charset
		var serr error
		if charset != "" {
			serr = m.SetBodyWithCharset(charset, text)
		} else {
			serr = m.SetBody(text)
		}
		if serr != nil {
			ev["err"], ev["errtext"] = true, serr.Error()
			return
		}
		raw, err := m.Bytes()
		if err != nil {
			ev["err"], ev["errtext"] = true, err.Error()
			return
		}
		// the stored body: what follows the blank line of the serialisation
		i := bytes.Index(raw, []byte("\r\n\r\n"))
		stored := raw[i+4:]
		ev["outlen"] = len(stored)
		ev["bodyHeader"] = m.BodySize()
		// the Body header as serialised: exactly one line, its value
		wire, nb := -2, 0
		for _, line := range strings.Split(string(raw[:i]), "\r\n") {
			if strings.HasPrefix(strings.ToLower(line), "body:") {
				nb++
				fmt.Sscanf(strings.TrimSpace(line[5:]), "%d", &wire)
			}
		}
		if nb != 1 {
			wire = -2
		}
		ev["bodyHeaderWire"] = wire
		crlf, maxLine, cur := true, 0, 0
		for k, c := range stored {
			cur++
			if c == '\n' {
				if k == 0 || stored[k-1] != '\r' {
					crlf = false
				}
				if cur > maxLine {
					maxLine = cur
				}
				cur = 0
			}
		}
		if cur != 0 { // an unterminated last line
			crlf = false
			if cur > maxLine {
				maxLine = cur
			}
		}
		ev["crlfOnly"], ev["maxLine"] = crlf, maxLine
		want, ok := latin1(text)
		ev["textPreserved"] = ok && bytes.Equal(stripCRLF(want), stripCRLF(stored))
		got, err := m.Body()
		gl, ok2 := latin1(got)
		ev["bodyAccessor"] = err == nil && ok2 && bytes.Equal(gl, stored)
		if charset != "" {
			// judged through the message's own declaration: the accessor returns the text (apart from CR / LF)
			strip := func(s string) string { return strings.NewReplacer("\r", "", "\n", "").Replace(s) }
			same := err == nil && strip(got) == strip(text)
			ev["textPreserved"] = ev["textPreserved"].(bool) || same
			ev["bodyAccessor"] = same
			if !same {
				ev["textPreserved"] = false
			}
		}
	}()
	return ev
}

// retained keeps earlier messages alive so that a later SetBody on another message can be shown not to disturb them.
type retained struct {
	m    *fbb.Message
	raw  []byte
	desc interface{}
}

var keep []retained

func remember(text string, desc interface{}) {
	m := fbb.NewMessage(fbb.Private, "LA5NTA")
	if err := m.SetBody(text); err != nil {
		return
	}
	raw, err := m.Bytes()
	if err != nil {
		return
	}
	keep = append(keep, retained{m, append([]byte(nil), raw...), desc})
	if len(keep) > 6 {
		keep = keep[1:]
	}
}

// recheck re-serialises the retained messages: their stored bodies must be what they were.
func recheck() rec.Event {
	stable := true
	var which interface{} = ""
	for _, r := range keep {
		raw, err := r.m.Bytes()
		if err != nil || !bytes.Equal(raw, r.raw) {
			stable = false
			which = r.desc
		}
	}
	return rec.Event{"op": "Recheck", "stable": stable, "which": which, "n": len(keep)}
}

// MainBody is the "body" subcommand.
func MainBody(args []string) int {
	fs := flag.NewFlagSet("body", flag.ExitOnError)
	shapes := fs.String("shapes", "", "shape ndjson from TLC")
	out := fs.String("out", "", "trace ndjson")
	extra := fs.Int("extra", 300, "seeded free-form texts")
	fs.Parse(args)
	rng := rand.New(rand.NewSource(rec.Seed()))
	w, err := rec.NewWriter(*out)
	if err != nil {
		fmt.Fprintln(os.Stderr, err)
		return 2
	}
	defer w.Close()
	n := 0
	err = rec.ReadNDJSON(*shapes, func(line []byte) error {
		var s shapeT
		if err := json.Unmarshal(line, &s); err != nil {
			return err
		}
		text := expand(s, rng)
		w.Write(nil, []rec.Event{BodyEventPrior(text, s.Shape, n%4)})
		if len(text) < 5000 {
			remember(text, s.Shape)
			if n%3 == 0 {
				w.Write(nil, []rec.Event{recheck()})
			}
		}
		n++
		return nil
	})
	if err != nil {
		fmt.Fprintln(os.Stderr, err)
		return 2
	}
	// free-form texts: wide characters at every offset around the wrap column, empty lines, mixed terminators
	for off := wrapC - 4; off <= wrapC+3; off++ {
		for _, k := range []int{1, 2, 3} {
			text := strings.Repeat("x", off) + strings.Repeat("ø", k) + strings.Repeat("y", 20) + "\n"
			w.Write(nil, []rec.Event{BodyEvent(text, fmt.Sprintf("wide x%d at byte %d", k, off))})
		}
	}
	for i := 0; i < *extra; i++ {
		var sb strings.Builder
		for l := rng.Intn(12); l >= 0; l-- {
			ln := []int{0, 0, 1, 10, 80, 997, 998, 999, 1500, 3000}[rng.Intn(10)]
			for j := 0; j < ln; j++ {
				if rng.Intn(7) == 0 {
					sb.WriteRune([]rune(wides)[rng.Intn(16)])
				} else {
					sb.WriteByte(byte(32 + rng.Intn(95)))
				}
			}
			sb.WriteString([]string{"\n", "\r\n", "\n", ""}[rng.Intn(4)])
		}
		w.Write(nil, []rec.Event{BodyEventPrior(sb.String(), "free-form", i%4)})
	}
	fmt.Printf("{\"traces\":%d,\"shapes\":%d}\n", w.Count(), n)
	return 0
}
