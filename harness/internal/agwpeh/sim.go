// Package agwpeh is a simulated AGWPE TNC on loopback TCP and the schedules that drive transport/ax25/agwpe (C13).
//
// The simulator is written from the AGWPE TCP/IP API description (36 byte little-endian header: port, reserved x3,
// data kind, reserved, PID, reserved, call-from[10], call-to[10], data length (uint32), user (uint32), then data).
// It lexes every frame it receives with its own header lexer and records what it saw.
package agwpeh

import (
	"bytes"
	"encoding/binary"
	"fmt"
	"io"
	"net"
	"strings"
	"sync"
	"time"
)

type Frame struct {
	Port     int
	Kind     byte
	PID      byte
	From, To string
	Data     []byte
	Reserved bool // all reserved header bytes are zero
}

func callBytes(s string) [10]byte {
	var c [10]byte
	copy(c[:], s)
	return c
}

func callString(b []byte) string {
	if i := bytes.IndexByte(b, 0); i >= 0 {
		b = b[:i]
	}
	return string(b)
}

// Encode builds the wire bytes of a frame.
func (f Frame) Encode() []byte {
	h := make([]byte, 36)
	h[0] = byte(f.Port)
	h[4] = f.Kind
	h[6] = f.PID
	from, to := callBytes(f.From), callBytes(f.To)
	copy(h[8:18], from[:])
	copy(h[18:28], to[:])
	binary.LittleEndian.PutUint32(h[28:32], uint32(len(f.Data)))
	return append(h, f.Data...)
}

// readFrame lexes one frame from r.
func readFrame(r io.Reader) (Frame, error) {
	h := make([]byte, 36)
	if _, err := io.ReadFull(r, h); err != nil {
		return Frame{}, err
	}
	n := binary.LittleEndian.Uint32(h[28:32])
	if n > 1<<20 {
		return Frame{}, fmt.Errorf("frame of %d bytes", n)
	}
	f := Frame{Port: int(h[0]), Kind: h[4], PID: h[6], From: callString(h[8:18]), To: callString(h[18:28]),
		Reserved: h[1] == 0 && h[2] == 0 && h[3] == 0 && h[5] == 0 && h[7] == 0}
	f.Data = make([]byte, n)
	if _, err := io.ReadFull(r, f.Data); err != nil {
		return f, err
	}
	return f, nil
}

// Sim is one simulated TNC serving one TCP connection.
type Sim struct {
	ln   net.Listener
	mu   sync.Mutex
	conn net.Conn

	MaxFrame     int
	HoldTime     time.Duration // how long a data frame stays "outstanding"
	RefuseReg    bool
	ConnectReply string // "ok", "refuse", "precondition"
	// Log: what the TNC saw of the transmit side, in order: "D" (a data frame of n bytes arrived), "Y" (a poll, answered n
	// outstanding frames), and the driver's notes ("writeCall", "writeRet", "flushCall", "flushRet", "closeCall")
	Log []TxLogItem

	ShortReply map[byte]int // reply kind -> its data field is cut to this many bytes (a malformed reply to a request)
	// ReplyDelay: the reply to a request of this kind (for 'Y': "Y"+remote callsign) is written after this delay, without holding
	// up the replies to other requests (a TNC that answers one station's poll, or a version request, late)
	ReplyDelay map[string]time.Duration
	// MuxName (remote callsign -> connection name) switches on the per-connection log Mux: "D" and "YReq" as the frames arrive,
	// "YRep" (with the count) as the reply is written, and the driver's "FlushCall" / "FlushRet" notes
	MuxName map[string]string
	Mux     []MuxItem

	Received  []Frame // every frame the TNC received, in order
	dataAt    []time.Time
	BadFrames []string
	closed    bool
	ready     chan struct{}
	OnFrame   func(f Frame)
}

type MuxItem struct {
	Op string `json:"op"`
	C  string `json:"c"`
	N  int    `json:"n"`
}

// NoteMux adds a driver event about connection c to the per-connection log.
func (s *Sim) NoteMux(op, c string) {
	s.mu.Lock()
	s.Mux = append(s.Mux, MuxItem{op, c, 0})
	s.mu.Unlock()
}

func (s *Sim) MuxLog() []MuxItem {
	s.mu.Lock()
	defer s.mu.Unlock()
	return append([]MuxItem(nil), s.Mux...)
}

type TxLogItem struct {
	K string `json:"k"`
	V int    `json:"v"`
}

// Note adds a driver event to the transmit log.
func (s *Sim) Note(k string, v int) {
	s.mu.Lock()
	s.Log = append(s.Log, TxLogItem{k, v})
	s.mu.Unlock()
}

func (s *Sim) TxLog() []TxLogItem {
	s.mu.Lock()
	defer s.mu.Unlock()
	return append([]TxLogItem(nil), s.Log...)
}

func NewSim() (*Sim, error) {
	ln, err := net.Listen("tcp", "127.0.0.1:0")
	if err != nil {
		return nil, err
	}
	s := &Sim{ln: ln, MaxFrame: 4, HoldTime: 350 * time.Millisecond, ConnectReply: "ok", ready: make(chan struct{})}
	go s.serve()
	return s, nil
}

func (s *Sim) Addr() string { return s.ln.Addr().String() }

func (s *Sim) Close() {
	s.mu.Lock()
	s.closed = true
	c := s.conn
	s.mu.Unlock()
	s.ln.Close()
	if c != nil {
		c.Close()
	}
}

// Send writes raw bytes to the host (the schedule decides the segmentation).
func (s *Sim) Send(b []byte) error {
	<-s.ready
	s.mu.Lock()
	c := s.conn
	s.mu.Unlock()
	if c == nil {
		return io.ErrClosedPipe
	}
	_, err := c.Write(b)
	return err
}

// SendSegments writes b in the given segment sizes with a pause between them (so that they are separate TCP segments).
func (s *Sim) SendSegments(b []byte, sizes []int, pause time.Duration) error {
	i := 0
	for len(b) > 0 {
		n := len(b)
		if len(sizes) > 0 {
			n = sizes[i%len(sizes)]
			i++
		}
		if n > len(b) || n <= 0 {
			n = len(b)
		}
		if err := s.Send(b[:n]); err != nil {
			return err
		}
		b = b[n:]
		if len(b) > 0 && pause > 0 {
			time.Sleep(pause)
		}
	}
	return nil
}

func (s *Sim) outstanding(from, to string) int {
	n := 0
	now := time.Now()
	for i, f := range s.Received {
		if f.Kind == 'D' && now.Sub(s.dataAt[i]) < s.HoldTime {
			if from != "" && !((f.From == from && f.To == to) || (f.From == to && f.To == from)) {
				continue // another connection's frame
			}
			n++
		}
	}
	return n
}

func (s *Sim) serve() {
	c, err := s.ln.Accept()
	if err != nil {
		close(s.ready)
		return
	}
	s.mu.Lock()
	s.conn = c
	s.mu.Unlock()
	close(s.ready)
	for {
		f, err := readFrame(c)
		if err != nil {
			if err != io.EOF && !strings.Contains(err.Error(), "closed") && !strings.Contains(err.Error(), "reset") {
				s.mu.Lock()
				s.BadFrames = append(s.BadFrames, err.Error())
				s.mu.Unlock()
			}
			return
		}
		s.mu.Lock()
		s.Received = append(s.Received, f)
		s.dataAt = append(s.dataAt, time.Now())
		if f.Kind == 'D' {
			s.Log = append(s.Log, TxLogItem{"D", len(f.Data)})
		}
		if name, ok := s.MuxName[f.To]; ok && (f.Kind == 'D' || f.Kind == 'Y') {
			s.Mux = append(s.Mux, MuxItem{map[byte]string{'D': "D", 'Y': "YReq"}[f.Kind], name, 0})
		}
		cb := s.OnFrame
		s.mu.Unlock()
		if cb != nil {
			cb(f)
		}
		var reply *Frame
		switch f.Kind {
		case 'R':
			reply = &Frame{Kind: 'R', Data: []byte{2, 0, 0, 0, 7, 0, 0, 0}}
		case 'g':
			d := make([]byte, 12)
			d[6] = byte(s.MaxFrame)
			reply = &Frame{Port: f.Port, Kind: 'g', Data: d}
		case 'X':
			ok := byte(1)
			if s.RefuseReg {
				ok = 0
			}
			reply = &Frame{Port: f.Port, Kind: 'X', From: f.From, Data: []byte{ok}}
		case 'C', 'v':
			switch s.ConnectReply {
			case "ok", "noise-then-ok":
				if s.ConnectReply == "noise-then-ok" {
					// frames of other kinds about this connection before the answer: an echo of the 'v' request, an unproto frame
					// (spaced out: frames that arrive back to back are dropped - the known finding)
					c.Write(Frame{Port: f.Port, Kind: 'v', From: f.To, To: f.From, Data: []byte{0}}.Encode())
					time.Sleep(60 * time.Millisecond)
					c.Write(Frame{Port: f.Port, Kind: 'U', From: f.To, To: f.From, Data: []byte("1:Fm X To Y <UI pid=F0 Len=1 >[12:00:00]\rx\r")}.Encode())
					time.Sleep(60 * time.Millisecond)
				}
				reply = &Frame{Port: f.Port, Kind: 'C', From: f.To, To: f.From, Data: []byte("*** CONNECTED With Station " + f.To + "\r\x00")}
			case "refuse":
				reply = &Frame{Port: f.Port, Kind: 'd', From: f.To, To: f.From, Data: []byte("*** DISCONNECTED RETRYOUT With " + f.To + "\r\x00")}
			case "precondition":
				reply = &Frame{Port: f.Port, Kind: 'C', From: f.To, To: f.From, Data: []byte("*** CONNECTED To Station " + f.To + "\r\x00")}
			}
		case 'Y':
			if name, ok := s.MuxName[f.To]; ok {
				// the count is taken, logged and written in one step, after the delay (if any)
				f := f
				answer := func() {
					s.mu.Lock()
					defer s.mu.Unlock()
					n := s.outstanding(f.From, f.To)
					s.Mux = append(s.Mux, MuxItem{"YRep", name, n})
					d := make([]byte, 4)
					binary.LittleEndian.PutUint32(d, uint32(n))
					c.Write(Frame{Port: f.Port, Kind: 'Y', From: f.From, To: f.To, Data: d}.Encode())
				}
				if d, ok := s.ReplyDelay["Y"+f.To]; ok {
					go func() { time.Sleep(d); answer() }()
				} else {
					answer()
				}
				continue
			}
			s.mu.Lock()
			n := s.outstanding(f.From, f.To)
			s.Log = append(s.Log, TxLogItem{"Y", n})
			s.mu.Unlock()
			d := make([]byte, 4)
			binary.LittleEndian.PutUint32(d, uint32(n))
			reply = &Frame{Port: f.Port, Kind: 'Y', From: f.From, To: f.To, Data: d}
		case 'd':
			reply = &Frame{Port: f.Port, Kind: 'd', From: f.To, To: f.From, Data: []byte("*** DISCONNECTED From Station " + f.To + "\r\x00")}
		}
		if reply != nil {
			if n, ok := s.ShortReply[reply.Kind]; ok && len(reply.Data) > n {
				reply.Data = reply.Data[:n]
			}
			dk := string(rune(f.Kind))
			if f.Kind == 'Y' {
				dk += f.To
			}
			if d, ok := s.ReplyDelay[dk]; ok {
				b := reply.Encode()
				go func() { time.Sleep(d); c.Write(b) }()
				continue
			}
			c.Write(reply.Encode())
		}
	}
}

// Snapshot returns the frames received so far.
func (s *Sim) Snapshot() ([]Frame, []string) {
	s.mu.Lock()
	defer s.mu.Unlock()
	return append([]Frame(nil), s.Received...), append([]string(nil), s.BadFrames...)
}
