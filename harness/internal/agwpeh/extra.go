package agwpeh

import (
	"bytes"
	"context"
	"fmt"
	"io"
	"net"
	"sync"
	"time"

	"verifharness/internal/rec"

	"github.com/la5nta/wl2k-go/transport/ax25/agwpe"
)

// readAll reads conn until want bytes have arrived, an error, or the deadline.
func readUntil(conn net.Conn, want int, d time.Duration) (got []byte, err error, pan string) {
	done := make(chan struct{})
	var mu sync.Mutex
	go func() {
		defer close(done)
		pan = guard(func() {
			buf := make([]byte, 4096)
			for {
				n, e := conn.Read(buf)
				mu.Lock()
				got = append(got, buf[:n]...)
				k := len(got)
				mu.Unlock()
				if e != nil {
					err = e
					return
				}
				if k >= want {
					return
				}
			}
		})
	}()
	select {
	case <-done:
	case <-time.After(d):
		mu.Lock()
		defer mu.Unlock()
		return append([]byte(nil), got...), fmt.Errorf("Read did not deliver within %v", d), ""
	}
	return got, err, pan
}

// runTwoConn: two connections to different stations are open on the same port at the same time.  Each is its own byte
// stream (frames of the one never reach the other), and each connection's Flush waits for that connection's frames: the
// TNC answers the first station's polls a little late, so that the replies to the second connection's polls (always 0
// outstanding) arrive between a poll of the first and its reply.
func runTwoConn(sc scen) []rec.Event {
	res := &result{}
	sim, err := NewSim()
	if err != nil {
		return []rec.Event{{"op": "Infra", "err": err.Error()}}
	}
	defer sim.Close()
	other := "LA3CCC-2"
	sim.HoldTime = 1200 * time.Millisecond
	sim.ReplyDelay = map[string]time.Duration{"Y" + sc.Target: 60 * time.Millisecond}
	sim.MuxName = map[string]string{sc.Target: "c1", other: "c2"}
	var tp *agwpe.TNCPort
	var openErr error
	pan := guard(func() { tp, openErr = agwpe.OpenPortTCP(sim.Addr(), sc.Port, sc.MyCall) })
	res.add(rec.Event{"op": "Api", "call": "OpenPortTCP", "ok": openErr == nil && pan == "", "panic": pan})
	if openErr != nil || pan != "" || tp == nil {
		return res.evs
	}
	defer func() { guard(func() { tp.Close() }) }()
	dial := func(target string) net.Conn {
		var c net.Conn
		var err error
		ctx, cancel := context.WithTimeout(context.Background(), 4*time.Second)
		pan := guard(func() { c, err = tp.DialContext(ctx, target) })
		cancel()
		res.add(rec.Event{"op": "Api", "call": "Dial/two-connections", "ok": pan == "" && err == nil && c != nil, "panic": pan, "err": fmt.Sprint(err)})
		return c
	}
	c1 := dial(sc.Target)
	c2 := dial(other)
	if c1 == nil || c2 == nil {
		return res.evs
	}
	// inbound: interleaved frames for the two connections, each sent when the previous one has been read (bursts lose
	// frames in the demux pipeline: known finding C13/loss/drop-when-full)
	var want1, want2, got1, got2 []byte
	var e1, e2 error
	var p1, p2 string
	for i, n := range sc.Frames {
		p := patternPayload(i, n)
		if i%2 == 0 {
			want1 = append(want1, p...)
			sim.Send(Frame{Port: sc.Port, Kind: 'D', From: sc.Target, To: sc.MyCall, Data: p}.Encode())
			g, e, pn := readUntil(c1, n, 5*time.Second)
			got1, e1, p1 = append(got1, g...), e, pn
		} else {
			want2 = append(want2, p...)
			sim.Send(Frame{Port: sc.Port, Kind: 'D', From: other, To: sc.MyCall, Data: p}.Encode())
			g, e, pn := readUntil(c2, n, 5*time.Second)
			got2, e2, p2 = append(got2, g...), e, pn
		}
		if e1 != nil || e2 != nil || p1+p2 != "" {
			break
		}
	}
	res.add(rec.Event{"op": "Api", "call": "Read/two-connections", "ok": p1+p2 == "" && e1 == nil && e2 == nil &&
		bytes.Equal(got1, want1) && bytes.Equal(got2, want2), "panic": p1 + p2,
		"err": fmt.Sprintf("first connection: %d of %d bytes (%v), second: %d of %d bytes (%v)", len(got1), len(want1), e1, len(got2), len(want2), e2)})

	// outbound: the first connection writes, the second only polls
	for i, n := range sc.Writes {
		p := patternPayload(100+i, n)
		var k int
		var werr error
		pan = guard(func() { k, werr = c1.Write(p) })
		res.add(rec.Event{"op": "Api", "call": "Write/two-connections", "ok": pan == "" && werr == nil && k == n, "panic": pan, "err": fmt.Sprint(werr)})
	}
	stop := make(chan struct{})
	var wg sync.WaitGroup
	wg.Add(1)
	go func() {
		defer wg.Done()
		f2 := c2.(interface{ Flush() error })
		for {
			select {
			case <-stop:
				return
			default:
			}
			sim.NoteMux("FlushCall", "c2")
			var err error
			if pan := guard(func() { err = f2.Flush() }); pan != "" || err != nil {
				return
			}
			sim.NoteMux("FlushRet", "c2")
			time.Sleep(25 * time.Millisecond)
		}
	}()
	var ferr error
	done := make(chan struct{})
	sim.NoteMux("FlushCall", "c1")
	go func() {
		defer close(done)
		pan = guard(func() { ferr = c1.(interface{ Flush() error }).Flush() })
		if pan == "" && ferr == nil {
			sim.NoteMux("FlushRet", "c1")
		}
	}()
	select {
	case <-done:
		sim.mu.Lock()
		out := sim.outstanding(sc.MyCall, sc.Target)
		sim.mu.Unlock()
		res.add(rec.Event{"op": "Api", "call": "Flush/two-connections", "ok": pan == "" && ferr == nil && out == 0, "panic": pan,
			"err": fmt.Sprintf("Flush = %v while the TNC holds %d unacknowledged frame(s) of this connection", ferr, out), "outstanding": out})
	case <-time.After(10 * time.Second):
		res.add(rec.Event{"op": "Api", "call": "Flush/two-connections", "ok": false, "panic": "", "err": "Flush did not return"})
	}
	close(stop)
	wg.Wait()
	res.add(rec.Event{"op": "MuxLog", "log": sim.MuxLog()})
	guard(func() { c2.Close() })
	guard(func() { c1.Close() })
	return res.evs
}

// runLateReply: a reply from the TNC arrives after the request that asked for it has given up (a version request whose
// answer takes longer than the library's 3 s); the connection that is open on the port keeps working afterwards.
func runLateReply(sc scen) []rec.Event {
	res := &result{}
	sim, err := NewSim()
	if err != nil {
		return []rec.Event{{"op": "Infra", "err": err.Error()}}
	}
	defer sim.Close()
	var tp *agwpe.TNCPort
	var openErr error
	pan := guard(func() { tp, openErr = agwpe.OpenPortTCP(sim.Addr(), sc.Port, sc.MyCall) })
	res.add(rec.Event{"op": "Api", "call": "OpenPortTCP", "ok": openErr == nil && pan == "", "panic": pan})
	if openErr != nil || pan != "" || tp == nil {
		return res.evs
	}
	defer func() { guard(func() { tp.Close() }) }()
	var conn net.Conn
	ctx, cancel := context.WithTimeout(context.Background(), 4*time.Second)
	pan = guard(func() { conn, err = tp.DialContext(ctx, sc.Target) })
	cancel()
	res.add(rec.Event{"op": "Api", "call": "Dial", "ok": pan == "" && err == nil && conn != nil, "panic": pan, "err": fmt.Sprint(err)})
	if conn == nil || err != nil {
		return res.evs
	}
	sim.mu.Lock()
	sim.ReplyDelay = map[string]time.Duration{"R": 3400 * time.Millisecond}
	sim.mu.Unlock()
	t0 := time.Now()
	var perr error
	pan = guard(func() { perr = tp.Ping() })
	// Ping may fail (no answer in time); it must return, and must not panic
	res.add(rec.Event{"op": "Api", "call": "Ping/late-reply", "ok": pan == "", "panic": pan, "err": fmt.Sprint(perr)})
	if d := 3700*time.Millisecond - time.Since(t0); d > 0 {
		time.Sleep(d) // the late answer has arrived by now
	}
	var want, got []byte
	var rerr error
	var rpan string
	for i, n := range sc.Frames {
		p := patternPayload(i, n)
		want = append(want, p...)
		sim.Send(Frame{Port: sc.Port, Kind: 'D', From: sc.Target, To: sc.MyCall, Data: p}.Encode())
		var g []byte
		g, rerr, rpan = readUntil(conn, n, 5*time.Second)
		got = append(got, g...)
		if rerr != nil || rpan != "" {
			break
		}
	}
	res.add(rec.Event{"op": "Api", "call": "Read/after-late-reply", "ok": rpan == "" && rerr == nil && bytes.Equal(got, want), "panic": rpan,
		"err": fmt.Sprintf("%d of %d bytes (%v)", len(got), len(want), rerr)})
	// the remote station disconnects: end of stream
	sim.Send(Frame{Port: sc.Port, Kind: 'd', From: sc.Target, To: sc.MyCall, Data: []byte("*** DISCONNECTED From Station " + sc.Target + "\r\x00")}.Encode())
	_, rerr, rpan = readUntil(conn, 1, 5*time.Second)
	res.add(rec.Event{"op": "Api", "call": "Read/eof-after-late-reply", "ok": rpan == "" && rerr == io.EOF, "panic": rpan, "err": fmt.Sprint(rerr)})
	guard(func() { conn.Close() })
	return res.evs
}
