package agwpeh

import (
	"bytes"
	"context"
	"encoding/json"
	"errors"
	"flag"
	"fmt"
	"io"
	"log"
	"math/rand"
	"net"
	"os"
	"os/exec"
	"strings"
	"sync"
	"time"

	"github.com/la5nta/wl2k-go/transport/ax25/agwpe"

	"verifharness/internal/rec"
)

type scen struct {
	Kind      string   `json:"kind"` // outbound, inbound, accept, malformed
	Port      int      `json:"port"`
	MyCall    string   `json:"mycall"`
	Target    string   `json:"target"`
	Via       []string `json:"via"`
	Writes    []int    `json:"writes"`    // sizes of application writes (outbound)
	Frames    []int    `json:"frames"`    // payload sizes of D frames the TNC sends (inbound / accept)
	Segs      []int    `json:"segs"`      // TCP segment sizes for the TNC->host stream (nil = one write per frame)
	Pace      string   `json:"pace"`      // "paced" (wait for the reader), "gap" (fixed gap), "burst"
	ReadBuf   int      `json:"readbuf"`   // application read buffer size
	ReadWait  int      `json:"readwait"`  // ms the reader stays idle before reading
	GapMs     int      `json:"gapms"`     // gap between frames for pace "gap" (default 25)
	Reverse   bool     `json:"reverse"`   // AGWPE_REVERSE_TO_FROM=true in the library's environment (affects the Y query of inbound connections only)
	DiscAfter bool     `json:"discafter"` // the remote station disconnects right after its last frame; the application reads only afterwards
	ShortY    bool     `json:"shorty"`    // the TNC's replies to Y polls are malformed (2 data bytes) once the application closes
	MaxFrame  int      `json:"maxframe"`  // -1: the TNC reports MAXFRAME 0 in its capabilities reply (default 4)
	Redial    bool     `json:"redial"`    // inbound: after closing, dial the same station again on the same port and receive again
	Foreign   bool     `json:"foreign"`   // interleave frames for other callsigns / ports
	Malform   string   `json:"malform"`
	Reply     string   `json:"reply"` // connect reply: ok, refuse, precondition
}

func guard(f func()) (pan string) {
	defer func() {
		if p := recover(); p != nil {
			pan = fmt.Sprint(p)
		}
	}()
	f()
	return ""
}

type result struct {
	evs []rec.Event
}

func (r *result) add(ev rec.Event) { r.evs = append(r.evs, ev) }

func patternPayload(id, n int) []byte {
	b := make([]byte, n)
	for i := range b {
		b[i] = byte((id*31 + i*7) % 251)
	}
	return b
}

// lockedBuf collects the library's debug log (AGWPE_DEBUG) and the driver's own APP lines in one total order.
type lockedBuf struct {
	mu sync.Mutex
	b  bytes.Buffer
}

func (l *lockedBuf) Write(p []byte) (int, error) {
	l.mu.Lock()
	defer l.mu.Unlock()
	return l.b.Write(p)
}
func (l *lockedBuf) String() string { l.mu.Lock(); defer l.mu.Unlock(); return l.b.String() }

// mechLog turns the captured log into the events AgwpeTrace.tla consumes: Recv i (the TNC read loop read the i-th data
// frame of the connection), Drop (a demux input channel was full), RCall / RRet i (the application's Read call and the
// frame it returned, 0 = none).
func mechLog(text string, sc scen, payloads [][]byte) []map[string]interface{} {
	var evs []map[string]interface{}
	on := false
	nRecv, last := 0, 0
	want := fmt.Sprintf("<- Port: %d. Kind: D. From: %s. To: %s,", sc.Port, sc.Target, sc.MyCall)
	for _, line := range strings.Split(text, "\n") {
		switch {
		case strings.HasPrefix(line, "MARK start"):
			on = true
		case strings.HasPrefix(line, "MARK end"):
			on = false
		case !on:
		case strings.HasPrefix(line, want):
			nRecv++
			evs = append(evs, map[string]interface{}{"op": "Recv", "i": nRecv})
		case strings.HasPrefix(line, "port buffer full - dropping frame"):
			evs = append(evs, map[string]interface{}{"op": "Drop"})
		case strings.HasPrefix(line, "APP call"):
			evs = append(evs, map[string]interface{}{"op": "RCall"})
		case strings.HasPrefix(line, "APP ret "):
			var n int
			var hx string
			fmt.Sscanf(line, "APP ret %d %s", &n, &hx)
			idx := 0
			if n > 0 {
				idx = -1 // bytes that are no frame of this connection
				for i := last; i < len(payloads); i++ {
					if hx == fmt.Sprintf("%x", payloads[i]) {
						idx = i + 1
						last = i + 1
						break
					}
				}
			}
			evs = append(evs, map[string]interface{}{"op": "RRet", "i": idx, "n": n})
		}
	}
	return evs
}

// runScenario runs one schedule with the library's debug log captured; the number of frames the library itself says it
// dropped ("port buffer full - dropping frame") is reported with the outcome.
func runScenario(sc scen, rng *rand.Rand) []rec.Event {
	lb := &lockedBuf{}
	os.Setenv("AGWPE_DEBUG", "1")
	log.SetFlags(0)
	log.SetOutput(lb)
	evs := runScenarioLogged(sc, rng, lb)
	// the dial's cancellation watcher sending a disconnect frame although the harness cancels the dial context only after
	// DialContext has returned (diagnostic)
	dialOK := false
	for _, e := range evs {
		if e["op"] == "Api" && (e["call"] == "Dial" || e["call"] == "Dial/two-connections") && e["ok"] == true && e["err"] == "<nil>" {
			dialOK = true
		}
	}
	return append(evs, rec.Event{"op": "Drops", "n": strings.Count(lb.String(), "port buffer full - dropping frame"), "dialok": dialOK,
		"latecancel": strings.Count(lb.String(), "context cancellation - sending disconnect frame")})
}

func runScenarioLogged(sc scen, rng *rand.Rand, lb *lockedBuf) []rec.Event {
	switch sc.Kind {
	case "twoconn":
		return runTwoConn(sc)
	case "latereply":
		return runLateReply(sc)
	}
	res := &result{}
	if sc.Reverse {
		os.Setenv("AGWPE_REVERSE_TO_FROM", "true")
	}
	// mechanism log: inbound schedules without foreign frames whose reads return whole frames
	mech := sc.Kind == "inbound" && !sc.Foreign
	for _, n := range sc.Frames {
		if n > sc.ReadBuf || n == 0 {
			mech = false
		}
	}
	var mechPayloads [][]byte
	sim, err := NewSim()
	if err != nil {
		return []rec.Event{{"op": "Infra", "err": err.Error()}}
	}
	defer sim.Close()
	sim.ConnectReply = sc.Reply
	if sim.ConnectReply == "" {
		sim.ConnectReply = "ok"
	}
	if sc.MaxFrame == -1 {
		sim.MaxFrame = 0
	}
	var tp *agwpe.TNCPort
	var openErr error
	pan := guard(func() { tp, openErr = agwpe.OpenPortTCP(sim.Addr(), sc.Port, sc.MyCall) })
	res.add(rec.Event{"op": "Api", "call": "OpenPortTCP", "ok": openErr == nil && pan == "", "panic": pan})
	if openErr != nil || pan != "" || tp == nil {
		return res.evs
	}
	defer func() { guard(func() { tp.Close() }) }()

	var conn net.Conn
	switch sc.Kind {
	case "accept":
		var ln net.Listener
		pan = guard(func() { ln, err = tp.Listen() })
		if err != nil || pan != "" {
			res.add(rec.Event{"op": "Api", "call": "Listen", "ok": false, "panic": pan})
			return res.evs
		}
		type acc struct {
			c   net.Conn
			err error
		}
		ch := make(chan acc, 1)
		go func() { c, err := ln.Accept(); ch <- acc{c, err} }()
		time.Sleep(30 * time.Millisecond) // Accept must be waiting, otherwise the library refuses the connection
		if sc.Foreign {
			// a connection to somebody else's callsign on this port must not be accepted
			sim.Send(Frame{Port: sc.Port, Kind: 'C', From: "LA9OTH", To: "LA8ELS", Data: []byte("*** CONNECTED To Station LA8ELS\r\x00")}.Encode())
		}
		sim.Send(Frame{Port: sc.Port, Kind: 'C', From: sc.Target, To: sc.MyCall, Data: []byte("*** CONNECTED To Station " + sc.MyCall + "\r\x00")}.Encode())
		select {
		case a := <-ch:
			conn, err = a.c, a.err
		case <-time.After(3 * time.Second):
			err = fmt.Errorf("Accept did not return")
		}
		ok := err == nil && conn != nil
		remoteOK := ok && strings.HasPrefix(conn.RemoteAddr().String(), sc.Target)
		res.add(rec.Event{"op": "Api", "call": "Accept", "ok": ok && remoteOK, "panic": ""})
		if !ok {
			return res.evs
		}
	default:
		ctx, cancel := context.WithTimeout(context.Background(), 4*time.Second)
		pan = guard(func() { conn, err = tp.DialContext(ctx, sc.Target, sc.Via...) })
		cancel()
		wantOK := sim.ConnectReply == "ok" || sim.ConnectReply == "noise-then-ok"
		res.add(rec.Event{"op": "Api", "call": "Dial", "ok": pan == "" && (err == nil) == wantOK, "panic": pan, "err": fmt.Sprint(err)})
		if err != nil || pan != "" || conn == nil {
			res.tnc(sim, sc, nil, false)
			return res.evs
		}
	}

	var written []byte
	closed := false
	if sc.Kind == "outbound" || len(sc.Writes) > 0 {
		for i, n := range sc.Writes {
			p := patternPayload(i, n)
			var k int
			var werr error
			done := make(chan struct{})
			sim.Note("writeCall", n)
			go func() {
				defer close(done)
				pan = guard(func() { k, werr = conn.Write(p) })
				sim.Note("writeRet", k)
			}()
			select {
			case <-done:
			case <-time.After(8 * time.Second):
				res.add(rec.Event{"op": "Api", "call": "Write", "ok": false, "panic": "", "err": "Write did not return"})
				return res.evs
			}
			// Write returns the number of bytes it accepted or an error
			res.add(rec.Event{"op": "Api", "call": "Write", "ok": pan == "" && ((werr == nil && k == n) || (werr != nil && k <= n)), "panic": pan, "n": k, "want": n, "err": fmt.Sprint(werr)})
			if werr == nil && pan == "" {
				written = append(written, p[:k]...)
			} else {
				break
			}
		}
		if f, ok := conn.(interface{ Flush() error }); ok {
			var ferr error
			done := make(chan struct{})
			sim.Note("flushCall", 0)
			go func() {
				defer close(done)
				pan = guard(func() { ferr = f.Flush() })
				if ferr == nil {
					sim.Note("flushRet", 0) // "everything is out"
				} else {
					sim.Note("flushErr", 0) // a Flush that reports an error claims nothing
				}
			}()
			select {
			case <-done:
				// Flush returns only when the TNC reports no outstanding frames
				sim.mu.Lock()
				out := sim.outstanding("", "")
				sim.mu.Unlock()
				res.add(rec.Event{"op": "Api", "call": "Flush", "ok": pan == "" && ferr == nil && out == 0, "panic": pan, "outstanding": out, "err": fmt.Sprint(ferr)})
			case <-time.After(8 * time.Second):
				res.add(rec.Event{"op": "Api", "call": "Flush", "ok": false, "panic": "", "err": "Flush did not return"})
			}
		}
	}

	if sc.Kind == "inbound" || sc.Kind == "accept" {
		// the TNC sends the connection's data frames (and foreign ones) as scheduled; the application reads
		var want []byte
		var stream []byte
		type piece struct{ b []byte }
		var pieces [][]byte
		for i, n := range sc.Frames {
			p := patternPayload(100+i, n)
			want = append(want, p...)
			if sc.Foreign && i%2 == 0 {
				// frames of another connection on the same port, of the same stations on another port, and an unrelated kind
				pieces = append(pieces, Frame{Port: sc.Port, Kind: 'D', PID: 0xf0, From: "LA9OTH", To: "LA8ELS", Data: []byte("FOREIGN-CALLS")}.Encode())
				pieces = append(pieces, Frame{Port: sc.Port + 1, Kind: 'D', PID: 0xf0, From: sc.Target, To: sc.MyCall, Data: []byte("FOREIGN-PORT")}.Encode())
				pieces = append(pieces, Frame{Port: sc.Port, Kind: 'U', PID: 0xf0, From: sc.Target, To: sc.MyCall, Data: []byte("UNPROTO")}.Encode())
				// stations whose callsigns extend, or are a prefix of, the peer's and our own
				pieces = append(pieces, Frame{Port: sc.Port, Kind: 'D', PID: 0xf0, From: sc.Target + "1", To: sc.MyCall, Data: []byte("FOREIGN-LONGER-PEER")}.Encode())
				pieces = append(pieces, Frame{Port: sc.Port, Kind: 'D', PID: 0xf0, From: strings.SplitN(sc.Target, "-", 2)[0][:len(strings.SplitN(sc.Target, "-", 2)[0])-1], To: sc.MyCall, Data: []byte("FOREIGN-SHORTER-PEER")}.Encode())
				pieces = append(pieces, Frame{Port: sc.Port, Kind: 'D', PID: 0xf0, From: sc.Target, To: sc.MyCall + "-1", Data: []byte("FOREIGN-LONGER-TO")}.Encode())
			}
			pieces = append(pieces, Frame{Port: sc.Port, Kind: 'D', PID: 0xf0, From: sc.Target, To: sc.MyCall, Data: p}.Encode())
		}
		for _, p := range pieces {
			stream = append(stream, p...)
		}
		var payloads [][]byte
		for i, n := range sc.Frames {
			payloads = append(payloads, patternPayload(100+i, n))
		}
		if mech {
			log.Print("MARK start")
			mechPayloads = payloads
		}
		var got []byte
		var mu sync.Mutex
		readDone := make(chan struct{})
		stopRead := make(chan struct{})
		var readPanic string
		go func() {
			defer close(readDone)
			time.Sleep(time.Duration(sc.ReadWait) * time.Millisecond)
			readPanic = guard(func() {
				buf := make([]byte, sc.ReadBuf)
				for {
					conn.SetReadDeadline(time.Now().Add(1200 * time.Millisecond))
					if mech {
						log.Print("APP call")
					}
					n, err := conn.Read(buf)
					if mech {
						log.Printf("APP ret %d %x", n, buf[:n])
					}
					mu.Lock()
					got = append(got, buf[:n]...)
					l := len(got)
					mu.Unlock()
					if l >= len(want)+64 {
						return
					}
					if err != nil {
						// a read deadline that passes while the TNC is still sending (slow segmentation, loaded machine) is
						// not the end of the stream: keep reading until the driver says so
						select {
						case <-stopRead:
							return
						default:
						}
						if errors.Is(err, context.DeadlineExceeded) || os.IsTimeout(err) {
							continue
						}
						return
					}
				}
			})
		}()
		gotLen := func() int { mu.Lock(); defer mu.Unlock(); return len(got) }
		switch sc.Pace {
		case "burst":
			sim.SendSegments(stream, sc.Segs, 0)
		case "gap": // a fixed gap between frames, not waiting for the reader
			for _, p := range pieces {
				sim.SendSegments(p, sc.Segs, 0)
				gap := sc.GapMs
				if gap == 0 {
					gap = 25
				}
				time.Sleep(time.Duration(gap) * time.Millisecond)
			}
		case "gap-then-disc": // frames a few at a time, then the remote's disconnect, all before the application reads
			for _, p := range pieces {
				sim.SendSegments(p, sc.Segs, 0)
				time.Sleep(60 * time.Millisecond)
			}
			sim.Send(Frame{Port: sc.Port, Kind: 'd', From: sc.Target, To: sc.MyCall, Data: []byte("*** DISCONNECTED From Station " + sc.Target + "\r\x00")}.Encode())
		default: // paced: one frame at a time (segmented as planned), the next one only when the reader has caught up
			sentPayload := 0
			for _, p := range pieces {
				sim.SendSegments(p, sc.Segs, 8*time.Millisecond)
				f, _ := readFrame(bytes.NewReader(p))
				if f.Kind == 'D' && f.From == sc.Target && f.To == sc.MyCall && f.Port == sc.Port {
					sentPayload += len(f.Data)
				}
				time.Sleep(12 * time.Millisecond) // one frame at a time: the demux pipeline is never asked to hold two
				for w := 0; w < 150 && gotLen() < sentPayload && sc.ReadWait == 0; w++ {
					time.Sleep(10 * time.Millisecond)
				}
			}
		}
		// let the reader drain, then end
		deadline := time.Now().Add(time.Duration(sc.ReadWait)*time.Millisecond + 2500*time.Millisecond)
		for time.Now().Before(deadline) && gotLen() < len(want) {
			time.Sleep(20 * time.Millisecond)
		}
		if mech {
			log.Print("MARK end")
		}
		close(stopRead)
		if sc.ShortY {
			sim.mu.Lock()
			sim.ShortReply = map[byte]int{'Y': 2}
			sim.mu.Unlock()
		}
		sim.Note("closeCall", 0)
		guard(func() { conn.Close() })
		closed = true
		select {
		case <-readDone:
		case <-time.After(3 * time.Second):
		}
		mu.Lock()
		g := append([]byte(nil), got...)
		mu.Unlock()
		cls := classifyStream(g, want)
		res.add(rec.Event{"op": "Reads", "match": cls == "equal", "class": cls, "got": len(g), "want": len(want), "panic": readPanic,
			"foreign": bytes.Contains(g, []byte("FOREIGN")) || bytes.Contains(g, []byte("UNPROTO"))})
		if sc.Redial {
			// a second connection to the same station on the same port: it must receive its own frames, all of them
			time.Sleep(300 * time.Millisecond)
			var conn2 net.Conn
			ctx, cancel := context.WithTimeout(context.Background(), 4*time.Second)
			pan = guard(func() { conn2, err = tp.DialContext(ctx, sc.Target, sc.Via...) })
			cancel()
			res.add(rec.Event{"op": "Api", "call": "Dial(again)", "ok": pan == "" && err == nil && conn2 != nil, "panic": pan, "err": fmt.Sprint(err)})
			if pan == "" && err == nil && conn2 != nil {
				var want2, got2 []byte
				var mu2 sync.Mutex
				rd2 := make(chan struct{})
				go func() {
					defer close(rd2)
					guard(func() {
						buf := make([]byte, sc.ReadBuf)
						for {
							conn2.SetReadDeadline(time.Now().Add(1200 * time.Millisecond))
							n, err := conn2.Read(buf)
							mu2.Lock()
							got2 = append(got2, buf[:n]...)
							mu2.Unlock()
							if err != nil {
								return
							}
						}
					})
				}()
				for i, n := range sc.Frames {
					p := patternPayload(200+i, n)
					want2 = append(want2, p...)
					sim.Send(Frame{Port: sc.Port, Kind: 'D', PID: 0xf0, From: sc.Target, To: sc.MyCall, Data: p}.Encode())
					time.Sleep(60 * time.Millisecond)
				}
				for dl := time.Now().Add(2 * time.Second); time.Now().Before(dl); time.Sleep(20 * time.Millisecond) {
					mu2.Lock()
					l := len(got2)
					mu2.Unlock()
					if l >= len(want2) {
						break
					}
				}
				guard(func() { conn2.Close() })
				select {
				case <-rd2:
				case <-time.After(3 * time.Second):
				}
				mu2.Lock()
				g2 := append([]byte(nil), got2...)
				mu2.Unlock()
				cls2 := classifyStream(g2, want2)
				res.add(rec.Event{"op": "Reads", "match": cls2 == "equal", "class": cls2 + "(second connection)", "got": len(g2), "want": len(want2), "panic": "", "foreign": false})
			}
		}
	}
	if !closed {
		sim.Note("closeCall", 0)
		var cerr error
		done := make(chan struct{})
		go func() { defer close(done); pan = guard(func() { cerr = conn.Close() }) }()
		select {
		case <-done:
			res.add(rec.Event{"op": "Api", "call": "Close", "ok": pan == "" && cerr == nil, "panic": pan, "err": fmt.Sprint(cerr)})
		case <-time.After(8 * time.Second):
			res.add(rec.Event{"op": "Api", "call": "Close", "ok": false, "panic": "", "err": "Close did not return"})
		}
	}
	time.Sleep(30 * time.Millisecond)
	if mech && mechPayloads != nil {
		res.add(rec.Event{"op": "Mech", "frames": len(sc.Frames), "log": mechLog(lb.String(), sc, mechPayloads)})
	}
	res.tnc(sim, sc, written, true)
	return res.evs
}

// classifyStream compares what was read with what was sent for this connection.
func classifyStream(got, want []byte) string {
	switch {
	case bytes.Equal(got, want):
		return "equal"
	case len(got) < len(want) && bytes.Equal(got, want[:len(got)]):
		return "truncated"
	case len(got) < len(want):
		return "loss"
	case len(got) > len(want) && bytes.Equal(got[:len(want)], want):
		return "extra"
	case len(got) == len(want):
		return "corrupt"
	}
	return "mixed"
}

// tnc judges what the simulated TNC received.
func (r *result) tnc(sim *Sim, sc scen, written []byte, connected bool) {
	frames, bad := sim.Snapshot()
	has := func(kind byte) bool {
		for _, f := range frames {
			if f.Kind == kind {
				return true
			}
		}
		return false
	}
	reg := false
	for _, f := range frames {
		if f.Kind == 'X' && f.From == sc.MyCall && f.Port == sc.Port {
			reg = true
		}
	}
	r.add(rec.Event{"op": "Exchange", "name": "register", "seen": reg})
	if sc.Kind != "accept" {
		conOK := false
		for _, f := range frames {
			if len(sc.Via) == 0 && f.Kind == 'C' && f.From == sc.MyCall && f.To == sc.Target && f.Port == sc.Port {
				conOK = true
			}
			if len(sc.Via) > 0 && f.Kind == 'v' && f.From == sc.MyCall && f.To == sc.Target && f.Port == sc.Port && len(f.Data) == 1+10*len(sc.Via) && int(f.Data[0]) == len(sc.Via) {
				ok := true
				for i, d := range sc.Via {
					if callString(f.Data[1+10*i:1+10*(i+1)]) != d {
						ok = false
					}
				}
				conOK = ok
			}
		}
		r.add(rec.Event{"op": "Exchange", "name": "connect", "seen": conOK})
	}
	if !connected {
		return
	}
	var payload []byte
	wellformed := len(bad) == 0
	for _, f := range frames {
		if !f.Reserved {
			wellformed = false
		}
		if f.Kind == 'D' {
			if f.Port != sc.Port || f.From != sc.MyCall || f.To != sc.Target || f.PID != 0xf0 {
				wellformed = false
			}
			payload = append(payload, f.Data...)
		}
	}
	if sc.Kind == "outbound" || len(sc.Writes) > 0 {
		r.add(rec.Event{"op": "TxLog", "maxframe": sim.MaxFrame, "log": sim.TxLog()})
		r.add(rec.Event{"op": "TncData", "wellformed": wellformed, "payloadOK": bytes.Equal(payload, written), "got": len(payload), "want": len(written)})
		r.add(rec.Event{"op": "Exchange", "name": "poll", "seen": has('Y')})
	}
	disc := false
	for _, f := range frames {
		if f.Kind == 'd' && f.Port == sc.Port && ((f.From == sc.MyCall && f.To == sc.Target) || (f.From == sc.Target && f.To == sc.MyCall)) {
			disc = true
		}
	}
	if sc.Pace == "gap-then-disc" {
		disc = true // the remote station disconnected: there is nothing left for the library to disconnect
	}
	r.add(rec.Event{"op": "Exchange", "name": "disconnect", "seen": disc})
}

// malformed scenarios run in a child process: a crash of the process is the outcome to detect
func runMalformed(kind string) int {
	sim, err := NewSim()
	if err != nil {
		return 2
	}
	defer sim.Close()
	if strings.HasPrefix(kind, "short-reply:") {
		// the TNC's reply to a request (registration, capabilities, connect, outstanding frames) has a truncated data field
		var k byte
		var n int
		fmt.Sscanf(kind, "short-reply:%c:%d", &k, &n)
		sim.ShortReply = map[byte]int{k: n}
	}
	tp, err := agwpe.OpenPortTCP(sim.Addr(), 0, "LA1AAA")
	if err != nil {
		return 3
	}
	dctx, cancel := context.WithTimeout(context.Background(), 3*time.Second)
	defer cancel()
	conn, err := tp.DialContext(dctx, "LA2BBB")
	if err != nil {
		return 3
	}
	good := Frame{Kind: 'D', PID: 0xf0, From: "LA2BBB", To: "LA1AAA", Data: []byte("hello")}.Encode()
	switch kind {
	case "short-header-close":
		sim.Send(good[:20])
		sim.Close()
	case "datalen-too-big-close":
		b := append([]byte(nil), good...)
		b[28] = 200
		sim.Send(b)
		sim.Close()
	case "huge-datalen":
		b := append([]byte(nil), good[:36]...)
		b[28], b[29], b[30], b[31] = 0xff, 0xff, 0xff, 0xff
		sim.Send(b)
		time.Sleep(300 * time.Millisecond)
		sim.Close()
	case "unknown-kinds":
		for _, k := range []byte{'?', 0, 'z', 'K', 'T', 'H'} {
			sim.Send(Frame{Kind: k, From: "LA2BBB", To: "LA1AAA", Data: []byte{1, 2, 3}}.Encode())
		}
	case "garbage":
		g := make([]byte, 500)
		rand.New(rand.NewSource(3)).Read(g)
		g[28], g[29], g[30], g[31] = 10, 0, 0, 0
		sim.Send(g)
	case "connect-during-close":
		// unsolicited inbound connects keep arriving while the application closes the port
		stop := time.Now().Add(400 * time.Millisecond)
		go func() {
			for i := 0; time.Now().Before(stop); i++ {
				sim.Send(Frame{Kind: 'C', From: fmt.Sprintf("LA%dXYZ", i%10), To: "LA1AAA", Data: []byte("*** CONNECTED To Station LA1AAA\r\x00")}.Encode())
				time.Sleep(time.Millisecond)
			}
		}()
		time.Sleep(60 * time.Millisecond)
		tp.Close()
		time.Sleep(500 * time.Millisecond)
		return 0
	case "connects-faster-than-handled":
		// inbound connects (nobody accepts them: each is refused with a disconnect exchange) arrive faster than the port gets
		// done with them, because the TNC takes 150 ms to confirm a disconnect
		sim.mu.Lock()
		sim.ReplyDelay = map[string]time.Duration{"d": 150 * time.Millisecond}
		sim.mu.Unlock()
		stop := time.Now().Add(700 * time.Millisecond)
		for i := 0; time.Now().Before(stop); i++ {
			sim.Send(Frame{Kind: 'C', From: fmt.Sprintf("LA%dXYZ", i%10), To: "LA1AAA", Data: []byte("*** CONNECTED To Station LA1AAA\r\x00")}.Encode())
			time.Sleep(2 * time.Millisecond)
		}
		time.Sleep(400 * time.Millisecond)
		tp.Close()
		time.Sleep(300 * time.Millisecond)
		return 0
	case "bad-replies":
		// wrong data lengths in the replies the library parses
		sim.Send(Frame{Kind: 'Y', From: "LA1AAA", To: "LA2BBB", Data: []byte{1}}.Encode())
		sim.Send(Frame{Kind: 'R', Data: []byte{1}}.Encode())
		sim.Send(Frame{Kind: 'g', Data: []byte{}}.Encode())
		sim.Send(Frame{Kind: 'X', From: "LA1AAA", Data: []byte{}}.Encode())
		sim.Send(Frame{Kind: 'C', From: "LA2BBB", To: "LA1AAA", Data: []byte{}}.Encode())
		sim.Send(Frame{Kind: 'd', From: "LA2BBB", To: "LA1AAA", Data: []byte{}}.Encode())
	}
	time.Sleep(200 * time.Millisecond)
	buf := make([]byte, 4096)
	conn.SetReadDeadline(time.Now().Add(300 * time.Millisecond))
	conn.Read(buf)
	go conn.Write([]byte("x"))
	time.Sleep(300 * time.Millisecond)
	go tp.Close()
	time.Sleep(100 * time.Millisecond)
	return 0
}

// Main is the "agwpe" subcommand.
func Main(args []string) int {
	fs := flag.NewFlagSet("agwpe", flag.ExitOnError)
	out := fs.String("out", "", "trace ndjson")
	n := fs.Int("n", 40, "seeded schedules")
	child := fs.String("child", "", "internal: malformed scenario")
	one := fs.String("one", "", "internal: run one scenario (JSON) and print its events")
	rerun := fs.String("rerun", "", "run only the scenarios of this file (a JSON list), one at a time")
	times := fs.Int("times", 2, "with --rerun: how often each scenario is run")
	fs.Parse(args)
	if *child != "" {
		return runMalformed(*child)
	}
	if *one != "" {
		var sc scen
		if err := json.Unmarshal([]byte(*one), &sc); err != nil {
			return 2
		}
		evs := runScenario(sc, rand.New(rand.NewSource(1)))
		time.Sleep(150 * time.Millisecond) // give the library's goroutines time to finish (or to crash the process)
		b, _ := json.Marshal(evs)
		fmt.Println("EVENTS " + string(b))
		return 0
	}
	rng := rand.New(rand.NewSource(rec.Seed()))
	var scs []scen
	base := scen{Port: 0, MyCall: "LA1AAA", Target: "LA2BBB-7", ReadBuf: 4096, Pace: "paced", Reply: "ok"}
	mk := func(f func(*scen)) { s := base; f(&s); scs = append(scs, s) }
	// outbound: write sizes, ports, digipeaters
	mk(func(s *scen) { s.Kind = "outbound"; s.Writes = []int{1, 100, 255} })
	mk(func(s *scen) { s.Kind = "outbound"; s.Writes = []int{2000}; s.Via = []string{"LD5SK", "LA7X-1"} })
	mk(func(s *scen) { s.Kind = "outbound"; s.Writes = []int{10, 20, 30, 40, 50, 60} })
	mk(func(s *scen) { s.Kind = "outbound"; s.Port = 1; s.Writes = []int{64} })
	mk(func(s *scen) { s.Kind = "outbound"; s.Port = 3; s.Writes = []int{5}; s.Via = []string{"WIDE1-1"} })
	mk(func(s *scen) { s.Kind = "outbound"; s.Reply = "refuse" })
	mk(func(s *scen) { s.Kind = "outbound"; s.Reply = "precondition" })
	// inbound: segmentation of the TNC->host stream, reader buffer sizes, foreign frames
	for _, segs := range [][]int{nil, {1}, {20, 16}, {36}, {35, 1}, {37}, {50}, {7, 300}} {
		segs := segs
		mk(func(s *scen) {
			s.Kind = "inbound"
			s.Frames = []int{5, 64, 1, 200}
			s.Segs = segs
			if len(segs) == 1 && segs[0] == 1 {
				s.Frames = []int{5, 20, 1}
			}
		})
	}
	mk(func(s *scen) { s.Kind = "inbound"; s.Frames = []int{10, 20, 30}; s.Foreign = true })
	mk(func(s *scen) { s.Kind = "inbound"; s.Frames = []int{10, 20, 30}; s.Foreign = true; s.Segs = []int{40} })
	mk(func(s *scen) { s.Kind = "inbound"; s.Frames = []int{200, 256, 100}; s.ReadBuf = 64 })
	mk(func(s *scen) { s.Kind = "inbound"; s.Frames = []int{50, 50}; s.ReadBuf = 1 })
	mk(func(s *scen) { s.Kind = "inbound"; s.Port = 2; s.Frames = []int{33, 44}; s.Segs = []int{13} })
	mk(func(s *scen) { s.Kind = "inbound"; s.Frames = []int{8, 8, 8, 8, 8, 8}; s.Pace = "gap" })
	// a slow reader: three frames, 60 ms apart, wait in the demux pipeline until the application reads
	mk(func(s *scen) {
		s.Kind = "inbound"
		s.Frames = []int{12, 8, 4}
		s.Pace = "gap"
		s.GapMs = 60
		s.ReadWait = 500
	})
	mk(func(s *scen) {
		s.Kind = "inbound"
		s.Frames = []int{30, 30, 30}
		s.Pace = "gap"
		s.GapMs = 60
		s.ReadWait = 500
		s.ReadBuf = 7
	})
	mk(func(s *scen) { s.Kind = "inbound"; s.Target = "LA2BBB"; s.Frames = []int{10, 20, 30}; s.Foreign = true })
	// accept path
	mk(func(s *scen) { s.Kind = "accept"; s.Frames = []int{12, 120} })
	mk(func(s *scen) { s.Kind = "accept"; s.Frames = []int{12, 120}; s.Foreign = true; s.Segs = []int{30, 6} })
	mk(func(s *scen) { s.Kind = "accept"; s.Port = 1; s.Frames = []int{77} })
	mk(func(s *scen) { s.Kind = "accept"; s.Frames = []int{12, 34}; s.Writes = []int{10, 200} })
	mk(func(s *scen) {
		s.Kind = "accept"
		s.Frames = []int{12, 34}
		s.Writes = []int{10, 200}
		s.Reverse = true
	})
	mk(func(s *scen) { s.Kind = "outbound"; s.Writes = []int{10, 200}; s.Reverse = true })
	mk(func(s *scen) {
		s.Kind = "inbound"
		s.Frames = []int{20, 30, 40}
		s.Pace = "gap-then-disc"
		s.ReadWait = 600
		s.ReadBuf = 16
	})
	mk(func(s *scen) { s.Kind = "inbound"; s.Frames = []int{5, 6}; s.Pace = "gap-then-disc"; s.ReadWait = 500 })
	mk(func(s *scen) { s.Kind = "inbound"; s.Frames = []int{9, 9}; s.ShortY = true })
	mk(func(s *scen) { s.Kind = "outbound"; s.Writes = []int{10, 20, 30}; s.MaxFrame = -1 })
	mk(func(s *scen) { s.Kind = "inbound"; s.Frames = []int{4, 4, 5}; s.Redial = true })
	mk(func(s *scen) { s.Kind = "inbound"; s.Frames = []int{40, 30, 20, 10}; s.Redial = true; s.ReadBuf = 16 })
	// bursts with an idle reader: inside and far outside the pipeline's capacity
	mk(func(s *scen) { s.Kind = "inbound"; s.Frames = repeat(16, 3); s.Pace = "burst"; s.ReadWait = 300 })
	mk(func(s *scen) { s.Kind = "inbound"; s.Frames = repeat(16, 10); s.Pace = "burst"; s.ReadWait = 300 })
	mk(func(s *scen) { s.Kind = "inbound"; s.Frames = repeat(16, 40); s.Pace = "burst"; s.ReadWait = 400 })
	// frames of other kinds about the connection while the dial waits for its answer; frames longer than any packet length
	mk(func(s *scen) { s.Kind = "outbound"; s.Writes = []int{10, 20}; s.Reply = "noise-then-ok" })
	mk(func(s *scen) { s.Kind = "inbound"; s.Frames = []int{10, 20}; s.Reply = "noise-then-ok" })
	mk(func(s *scen) { s.Kind = "inbound"; s.Frames = []int{5000, 10, 4097, 4096}; s.ReadBuf = 8192 })
	mk(func(s *scen) { s.Kind = "accept"; s.Frames = []int{70000, 3}; s.ReadBuf = 1000 })
	// two connections on one port at the same time; a reply that arrives after its request gave up
	mk(func(s *scen) { s.Kind = "twoconn"; s.Frames = []int{10, 20, 30, 40, 50}; s.Writes = []int{200} })
	mk(func(s *scen) { s.Kind = "twoconn"; s.Port = 1; s.Frames = []int{255, 1, 255, 1}; s.Writes = []int{10, 20, 30} })
	mk(func(s *scen) { s.Kind = "latereply"; s.Frames = []int{10, 20, 30} })
	// seeded schedules
	for i := 0; i < *n; i++ {
		s := base
		s.Port = []int{0, 0, 1, 2}[rng.Intn(4)]
		switch rng.Intn(3) {
		case 0:
			s.Kind = "outbound"
			for k := 1 + rng.Intn(4); k > 0; k-- {
				s.Writes = append(s.Writes, 1+rng.Intn(600))
			}
			if rng.Intn(3) == 0 {
				s.Via = []string{"LD5SK"}
			}
		default:
			s.Kind = []string{"inbound", "accept"}[rng.Intn(2)]
			for k := 1 + rng.Intn(6); k > 0; k-- {
				s.Frames = append(s.Frames, 1+rng.Intn(256))
			}
			if rng.Intn(2) == 0 {
				s.Segs = []int{1 + rng.Intn(80), 1 + rng.Intn(80)}
			}
			s.Foreign = rng.Intn(3) == 0
			s.ReadBuf = []int{4096, 4096, 300, 100, 17}[rng.Intn(5)]
		}
		scs = append(scs, s)
	}
	malformedKinds := []string{"connects-faster-than-handled", "short-header-close", "datalen-too-big-close", "huge-datalen", "unknown-kinds", "garbage", "bad-replies",
		"short-reply:g:0", "short-reply:g:3", "short-reply:g:6", "short-reply:X:0", "short-reply:R:0", "short-reply:Y:0", "short-reply:Y:2", "short-reply:C:0",
		"connect-during-close", "connect-during-close", "connect-during-close"}
	parallel := 8
	if *rerun != "" {
		// confirmation runs: the given scenarios only, nothing else running beside them
		var given []scen
		b, err := os.ReadFile(*rerun)
		if err != nil || json.Unmarshal(b, &given) != nil {
			fmt.Fprintln(os.Stderr, "cannot read the scenarios to re-run:", err)
			return 2
		}
		scs, malformedKinds, parallel = nil, nil, 1
		for _, g := range given {
			for k := 0; k < *times; k++ {
				if g.Kind == "malformed" {
					malformedKinds = append(malformedKinds, g.Malform)
				} else {
					scs = append(scs, g)
				}
			}
		}
	}
	results := make([][]rec.Event, len(scs))
	selfExe, _ := os.Executable()
	var wg sync.WaitGroup
	sem := make(chan struct{}, parallel)
	for i := range scs {
		wg.Add(1)
		sem <- struct{}{}
		go func(i int) {
			defer wg.Done()
			defer func() { <-sem }()
			// every scenario runs in its own process: a panic in one of the library's goroutines kills the process
			sb, _ := json.Marshal(scs[i])
			cmd := exec.Command(selfExe, "agwpe", "--one", string(sb))
			var stdout, stderr bytes.Buffer
			cmd.Stdout, cmd.Stderr = &stdout, &stderr
			done := make(chan error, 1)
			go func() { done <- cmd.Run() }()
			select {
			case <-done:
			case <-time.After(60 * time.Second):
				cmd.Process.Kill()
				results[i] = []rec.Event{{"op": "Crash", "site": "scenario did not finish within 60 s", "hung": true},
					{"op": "Drops", "n": strings.Count(stderr.String(), "DROP\n"), "dialok": false, "latecancel": 0}}
				return
			}
			for _, l := range strings.Split(stdout.String(), "\n") {
				if strings.HasPrefix(l, "EVENTS ") {
					var evs []rec.Event
					if json.Unmarshal([]byte(l[7:]), &evs) == nil {
						results[i] = evs
						return
					}
				}
			}
			site, fn := "", ""
			lines := strings.Split(stderr.String(), "\n")
			for k, l := range lines {
				if site == "" && (strings.HasPrefix(l, "panic:") || strings.HasPrefix(l, "fatal error:")) {
					site = l
				}
				if fn == "" && strings.HasPrefix(l, "github.com/la5nta/wl2k-go/") {
					fn = strings.TrimPrefix(l, "github.com/la5nta/wl2k-go/")
					if j := strings.LastIndex(fn, "("); j > 0 {
						fn = fn[:j]
					}
					_ = k
				}
			}
			results[i] = []rec.Event{{"op": "Crash", "site": site, "func": fn, "hung": false}}
		}(i)
	}
	wg.Wait()
	w, err := rec.NewWriter(*out)
	if err != nil {
		fmt.Fprintln(os.Stderr, err)
		return 2
	}
	defer w.Close()
	for i, evs := range results {
		w.Write(map[string]interface{}{"scen": scs[i]}, evs)
	}
	// malformed input from the TNC: each in its own process
	self, _ := os.Executable()
	for _, k := range malformedKinds {
		cmd := exec.Command(self, "agwpe", "--child", k)
		cmd.Env = append(os.Environ(), "GOMEMLIMIT=2GiB")
		var stderr bytes.Buffer
		cmd.Stderr = &stderr
		done := make(chan error, 1)
		go func() { done <- cmd.Run() }()
		exit, hung := 0, false
		select {
		case err := <-done:
			if ee, ok := err.(*exec.ExitError); ok {
				exit = ee.ExitCode()
			}
		case <-time.After(20 * time.Second):
			cmd.Process.Kill()
			hung = true
		}
		site := ""
		for _, l := range strings.Split(stderr.String(), "\n") {
			if strings.HasPrefix(l, "panic:") || strings.HasPrefix(l, "fatal error:") {
				site = l
				break
			}
		}
		w.Write(map[string]interface{}{"scen": map[string]string{"kind": "malformed", "malform": k}},
			[]rec.Event{{"op": "Malformed", "case": k, "crashed": exit != 0 && exit != 3, "exit": exit, "hung": hung, "site": site}})
	}
	// the deadlock between the demux and the port's inbound handler (fix 4ae63af) needs the handler to be slow while connects
	// keep arriving: many runs of the case at the same time, more than there are processors
	if *rerun == "" {
		batch := 96
		if *n >= 200 {
			batch = 720
		}
		hangs, crashes := 0, 0
		var mu sync.Mutex
		var wg2 sync.WaitGroup
		sem2 := make(chan struct{}, 48)
		for i := 0; i < batch; i++ {
			wg2.Add(1)
			sem2 <- struct{}{}
			go func() {
				defer wg2.Done()
				defer func() { <-sem2 }()
				cmd := exec.Command(self, "agwpe", "--child", "connect-during-close")
				done := make(chan error, 1)
				go func() { done <- cmd.Run() }()
				select {
				case err := <-done:
					if ee, ok := err.(*exec.ExitError); ok && ee.ExitCode() != 3 {
						mu.Lock()
						crashes++
						mu.Unlock()
					}
				case <-time.After(30 * time.Second):
					cmd.Process.Kill()
					mu.Lock()
					hangs++
					mu.Unlock()
				}
			}()
		}
		wg2.Wait()
		w.Write(map[string]interface{}{"scen": map[string]string{"kind": "malformed", "malform": "connect-during-close"}},
			[]rec.Event{{"op": "Malformed", "case": fmt.Sprintf("connect-during-close (%d runs, 48 at a time)", batch), "crashed": crashes > 0, "exit": crashes, "hung": hangs > 0,
				"site": fmt.Sprintf("%d hung, %d crashed", hangs, crashes)}})
	}
	fmt.Printf("{\"traces\":%d,\"scenarios\":%d}\n", w.Count(), len(scs))
	_ = io.EOF
	return 0
}

func repeat(v, n int) []int {
	out := make([]int, n)
	for i := range out {
		out[i] = v
	}
	return out
}
