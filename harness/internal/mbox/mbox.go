// Package mbox drives a real mailbox.DirHandler through operation sequences dictated by
// Mailbox.tla (graph walks) or generated at random under the model's contract preconditions,
// and records after every operation the complete observation the specification predicts.
package mbox

import (
	"bytes"
	"encoding/json"
	"flag"
	"fmt"
	"math/rand"
	"os"
	"path/filepath"
	"sort"
	"strings"
	"time"

	"github.com/la5nta/wl2k-go/fbb"
	"github.com/la5nta/wl2k-go/mailbox"

	"verifharness/internal/rec"
)

type MsgSpec struct {
	To   []string `json:"to"`
	Cc   []string `json:"cc"`
	P2P  bool     `json:"p2p"`
	Sole string   `json:"sole"`
}

type FwSpec struct {
	Raw  []string `json:"raw"`
	Norm []string `json:"norm"`
}

type Universe struct {
	Name string             `json:"name"`
	Msgs map[string]MsgSpec `json:"msgs"`
	FW   map[string]FwSpec  `json:"fw"`
}

type Op struct {
	Op   string `json:"op"`
	M    string `json:"m"`
	Flag bool   `json:"flag"`
	// Old: SetUnread through the message object of the first listing in which the message was seen (an application that
	// keeps its list while the mailbox changes underneath)
	Old bool `json:"old,omitempty"`
}

type Scenario struct {
	T   int  `json:"t"`
	So  bool `json:"so"`
	Ops []Op `json:"ops"`
}

var fixedDate = time.Date(2020, 2, 3, 4, 5, 0, 0, time.UTC)

// BuildMsg builds the outbound ("out") or inbound ("in") message of the universe with MID mid.
func BuildMsg(u *Universe, mid, role string) *fbb.Message {
	spec := u.Msgs[mid]
	m := fbb.NewMessage(fbb.Private, "LA5NTA")
	m.Header.Set("Mid", mid)
	m.SetDate(fixedDate)
	m.AddTo(spec.To...)
	m.AddCc(spec.Cc...)
	m.SetSubject("subject of " + role + " " + mid)
	if mid == "B" && role == "out" {
		// a message a session would refuse to send (Validate: subject longer than 128 characters) is in the mailbox all the
		// same: what is eligible is the mailbox's business, what is sendable the session's
		m.SetSubject("subject of out B " + strings.Repeat("long ", 26))
	}
	m.SetBody("body of " + role + " message " + mid + "\r\nsecond line æøå\r\n")
	if mid == "B" || mid == "C" {
		// legal but unusual section layouts: an empty attachment in front of a non-empty one
		m.AddFile(fbb.NewFile("empty-"+mid+".dat", nil))
	}
	m.AddFile(fbb.NewFile("f-"+mid+".bin", []byte{0, 1, 2, '\r', '\n', 0xff, byte(len(mid))}))
	if mid == "C" {
		m.AddFile(fbb.NewFile("empty-last.dat", []byte{}))
	}
	if spec.P2P && role == "out" {
		m.Header.Set("X-P2POnly", "true")
	}
	return m
}

func publicBytes(m *fbb.Message) []byte {
	// copy the header without the mailbox-private bookkeeping headers
	cp := *m
	cp.Header = make(fbb.Header)
	for k, v := range m.Header {
		if k == "X-Unread" || k == "X-Filepath" {
			continue
		}
		cp.Header[k] = append([]string(nil), v...)
	}
	b, err := cp.Bytes()
	if err != nil {
		return []byte("ERR:" + err.Error())
	}
	return b
}

type runner struct {
	u       *Universe
	dir     string
	h       *mailbox.DirHandler
	mids    []string
	origIn  map[string][]byte
	origOut map[string][]byte
	// message object of the last SetUnread, reused when the next operation marks the same message again
	nInbound                           int
	lastOp                             Op
	lastHandle, nextHandle, prevHandle *fbb.Message
	old                                map[string]*fbb.Message
	dropHandles                        bool
}

func (r *runner) list(fn func() ([]*fbb.Message, error)) (map[string]*fbb.Message, bool) {
	msgs, err := fn()
	if err != nil {
		return nil, false
	}
	out := make(map[string]*fbb.Message)
	for _, m := range msgs {
		out[m.MID()] = m
	}
	return out, len(out) == len(msgs)
}

func hasPrivate(m *fbb.Message) bool {
	for _, k := range []string{"X-P2POnly", "X-FilePath", "X-Unread"} {
		if m.Header.Get(k) != "" {
			return true
		}
	}
	return false
}

// observe takes the complete projection of the mailbox through the public API.
func (r *runner) observe(prepared bool) map[string]interface{} {
	obs := map[string]interface{}{}
	intact := map[string]bool{}
	for _, m := range r.mids {
		intact[m] = true
	}
	f := map[string]interface{}{}
	in, okIn := r.list(r.h.Inbox)
	out, okOut := r.list(r.h.Outbox)
	sent, okSent := r.list(r.h.Sent)
	_, okArch := r.list(r.h.Archive)
	fo := map[string]string{}
	fi := map[string]string{}
	for _, m := range r.mids {
		_, o := out[m]
		_, s := sent[m]
		switch {
		case !okOut || !okSent:
			fo[m] = "listing-error"
		case o && s:
			fo[m] = "both"
		case o:
			fo[m] = "out"
		case s:
			fo[m] = "sent"
		default:
			fo[m] = "none"
		}
		if o && !bytes.Equal(publicBytes(out[m]), r.origOut[m]) {
			intact[m] = false
		}
		if s && !bytes.Equal(publicBytes(sent[m]), r.origOut[m]) {
			intact[m] = false
		}
		msg, i := in[m]
		switch {
		case !okIn:
			fi[m] = "listing-error"
		case !i:
			fi[m] = "none"
		case mailbox.IsUnread(msg):
			fi[m] = "unread"
		default:
			fi[m] = "read"
		}
		if i && !bytes.Equal(publicBytes(msg), r.origIn[m]) {
			intact[m] = false
		}
	}
	f["out"] = fo
	f["inb"] = fi
	f["nin"] = r.h.InboxCount()
	f["nout"] = r.h.OutboxCount()
	f["nsent"] = r.h.SentCount()
	f["narch"] = r.h.ArchiveCount()
	if !okArch {
		f["narch"] = -2
	}
	obs["f"] = f
	priv := false
	if prepared {
		s := map[string]interface{}{}
		ans := map[string]string{}
		for _, m := range r.mids {
			p := fbb.NewProposal(m, "t", fbb.Wl2kProposal, []byte("x"))
			ans[m] = string([]byte{byte(r.h.GetInboundAnswer(*p))})
		}
		s["ans"] = ans
		elig := map[string]interface{}{}
		for name, fw := range r.u.FW {
			addrs := make([]fbb.Address, 0, len(fw.Raw))
			for _, a := range fw.Raw {
				addrs = append(addrs, fbb.AddressFromString(a))
			}
			got := r.h.GetOutbound(addrs...)
			e := map[string]bool{}
			for _, m := range r.mids {
				e[m] = false
			}
			for _, m := range got {
				if _, known := e[m.MID()]; !known {
					e["?"+m.MID()] = true
					continue
				}
				if e[m.MID()] {
					e["dup:"+m.MID()] = true
				}
				e[m.MID()] = true
				if hasPrivate(m) {
					priv = true
				}
				// what the session would transmit must be the queued message
				if b, err := m.Bytes(); err != nil || !bytes.Equal(stripP2P(b), stripP2P(r.origOut[m.MID()])) {
					intact[m.MID()] = false
				}
			}
			elig[name] = e
		}
		s["elig"] = elig
		obs["s"] = s
	}
	obs["priv"] = priv
	obs["intact"] = intact
	return obs
}

// stripP2P removes the X-P2ponly header line: the handler is allowed (required) to strip it from
// what it offers, so content identity of offered messages is judged modulo that line.
func stripP2P(b []byte) []byte {
	lines := bytes.SplitAfter(b, []byte("\r\n"))
	var out []byte
	for _, l := range lines {
		if bytes.HasPrefix(bytes.ToLower(l), []byte("x-p2ponly:")) {
			continue
		}
		out = append(out, l...)
	}
	return out
}

func (r *runner) apply(op Op) (err error) {
	switch op.Op {
	case "Prepare":
		return r.h.Prepare()
	case "Restart":
		r.h = mailbox.NewDirHandler(r.dir, op.Flag)
		return nil
	case "AddOut":
		return r.h.AddOut(BuildMsg(r.u, op.M, "out"))
	case "SetSent":
		r.h.SetSent(op.M, op.Flag)
		return nil
	case "SetDeferred":
		r.h.SetDeferred(op.M)
		return nil
	case "ProcessInbound":
		r.nInbound++
		if r.nInbound%3 == 0 {
			// handed over together with another message in one call (a batch), the universe's message last; the batch mate is
			// taken out of the inbox again behind the mailbox's back, it is not part of the modelled universe
			mate := fbb.NewMessage(fbb.Private, "LA5NTA")
			mate.Header.Set("Mid", "ZZBATCHMATE1")
			mate.SetDate(fixedDate)
			mate.AddTo("LA1X")
			mate.SetSubject("batch mate")
			mate.SetBody("another message of the same batch\r\n")
			err := r.h.ProcessInbound(mate, BuildMsg(r.u, op.M, "in"))
			os.Remove(filepath.Join(r.dir, "in", "ZZBATCHMATE1.b2f"))
			return err
		}
		return r.h.ProcessInbound(BuildMsg(r.u, op.M, "in"))
	case "SetUnread", "SetUnreadOut":
		fn := r.h.Inbox
		if op.Op == "SetUnreadOut" {
			fn = r.h.Outbox
		}
		// an old message object, for the markings that do not depend on what the object believes about the file: marking
		// unread always rewrites the file, marking read does when the object was loaded unread (marking read through an
		// object that was loaded read returns early in the code: the caller's object decides, not the file)
		if o := r.old[op.Op+op.M]; op.Old && o != nil && (op.Flag || o.Header.Get("X-Unread") != "") {
			r.dropHandles = true // the object of the previous marking no longer knows the state of the file
			return mailbox.SetUnread(o, op.Flag)
		}
		// two markings in a row of the same message use the same loaded message object (no listing in between)
		if r.lastOp.Op == op.Op && r.lastOp.M == op.M && r.lastHandle != nil {
			return mailbox.SetUnread(r.lastHandle, op.Flag)
		}
		msgs, err := fn()
		if err != nil {
			return err
		}
		for _, m := range msgs {
			if m.MID() == op.M {
				r.nextHandle = m
				if r.old == nil {
					r.old = map[string]*fbb.Message{}
				}
				if r.old[op.Op+op.M] == nil {
					if again, err := fn(); err == nil { // its own object, not the one that is used now
						for _, a := range again {
							if a.MID() == op.M {
								r.old[op.Op+op.M] = a
							}
						}
					}
				}
				return mailbox.SetUnread(m, op.Flag)
			}
		}
		return fmt.Errorf("message %s not found in folder", op.M)
	}
	return fmt.Errorf("unknown op %q", op.Op)
}

func newRunner(u *Universe, base string, n int, so bool) (*runner, error) {
	dir := filepath.Join(base, fmt.Sprintf("mb%d", n))
	if err := os.MkdirAll(filepath.Dir(dir), 0755); err != nil {
		return nil, err
	}
	r := &runner{u: u, dir: dir, h: mailbox.NewDirHandler(dir, so), origIn: map[string][]byte{}, origOut: map[string][]byte{}}
	for m := range u.Msgs {
		r.mids = append(r.mids, m)
		r.origIn[m] = publicBytes(BuildMsg(u, m, "in"))
		r.origOut[m] = publicBytes(BuildMsg(u, m, "out"))
	}
	sort.Strings(r.mids)
	return r, nil
}

func safeApply(r *runner, op Op) (err error, panicked string) {
	defer func() {
		if p := recover(); p != nil {
			panicked = fmt.Sprint(p)
		}
	}()
	r.nextHandle = nil
	err = r.apply(op)
	r.lastOp, r.lastHandle = op, r.nextHandle
	if r.nextHandle == nil && (op.Op == "SetUnread" || op.Op == "SetUnreadOut") && err == nil {
		r.lastHandle = r.prevHandle // a reused handle stays usable for a third marking
	}
	r.prevHandle = r.lastHandle
	if r.dropHandles {
		r.lastHandle, r.prevHandle, r.dropHandles = nil, nil, false
	}
	return err, ""
}

// runScenario executes ops on a fresh mailbox and returns the recorded events.
func runScenario(u *Universe, base string, sc Scenario) []rec.Event {
	r, err := newRunner(u, base, sc.T, sc.So)
	if err != nil {
		panic(err)
	}
	defer os.RemoveAll(r.dir)
	prepared := false
	var evs []rec.Event
	for _, op := range sc.Ops {
		err, pan := safeApply(r, op)
		switch op.Op {
		case "Prepare":
			prepared = err == nil
		case "Restart":
			prepared = false
		}
		ev := rec.Event{"op": op.Op, "m": op.M, "flag": op.Flag, "err": err != nil || pan != ""}
		if err != nil {
			ev["errtext"] = err.Error()
		}
		if pan != "" {
			ev["panic"] = pan
		}
		ev["obs"] = r.observe(prepared)
		evs = append(evs, ev)
		if pan != "" {
			break
		}
	}
	return evs
}

// randomScenario generates a history under the model's contract preconditions, tracking only what
// the contract needs (which MIDs were added / are still in the outbox, which are in the inbox).
func randomScenario(u *Universe, rng *rand.Rand, n, length int) Scenario {
	mids := make([]string, 0, len(u.Msgs))
	for m := range u.Msgs {
		mids = append(mids, m)
	}
	sort.Strings(mids)
	sc := Scenario{T: n, So: rng.Intn(4) == 0}
	out, used, inb := map[string]bool{}, map[string]bool{}, map[string]bool{}
	prepared := false
	sc.Ops = append(sc.Ops, Op{Op: "Prepare"})
	prepared = true
	for len(sc.Ops) < length {
		m := mids[rng.Intn(len(mids))]
		switch k := rng.Intn(14); {
		case k == 0:
			sc.Ops = append(sc.Ops, Op{Op: "Prepare"})
			prepared = true
		case k == 1:
			sc.Ops = append(sc.Ops, Op{Op: "Restart", Flag: rng.Intn(4) == 0})
			prepared = false
		case k <= 4:
			if !used[m] {
				sc.Ops = append(sc.Ops, Op{Op: "AddOut", M: m})
				used[m], out[m] = true, true
			}
		case k <= 6:
			if prepared && out[m] {
				sc.Ops = append(sc.Ops, Op{Op: "SetSent", M: m, Flag: rng.Intn(2) == 0})
				delete(out, m)
			}
		case k <= 8:
			if prepared && out[m] {
				sc.Ops = append(sc.Ops, Op{Op: "SetDeferred", M: m})
			}
		case k <= 11:
			if prepared {
				sc.Ops = append(sc.Ops, Op{Op: "ProcessInbound", M: m})
				inb[m] = true
			}
		case k == 12:
			if out[m] {
				sc.Ops = append(sc.Ops, Op{Op: "SetUnreadOut", M: m, Flag: rng.Intn(2) == 0})
			}
		default:
			if inb[m] {
				sc.Ops = append(sc.Ops, Op{Op: "SetUnread", M: m, Flag: rng.Intn(2) == 0, Old: rng.Intn(3) == 0})
				for rng.Intn(3) == 0 { // marked again at once, through the same message object
					sc.Ops = append(sc.Ops, Op{Op: "SetUnread", M: m, Flag: rng.Intn(2) == 0})
				}
			}
		}
	}
	return sc
}

// Main is the "mbox" subcommand.
func Main(args []string) int {
	fs := flag.NewFlagSet("mbox", flag.ExitOnError)
	uni := fs.String("universe", "", "universe json")
	scen := fs.String("scen", "", "scenario ndjson (from the TLC graph); empty = random")
	out := fs.String("out", "", "trace ndjson output")
	random := fs.Int("random", 0, "number of random histories")
	length := fs.Int("len", 200, "length of random histories")
	tmp := fs.String("tmp", "", "scratch directory for mailboxes")
	inflight := fs.String("inflight", "", "file naming the scenario in flight (for crash attribution)")
	fs.Parse(args)

	var u Universe
	b, err := os.ReadFile(*uni)
	if err == nil {
		err = json.Unmarshal(b, &u)
	}
	if err != nil {
		fmt.Fprintln(os.Stderr, "universe:", err)
		return 2
	}
	w, err := rec.NewWriter(*out)
	if err != nil {
		fmt.Fprintln(os.Stderr, err)
		return 2
	}
	defer w.Close()
	var scs []Scenario
	if *scen != "" {
		err = rec.ReadNDJSON(*scen, func(line []byte) error {
			var s Scenario
			if err := json.Unmarshal(line, &s); err != nil {
				return err
			}
			scs = append(scs, s)
			return nil
		})
		if err != nil {
			fmt.Fprintln(os.Stderr, "scenario:", err)
			return 2
		}
	}
	rng := rand.New(rand.NewSource(rec.Seed()))
	for i := 0; i < *random; i++ {
		scs = append(scs, randomScenario(&u, rng, len(scs)+1, *length))
	}
	nops := 0
	for i, sc := range scs {
		sc.T = i + 1
		if *inflight != "" {
			jb, _ := json.Marshal(sc)
			os.WriteFile(*inflight, jb, 0644)
		}
		evs := runScenario(&u, *tmp, sc)
		nops += len(evs)
		w.Write(map[string]interface{}{"so": sc.So, "u": u.Name}, evs)
	}
	if *inflight != "" {
		os.Remove(*inflight)
	}
	fmt.Printf("{\"traces\":%d,\"ops\":%d}\n", len(scs), nops)
	_ = strings.TrimSpace
	return 0
}
