package telneth

import "net/url"

func urlUser(call, pw string) *url.Userinfo { return url.UserPassword(call, pw) }
