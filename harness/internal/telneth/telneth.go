// Package telneth exercises transport/telnet over loopback TCP (C15).
package telneth

import (
	"bytes"
	"context"
	"flag"
	"fmt"
	"io"
	"math/rand"
	"net"
	"os"
	"strings"
	"sync"
	"time"

	"github.com/la5nta/wl2k-go/transport"
	"github.com/la5nta/wl2k-go/transport/telnet"

	"verifharness/internal/rec"
)

func readN(c net.Conn, n int, d time.Duration) []byte {
	c.SetReadDeadline(time.Now().Add(d))
	buf := make([]byte, n)
	got := 0
	for got < n {
		k, err := c.Read(buf[got:])
		got += k
		if err != nil {
			break
		}
	}
	c.SetReadDeadline(time.Time{})
	return buf[:got]
}

func payloadOf(rng *rand.Rand, n int) []byte {
	b := make([]byte, n)
	rng.Read(b)
	return b
}

// libToLib: a dialler of this package against a listener of this package.
func libToLib(rng *rand.Rand, call, pw string, how string) rec.Event {
	ev := rec.Event{"op": "Conn", "kind": "lib-dial/lib-listen/" + how, "call": fmt.Sprintf("%q", call), "established": false, "toAcceptorOK": false, "toDiallerOK": false, "remoteCallOK": false}
	ln, err := telnet.Listen("127.0.0.1:0")
	if err != nil {
		ev["err"] = err.Error()
		return ev
	}
	defer ln.Close()
	type acc struct {
		c   net.Conn
		err error
	}
	ch := make(chan acc, 1)
	go func() { c, err := ln.Accept(); ch <- acc{c, err} }()
	var dc net.Conn
	switch how {
	case "Dial":
		dc, err = telnet.Dial(ln.Addr().String(), call, pw)
	case "DialTimeout":
		dc, err = telnet.DialTimeout(ln.Addr().String(), call, pw, 3*time.Second)
	case "DialTimeout-idle", "DialContext-idle":
		// the connection is used only after the dial deadline has passed: the deadline belongs to the dial, not to the stream
		if how == "DialTimeout-idle" {
			dc, err = telnet.DialTimeout(ln.Addr().String(), call, pw, 400*time.Millisecond)
		} else {
			ctx, cancel := context.WithTimeout(context.Background(), 400*time.Millisecond)
			defer cancel()
			dc, err = telnet.DialContext(ctx, ln.Addr().String(), call, pw)
		}
		if err == nil {
			time.Sleep(600 * time.Millisecond)
		}
	case "DialURL":
		u := &transport.URL{Scheme: "telnet", Host: ln.Addr().String(), Target: "wl2k"}
		u.User = urlUser(call, pw)
		dc, err = transport.DialURL(u)
	default:
		ctx, cancel := context.WithTimeout(context.Background(), 3*time.Second)
		defer cancel()
		dc, err = telnet.DialContext(ctx, ln.Addr().String(), call, pw)
	}
	if err != nil {
		ev["err"] = err.Error()
		return ev
	}
	defer dc.Close()
	var a acc
	select {
	case a = <-ch:
	case <-time.After(3 * time.Second):
		ev["err"] = "Accept did not return"
		return ev
	}
	if a.err != nil || a.c == nil {
		ev["err"] = fmt.Sprint("accept: ", a.err)
		return ev
	}
	defer a.c.Close()
	ev["established"] = true
	p1, p2 := payloadOf(rng, 1+rng.Intn(3000)), payloadOf(rng, 1+rng.Intn(3000))
	var wg sync.WaitGroup
	wg.Add(2)
	go func() { defer wg.Done(); dc.Write(p1) }()
	go func() { defer wg.Done(); a.c.Write(p2) }()
	g1 := readN(a.c, len(p1), 2*time.Second)
	g2 := readN(dc, len(p2), 2*time.Second)
	wg.Wait()
	ev["toAcceptorOK"] = bytes.Equal(g1, p1)
	ev["toDiallerOK"] = bytes.Equal(g2, p2)
	rc := ""
	if x, ok := a.c.(interface{ RemoteCall() string }); ok {
		rc = x.RemoteCall()
	}
	ev["remoteCallOK"] = rc == strings.TrimSpace(call)
	ev["remoteCall"] = fmt.Sprintf("%q", rc)
	return ev
}

// registryDials: two dials through the transport registry (transport.DialURLContext) at the same time, both against servers
// that say nothing; the first has a long deadline, the second a short one and must return by it.
func registryDials(rng *rand.Rand) rec.Event {
	ev := rec.Event{"op": "Dial", "behaviour": "silent (while another dial through the registry waits for its 5 s deadline)", "how": "transport.DialURLContext",
		"deadlineMs": 400, "returned": false, "elapsedMs": 0, "gotConn": false, "streamOK": true}
	silent, err := net.Listen("tcp", "127.0.0.1:0")
	if err != nil {
		ev["err"] = err.Error()
		return ev
	}
	defer silent.Close()
	var conns []net.Conn
	var cmu sync.Mutex
	go func() {
		for {
			c, err := silent.Accept()
			if err != nil {
				return
			}
			cmu.Lock()
			conns = append(conns, c)
			cmu.Unlock()
		}
	}()
	defer func() {
		cmu.Lock()
		for _, c := range conns {
			c.Close()
		}
		cmu.Unlock()
	}()
	u, _ := transport.ParseURL(fmt.Sprintf("telnet://LA5NTA:pw@%s/wl2k", silent.Addr().String()))
	ctx1, cancel1 := context.WithTimeout(context.Background(), 5*time.Second)
	defer cancel1()
	go func() {
		if c, err := transport.DialURLContext(ctx1, u); err == nil {
			c.Close()
		}
	}()
	time.Sleep(150 * time.Millisecond) // the first dial is waiting for its prompt
	ctx2, cancel2 := context.WithTimeout(context.Background(), 400*time.Millisecond)
	defer cancel2()
	done := make(chan struct{})
	start := time.Now()
	go func() {
		if c, err := transport.DialURLContext(ctx2, u); err == nil {
			c.Close()
		}
		close(done)
	}()
	select {
	case <-done:
		ev["returned"] = true
	case <-time.After(4400 * time.Millisecond):
	}
	ev["elapsedMs"] = int(time.Since(start) / time.Millisecond)
	cancel1()
	return ev
}

// sharedDialer: two dials through one Dialer value; a dial_timeout parameter of the first URL is that dial's business only.
func sharedDialer(rng *rand.Rand) rec.Event {
	ev := rec.Event{"op": "Dial", "behaviour": "silent (after a dial with dial_timeout=8s through the same Dialer)", "how": "Dialer.DialURL", "deadlineMs": 700,
		"returned": false, "elapsedMs": 0, "gotConn": false, "streamOK": true}
	good, err := telnet.Listen("127.0.0.1:0")
	if err != nil {
		ev["err"] = err.Error()
		return ev
	}
	defer good.Close()
	go func() {
		for {
			c, err := good.Accept()
			if err != nil {
				return
			}
			c.Close()
		}
	}()
	silent, err := net.Listen("tcp", "127.0.0.1:0")
	if err != nil {
		ev["err"] = err.Error()
		return ev
	}
	defer silent.Close()
	go func() {
		for {
			c, err := silent.Accept()
			if err != nil {
				return
			}
			defer c.Close()
		}
	}()
	d := &telnet.Dialer{Timeout: 700 * time.Millisecond}
	u1, _ := transport.ParseURL(fmt.Sprintf("telnet://LA5NTA:pw@%s/wl2k?dial_timeout=8s", good.Addr().String()))
	if c, err := d.DialURL(u1); err == nil {
		c.Close()
	}
	u2, _ := transport.ParseURL(fmt.Sprintf("telnet://LA5NTA:pw@%s/wl2k", silent.Addr().String()))
	done := make(chan struct{})
	start := time.Now()
	go func() {
		if c, err := d.DialURL(u2); err == nil {
			c.Close()
		}
		close(done)
	}()
	select {
	case <-done:
		ev["returned"] = true
	case <-time.After(4700 * time.Millisecond):
	}
	ev["elapsedMs"] = int(time.Since(start) / time.Millisecond)
	return ev
}

// writeThenClose: the dialler sends a large payload and closes at once; a slow reader on the accepted side still gets all of it.
func writeThenClose(rng *rand.Rand) rec.Event {
	ev := rec.Event{"op": "Conn", "kind": "dialler writes 4 MiB and closes at once", "call": "\"LA5NTA\"", "established": false, "toAcceptorOK": false, "toDiallerOK": true,
		"remoteCallOK": true}
	ln, err := telnet.Listen("127.0.0.1:0")
	if err != nil {
		ev["err"] = err.Error()
		return ev
	}
	defer ln.Close()
	ch := make(chan net.Conn, 1)
	go func() { c, _ := ln.Accept(); ch <- c }()
	d, err := telnet.DialTimeout(ln.Addr().String(), "LA5NTA", "pw", 3*time.Second)
	if err != nil {
		ev["err"] = err.Error()
		return ev
	}
	var a net.Conn
	select {
	case a = <-ch:
	case <-time.After(3 * time.Second):
	}
	if a == nil {
		d.Close()
		ev["err"] = "Accept did not return"
		return ev
	}
	defer a.Close()
	ev["established"] = true
	payload := payloadOf(rng, 4<<20)
	go func() { d.Write(payload); d.Close() }()
	var got []byte
	buf := make([]byte, 64<<10)
	a.SetReadDeadline(time.Now().Add(15 * time.Second))
	for {
		n, err := a.Read(buf)
		got = append(got, buf[:n]...)
		if err != nil {
			break
		}
		time.Sleep(2 * time.Millisecond) // a slow reader
	}
	ev["toAcceptorOK"] = bytes.Equal(got, payload)
	ev["got"], ev["want"] = len(got), len(payload)
	return ev
}

// twoLogins: two stations are logged in to the same listener at the same time; each accepted connection carries its own
// station's stream (and reports its own callsign).
func twoLogins(rng *rand.Rand) rec.Event {
	ev := rec.Event{"op": "Conn", "kind": "two-logins/one-listener", "call": "\"LA1AAA+LA2BBB\"", "established": false, "toAcceptorOK": false, "toDiallerOK": false, "remoteCallOK": false}
	ln, err := telnet.Listen("127.0.0.1:0")
	if err != nil {
		ev["err"] = err.Error()
		return ev
	}
	defer ln.Close()
	type side struct {
		call     string
		d, a     net.Conn
		up, down []byte
	}
	sides := []*side{{call: "LA1AAA"}, {call: "LA2BBB"}}
	for _, s := range sides {
		ch := make(chan net.Conn, 1)
		go func() { c, _ := ln.Accept(); ch <- c }()
		d, err := telnet.DialTimeout(ln.Addr().String(), s.call, "pw", 3*time.Second)
		if err != nil {
			ev["err"] = err.Error()
			return ev
		}
		defer d.Close()
		s.d = d
		select {
		case s.a = <-ch:
		case <-time.After(3 * time.Second):
		}
		if s.a == nil {
			ev["err"] = "Accept did not return for " + s.call
			return ev
		}
		defer s.a.Close()
		s.up, s.down = payloadOf(rng, 500+rng.Intn(500)), payloadOf(rng, 500+rng.Intn(500))
	}
	ev["established"] = true
	// both stations talk only after both are logged in; the second one first
	for i := len(sides) - 1; i >= 0; i-- {
		s := sides[i]
		go s.d.Write(s.up)
		go s.a.Write(s.down)
	}
	okUp, okDown, okCall := true, true, true
	for _, s := range sides {
		okUp = okUp && bytes.Equal(readN(s.a, len(s.up), 2*time.Second), s.up)
		okDown = okDown && bytes.Equal(readN(s.d, len(s.down), 2*time.Second), s.down)
		rc := ""
		if x, ok := s.a.(interface{ RemoteCall() string }); ok {
			rc = x.RemoteCall()
		}
		okCall = okCall && rc == s.call
	}
	ev["toAcceptorOK"], ev["toDiallerOK"], ev["remoteCallOK"] = okUp, okDown, okCall
	return ev
}

// rawToAccept: a raw TCP client segments the login and the payload as planned.
func rawToAccept(rng *rand.Rand, call, pw string, plan []string, gaps bool) rec.Event {
	ev := rec.Event{"op": "Conn", "kind": "raw-client/lib-accept", "plan": plan, "gaps": gaps, "call": fmt.Sprintf("%q", call), "established": false, "toAcceptorOK": false,
		"toDiallerOK": false, "remoteCallOK": false}
	ln, err := telnet.Listen("127.0.0.1:0")
	if err != nil {
		ev["err"] = err.Error()
		return ev
	}
	defer ln.Close()
	type acc struct {
		c   net.Conn
		err error
	}
	ch := make(chan acc, 1)
	go func() { c, err := ln.Accept(); ch <- acc{c, err} }()
	c, err := net.Dial("tcp", ln.Addr().String())
	if err != nil {
		ev["err"] = err.Error()
		return ev
	}
	defer c.Close()
	payload := payloadOf(rng, 20+rng.Intn(200))
	stream := []byte(call + "\r" + pw + "\r")
	stream = append(stream, payload...)
	// plan: fractions of the stream written per TCP write
	off := 0
	for i, part := range plan {
		var n int
		switch part {
		case "call":
			n = len(call) + 1
		case "pw":
			n = len(pw) + 1
		case "call+pw":
			n = len(call) + len(pw) + 2
		case "pw+payload":
			n = len(pw) + 1 + len(payload)
		case "all":
			n = len(stream)
		case "payload", "rest":
			n = len(stream) - off
		case "half":
			n = (len(stream) - off + 1) / 2
		case "one":
			n = 1
		}
		if off+n > len(stream) {
			n = len(stream) - off
		}
		if n > 0 {
			c.Write(stream[off : off+n])
			off += n
		}
		if gaps && i < len(plan)-1 {
			time.Sleep(25 * time.Millisecond)
		}
	}
	if off < len(stream) {
		c.Write(stream[off:])
	}
	var a acc
	select {
	case a = <-ch:
	case <-time.After(3 * time.Second):
		ev["err"] = "Accept did not return"
		return ev
	}
	if a.err != nil || a.c == nil {
		ev["err"] = fmt.Sprint("accept: ", a.err)
		return ev
	}
	defer a.c.Close()
	ev["established"] = true
	got := readN(a.c, len(payload), 1500*time.Millisecond)
	ev["toAcceptorOK"] = bytes.Equal(got, payload)
	ev["got"], ev["want"] = len(got), len(payload)
	// the other direction: the raw client reads what the acceptor's application writes (after the two prompts)
	p2 := payloadOf(rng, 100)
	a.c.Write(p2)
	c.SetReadDeadline(time.Now().Add(1500 * time.Millisecond))
	all, _ := io.ReadAll(io.LimitReader(c, int64(len("Callsign :\rPassword :\r")+len(p2))))
	ev["toDiallerOK"] = bytes.HasSuffix(all, p2)
	rc := ""
	if x, ok := a.c.(interface{ RemoteCall() string }); ok {
		rc = x.RemoteCall()
	}
	ev["remoteCallOK"] = rc == strings.TrimSpace(call)
	return ev
}

// dialAgainst: the library dials a raw TCP server with the given behaviour.
func dialAgainst(rng *rand.Rand, behaviour string, deadline time.Duration, how string) rec.Event {
	password := "pw"
	if behaviour == "stops-reading" {
		password = strings.Repeat("0123456789abcdef", 1<<20) // 16 MiB: more than the socket buffers hold
	}
	ev := rec.Event{"op": "Dial", "behaviour": behaviour, "how": how, "deadlineMs": int(deadline / time.Millisecond), "returned": false, "elapsedMs": 0, "gotConn": false, "streamOK": false}
	ln, err := net.Listen("tcp", "127.0.0.1:0")
	if err != nil {
		ev["err"] = err.Error()
		return ev
	}
	defer ln.Close()
	payload := payloadOf(rng, 50+rng.Intn(100))
	stop := make(chan struct{})
	defer close(stop)
	go func() {
		c, err := ln.Accept()
		if err != nil {
			return
		}
		defer c.Close()
		rd := make([]byte, 256)
		readLine := func() {
			c.SetReadDeadline(time.Now().Add(2 * time.Second))
			for {
				n, err := c.Read(rd)
				if err != nil || bytes.Contains(rd[:n], []byte("\r")) {
					return
				}
			}
		}
		switch behaviour {
		case "silent":
			<-stop
		case "partial-prompt":
			c.Write([]byte("Callsi"))
			<-stop
		case "garbage":
			g := make([]byte, 300)
			for i := range g {
				g[i] = byte(33 + rng.Intn(90))
			}
			c.Write(g)
			<-stop
		case "close-early":
			c.Write([]byte("Callsign :\r"))
		case "stops-reading":
			// prompts, then never reads again but keeps the connection open: the dialler's (huge) reply cannot be written
			c.Write([]byte("Callsign :\r"))
			readLine()
			c.Write([]byte("Password :\r"))
			<-stop
		case "trickle-banner", "trickle-callsign-prompt":
			// CR terminated lines that never complete the login, one every 100 ms for as long as the dialler stays
			line := "*** node banner, please wait\r"
			if behaviour == "trickle-callsign-prompt" {
				line = "Callsign :\r"
			}
			go io.Copy(io.Discard, c)
			for i := 0; i < 80; i++ {
				if _, err := c.Write([]byte(line)); err != nil {
					break
				}
				select {
				case <-stop:
					return
				case <-time.After(100 * time.Millisecond):
				}
			}
		case "stall-after-callsign":
			c.Write([]byte("Callsign :\r"))
			readLine()
			<-stop
		case "normal":
			c.Write([]byte("Callsign :\r"))
			readLine()
			c.Write([]byte("Password :\r"))
			readLine()
			c.Write(payload)
			<-stop
		case "split-prompts":
			for _, s := range []string{"Call", "sign", " :\r"} {
				c.Write([]byte(s))
				time.Sleep(15 * time.Millisecond)
			}
			readLine()
			for _, s := range []string{"Pass", "word :", "\r"} {
				c.Write([]byte(s))
				time.Sleep(15 * time.Millisecond)
			}
			readLine()
			c.Write(payload)
			<-stop
		case "coalesced-payload":
			// the server pipelines: password prompt and its first application bytes leave in one segment
			c.Write([]byte("Callsign :\r"))
			readLine()
			c.Write(append([]byte("Password :\r"), payload...))
			<-stop
		case "short-lines-first", "short-line-silent":
			// lines shorter than any prompt, blank lines, a bare prompt character - then the login, or nothing
			c.Write([]byte("\r\nHi\r\r>\rok\r \r"))
			if behaviour == "short-line-silent" {
				<-stop
				return
			}
			c.Write([]byte("Callsign :\r"))
			readLine()
			c.Write([]byte("Pw\rPassword :\r"))
			readLine()
			c.Write(payload)
			<-stop
		case "motd-first":
			c.Write([]byte("Welcome to the node\rType your\rCallsign :\r"))
			readLine()
			c.Write([]byte("Password :\r"))
			readLine()
			c.Write(payload)
			<-stop
		}
	}()
	type res struct {
		c   net.Conn
		err error
	}
	ch := make(chan res, 1)
	start := time.Now()
	go func() {
		var c net.Conn
		var err error
		defer func() {
			if p := recover(); p != nil { // neither a connection nor an error
				ch <- res{nil, fmt.Errorf("panic: %v", p)}
			}
		}()
		switch how {
		case "DialTimeout":
			c, err = telnet.DialTimeout(ln.Addr().String(), "LA5NTA", password, deadline)
		case "DialURLContext":
			ctx, cancel := context.WithTimeout(context.Background(), deadline)
			defer cancel()
			u := &transport.URL{Scheme: "telnet", Host: ln.Addr().String(), Target: "wl2k"}
			u.User = urlUser("LA5NTA", "pw")
			c, err = telnet.DefaultDialer.DialURLContext(ctx, u)
		case "dial_timeout":
			u, e := transport.ParseURL(fmt.Sprintf("telnet://LA5NTA:pw@%s/wl2k?dial_timeout=%dms", ln.Addr().String(), deadline/time.Millisecond))
			if e != nil {
				err = e
				break
			}
			d := telnet.Dialer{}
			c, err = d.DialURL(u)
		default:
			ctx, cancel := context.WithTimeout(context.Background(), deadline)
			defer cancel()
			c, err = telnet.DialContext(ctx, ln.Addr().String(), "LA5NTA", password)
		}
		ch <- res{c, err}
	}()
	select {
	case r := <-ch:
		ev["returned"] = true
		ev["elapsedMs"] = int(time.Since(start) / time.Millisecond)
		if r.err != nil {
			ev["err"] = r.err.Error()
			if strings.HasPrefix(ev["err"].(string), "panic: ") {
				ev["returned"], ev["panic"] = false, ev["err"]
			}
		}
		if r.c != nil && r.err == nil {
			ev["gotConn"] = true
			if behaviour == "stops-reading" {
				// the server never completes the login and sends nothing: only the time of the return is judged
				ev["streamOK"], ev["got"], ev["want"] = true, 0, 0
				r.c.Close()
				break
			}
			got := readN(r.c, len(payload), 1500*time.Millisecond)
			ev["streamOK"] = bytes.Equal(got, payload)
			ev["got"], ev["want"] = len(got), len(payload)
			r.c.Close()
		}
	case <-time.After(deadline + 4*time.Second):
		ev["elapsedMs"] = int(time.Since(start) / time.Millisecond)
	}
	return ev
}

// Main is the "telnet" subcommand.
func Main(args []string) int {
	fs := flag.NewFlagSet("telnet", flag.ExitOnError)
	out := fs.String("out", "", "trace ndjson")
	n := fs.Int("n", 40, "lib-to-lib logins")
	fs.Parse(args)
	rng := rand.New(rand.NewSource(rec.Seed()))
	w, err := rec.NewWriter(*out)
	if err != nil {
		fmt.Fprintln(os.Stderr, err)
		return 2
	}
	defer w.Close()
	var mu sync.Mutex
	var wg sync.WaitGroup
	sem := make(chan struct{}, 16)
	emit := func(f func(*rand.Rand) rec.Event) {
		seed := rng.Int63()
		wg.Add(1)
		sem <- struct{}{}
		go func() {
			defer wg.Done()
			defer func() { <-sem }()
			// a scenario that does not finish within 30 s is an outcome (a hang), not a reason to wait for ever
			evc := make(chan rec.Event, 1)
			go func() { evc <- f(rand.New(rand.NewSource(seed))) }()
			var ev rec.Event
			select {
			case ev = <-evc:
			case <-time.After(30 * time.Second):
				ev = rec.Event{"op": "Conn", "kind": "scenario did not finish", "call": "\"\"", "established": false, "toAcceptorOK": false, "toDiallerOK": false,
					"remoteCallOK": false, "err": "the scenario hung for 30 s"}
			}
			mu.Lock()
			w.Write(nil, []rec.Event{ev})
			mu.Unlock()
		}()
	}
	calls := []string{"LA5NTA", "la5nta-7", "N0CALL", "A", "", "call with space", "blåbær", strings.Repeat("X", 1000), "tab\tcall", "a@b.c", "LA5NTA%Test", "%s%d%%"}
	pws := []string{"CMSTelnet", "", "pass word", "pässword", strings.Repeat("p", 1000), "x", "100%", "%v%n%", strings.Repeat("4k", 2048), strings.Repeat("L", 20000)}
	hows := []string{"Dial", "DialTimeout", "DialContext", "DialURL", "DialTimeout-idle", "DialContext-idle"}
	for i := 0; i < *n; i++ {
		call, pw, how := calls[i%len(calls)], pws[(i/2)%len(pws)], hows[i%len(hows)]
		if how == "DialURL" && (strings.ContainsAny(call, " \t") || len(call) > 100 || len(pw) > 1000) {
			how = "DialContext"
		}
		emit(func(r *rand.Rand) rec.Event { return libToLib(r, call, pw, how) })
	}
	plans := [][]string{{"call", "pw", "payload"}, {"all"}, {"call", "pw+payload"}, {"call+pw", "payload"}, {"half", "half", "rest"}, {"one", "one", "one", "rest"},
		{"call", "one", "rest"}, {"half", "rest"}}
	for pi, plan := range plans {
		for _, gaps := range []bool{true, false} {
			for ci := 0; ci < 3; ci++ {
				call, pw, plan, gaps := calls[(pi+ci)%4], pws[(pi+ci)%4], plan, gaps
				if pw == "" {
					pw = "x"
				}
				emit(func(r *rand.Rand) rec.Event { return rawToAccept(r, call, pw, plan, gaps) })
			}
		}
	}
	for _, how := range []string{"DialTimeout", "DialContext"} {
		how := how
		emit(func(r *rand.Rand) rec.Event { return dialAgainst(r, "stops-reading", 700*time.Millisecond, how) })
	}
	emit(func(r *rand.Rand) rec.Event { return twoLogins(r) })
	emit(func(r *rand.Rand) rec.Event { return twoLogins(r) })
	emit(func(r *rand.Rand) rec.Event { return sharedDialer(r) })
	emit(func(r *rand.Rand) rec.Event { return registryDials(r) })
	emit(func(r *rand.Rand) rec.Event { return writeThenClose(r) })
	behaviours := []string{"trickle-banner", "trickle-callsign-prompt", "silent", "partial-prompt", "garbage", "close-early", "stall-after-callsign", "normal", "split-prompts", "coalesced-payload", "motd-first", "short-lines-first", "short-line-silent"}
	dhows := []string{"DialContext", "DialTimeout", "DialURLContext", "dial_timeout"}
	for bi, b := range behaviours {
		for hi, how := range dhows {
			b, how := b, how
			d := time.Duration(150+50*((bi+hi)%6)) * time.Millisecond
			if b == "normal" || b == "split-prompts" || b == "coalesced-payload" || b == "motd-first" || b == "short-lines-first" {
				d = 1500 * time.Millisecond
			}
			emit(func(r *rand.Rand) rec.Event { return dialAgainst(r, b, d, how) })
		}
	}
	wg.Wait()
	fmt.Printf("{\"traces\":%d}\n", w.Count())
	return 0
}
