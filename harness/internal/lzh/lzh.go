// Package lzh drives the real lzhuf Writer/Reader (C06, C07, C08) and prepares / consumes the batch jobs that the
// TLA+ reference codec (spec/lzhuf/Lzhuf.tla, evaluated by TLC) decodes and encodes.
//
// There is no LZHUF implementation in this harness: the only codec besides the library's is the specification.
// What is here: input families, write/read schedules, an LZ77 *parser* (it only chooses literal/match tokens; whether
// they are valid and how they are coded is decided by the specification), CRC-16/XMODEM (bitwise) for the B2 header.
package lzh

import (
	"bytes"
	"encoding/binary"
	"encoding/json"
	"errors"
	"flag"
	"fmt"
	"io"
	"math/rand"
	"os"
	"strings"
	"sync"
	"testing/iotest"

	"github.com/la5nta/wl2k-go/lzhuf"

	"verifharness/internal/rec"
)

func crc16x(p []byte) uint16 {
	var crc uint16
	for _, b := range p {
		crc ^= uint16(b) << 8
		for i := 0; i < 8; i++ {
			if crc&0x8000 != 0 {
				crc = crc<<1 ^ 0x1021
			} else {
				crc <<= 1
			}
		}
	}
	return crc
}

type input struct {
	name string
	data []byte
}

// families generates the input families of C06 (seeded; sizes scaled by tier).
func families(rng *rand.Rand, thorough bool) []input {
	var in []input
	add := func(name string, d []byte) { in = append(in, input{name, d}) }
	add("empty", nil)
	// exhaustive short strings over {a, b, space}
	maxLen := 6
	if thorough {
		maxLen = 9
	}
	alpha := []byte("ab ")
	var gen func(prefix []byte, n int)
	gen = func(prefix []byte, n int) {
		if len(prefix) > 0 {
			add("short", append([]byte(nil), prefix...))
		}
		if n == 0 {
			return
		}
		for _, c := range alpha {
			gen(append(prefix, c), n-1)
		}
	}
	gen(nil, maxLen)
	// text that begins with the byte the window is pre-filled with (blanks: indented text), with more blank runs inside: the
	// first matches point into the pre-filled part of the window
	for i, lead := range []int{2, 3, 4, 8, 2, 4} {
		n := 30 + 17*i
		b := bytes.Repeat([]byte{' '}, lead)
		for len(b) < n {
			b = append(b, "ab  \n"[rng.Intn(5)])
		}
		add(fmt.Sprintf("blank-lead-%d-%d", lead, n), b)
	}
	add("blank-lead-code", []byte("    if x {\n        y = 1\n    } else {\n        y =  2\n    }\n    return y\n"))
	// periodic strings with periods around 1, 2, 3, F and N
	for _, p := range []int{1, 2, 3, 59, 60, 61, 2047, 2048, 2049} {
		unit := make([]byte, p)
		for i := range unit {
			unit[i] = byte(33 + rng.Intn(90))
		}
		n := 3*p + 7
		if n < 300 {
			n = 300
		}
		d := make([]byte, n)
		for i := range d {
			d[i] = unit[i%p]
		}
		add(fmt.Sprintf("period-%d", p), d)
	}
	// window-boundary shapes: a block, then distance-N / N-1 / N+1 repeats, and 60-byte patterns ending at the wrap
	for _, gap := range []int{1987, 1988, 1989, 2047, 2048, 2049} {
		blk := make([]byte, 70)
		rng.Read(blk)
		fill := make([]byte, gap)
		for i := range fill {
			fill[i] = byte(97 + rng.Intn(3))
		}
		add(fmt.Sprintf("repeat-at-%d", gap), append(append(append([]byte(nil), blk...), fill...), blk...))
	}
	for off := 55; off <= 62; off++ { // zero runs that straddle ring positions around N-1 (the lookahead mirror)
		d := make([]byte, off)
		for i := range d {
			d[i] = byte(65 + rng.Intn(20))
		}
		d = append(d, bytes.Repeat([]byte{0}, 60)...)
		d = append(d, 'Z', 'Y')
		add(fmt.Sprintf("zero60-at-%d", off), d)
		d2 := append(bytes.Repeat([]byte{'q'}, 2048), d...)
		add(fmt.Sprintf("zero60-at-2048+%d", off), d2)
	}
	// runs (match length 60 chains), incl. lengths around F and N
	for _, n := range []int{1, 2, 3, 59, 60, 61, 62, 119, 120, 121, 2047, 2048, 2049, 2107, 2108, 2109, 5000} {
		add(fmt.Sprintf("run-a-%d", n), bytes.Repeat([]byte{'a'}, n))
		add(fmt.Sprintf("run-sp-%d", n), bytes.Repeat([]byte{' '}, n))
		add(fmt.Sprintf("run-nul-%d", n), bytes.Repeat([]byte{0}, n))
	}
	// inputs that end inside a repetition which the stale contents of the lookahead buffer would continue: texts ending
	// in blanks (the initial window fill), short inputs ending in NULs, long inputs ending inside a pattern whose period
	// divides the window size
	for _, n := range []int{61, 200, 1000, 1988} {
		var sb strings.Builder
		for sb.Len() < n-5 {
			sb.WriteString([]string{"winlink ", "radio ", "message ", "de LA5NTA ", "73 "}[rng.Intn(5)])
		}
		for _, tail := range []int{3, 5, 40} {
			add(fmt.Sprintf("blank-tail-%d-%d", n, tail), []byte(sb.String()[:n-5]+strings.Repeat(" ", tail)))
		}
	}
	for _, n := range []int{10, 40, 59} {
		add(fmt.Sprintf("nul-tail-%d", n), append(bytes.Repeat([]byte{'k'}, n-6), 0, 0, 0, 0, 0, 0))
	}
	for _, p := range []int{2, 4, 8} {
		d := make([]byte, 2048+333)
		for i := range d {
			d[i] = byte('A' + i%p)
		}
		add(fmt.Sprintf("pattern-tail-%d", p), d)
	}
	// random, text, binary with structure
	sizes := []int{1, 2, 10, 61, 500, 4000, 20000}
	if thorough {
		sizes = append(sizes, 100000, 400000)
	}
	words := strings.Fields("the quick brown fox jumps over the lazy dog winlink radio message de LA5NTA 73 and a of to in is that it for")
	for _, n := range sizes {
		d := make([]byte, n)
		rng.Read(d)
		add(fmt.Sprintf("random-%d", n), d)
		var sb strings.Builder
		for sb.Len() < n {
			sb.WriteString(words[rng.Intn(len(words))])
			if rng.Intn(10) == 0 {
				sb.WriteString("\r\n")
			} else {
				sb.WriteByte(' ')
			}
		}
		add(fmt.Sprintf("text-%d", n), []byte(sb.String()[:n]))
		// skewed: few symbols, drives frequencies up (tree rebuild after 32768 symbols)
		sk := make([]byte, n)
		for i := range sk {
			if rng.Intn(50) == 0 {
				sk[i] = byte(rng.Intn(256))
			} else {
				sk[i] = "eE"[rng.Intn(2)]
			}
		}
		add(fmt.Sprintf("skewed-%d", n), sk)
	}
	// more than 32768 *symbols* (incompressible data: one symbol per byte): adaptive tree rebuild
	big := make([]byte, 70000)
	rng.Read(big)
	add("rebuild-70000", big)
	// a rebuild with 0x00 frequent and 0x01 rare but present before and after it (the two lowest leaves of the tree)
	sk01 := make([]byte, 48000)
	for i := range sk01 {
		switch v := rng.Intn(100); {
		case v < 30:
			sk01[i] = 0
		case v < 31:
			sk01[i] = 1
		default:
			sk01[i] = byte(2 + rng.Intn(254))
		}
	}
	add("rebuild-skew01-48000", sk01)
	return in
}

// partitions returns write partitions of n bytes (lists of chunk sizes), incl. the pre-fill boundary 59/60/61.
func partitions(n int, rng *rand.Rand, exhaustive bool) [][]int {
	out := [][]int{{n}}
	if n == 0 {
		return [][]int{{}, {0}, {0, 0}}
	}
	if exhaustive && n <= 5 {
		// all compositions of n
		var rec func(rem int, cur []int)
		rec = func(rem int, cur []int) {
			if rem == 0 {
				out = append(out, append([]int(nil), cur...))
				return
			}
			for k := 1; k <= rem; k++ {
				rec(rem-k, append(cur, k))
			}
		}
		out = nil
		rec(n, nil)
		return out
	}
	ones := make([]int, n)
	for i := range ones {
		ones[i] = 1
	}
	if n <= 2500 {
		out = append(out, ones)
	}
	for _, first := range []int{1, 10, 20, 59, 60, 61} {
		if first < n {
			out = append(out, []int{first, n - first})
			if first+40 < n {
				out = append(out, []int{first, 40, n - first - 40})
			}
		}
	}
	// random partition
	var rp []int
	for rem := n; rem > 0; {
		k := 1 + rng.Intn(min(rem, 1+rng.Intn(200)))
		rp = append(rp, k)
		rem -= k
	}
	out = append(out, rp)
	return out
}

func min(a, b int) int {
	if a < b {
		return a
	}
	return b
}

func compressParts(data []byte, parts []int, crc bool) ([]byte, error) {
	var b bytes.Buffer
	w := lzhuf.NewWriter(&b, crc)
	off := 0
	for _, k := range parts {
		if _, err := w.Write(data[off : off+k]); err != nil {
			return nil, err
		}
		off += k
	}
	if off != len(data) {
		w.Write(data[off:])
	}
	if err := w.Close(); err != nil {
		return nil, err
	}
	return b.Bytes(), nil
}

func errClass(err error) string {
	switch {
	case err == nil:
		return "nil"
	case err == io.EOF:
		return "eof"
	}
	return "other"
}

// readSession reads stream with the given buffer-size schedule and records Open/Read/Close events.
// plain != nil means the stream is known to be the canonical coding of plain.
func readSession(stream []byte, crc bool, sched []int, plain []byte, valid bool, hdrOK bool, decl int, canon func(got []byte) bool) (evs []rec.Event, got []byte, closeErr error) {
	return readSessionStop(stream, crc, sched, plain, valid, hdrOK, decl, canon, -1)
}

// srcChunk > 0: the compressed stream reaches the Reader through a source that returns at most srcChunk bytes per Read
// (a network connection delivering small segments), instead of a bytes.Reader.
var srcChunk int

type slowSource struct {
	data []byte
	k    int
	// eofWithData: the last bytes come together with io.EOF (as io.Reader allows, and iotest.DataErrReader does)
	eofWithData bool
}

func (s *slowSource) Read(p []byte) (int, error) {
	if len(s.data) == 0 {
		return 0, io.EOF
	}
	n := min(min(s.k, len(p)), len(s.data))
	copy(p, s.data[:n])
	s.data = s.data[n:]
	if s.eofWithData && len(s.data) == 0 {
		return n, io.EOF
	}
	return n, nil
}

// readSessionStop: as readSession, but the caller stops reading (and calls Close) once it has stopAfter bytes (-1: reads to the end).
func readSessionStop(stream []byte, crc bool, sched []int, plain []byte, valid bool, hdrOK bool, decl int, canon func(got []byte) bool, stopAfter int) (evs []rec.Event, got []byte, closeErr error) {
	defer func() {
		if p := recover(); p != nil {
			evs = append(evs, rec.Event{"op": "Panic", "text": fmt.Sprint(p)})
		}
	}()
	var src io.Reader = bytes.NewReader(stream)
	if srcChunk > 0 {
		src = &slowSource{data: stream, k: srcChunk}
	} else if srcChunk < 0 { // pieces of -srcChunk bytes, the last of them together with io.EOF
		src = &slowSource{data: stream, k: -srcChunk, eofWithData: true}
	}
	r, err := lzhuf.NewReader(src, crc)
	plen := decl
	if valid {
		plen = len(plain)
	}
	evs = append(evs, rec.Event{"op": "Open", "valid": valid, "plen": plen, "hdrOK": hdrOK, "err": err != nil})
	if err != nil {
		return
	}
	budget := max(decl, 0) + 8*len(stream) + 64
	if valid {
		budget = len(plain) + 64
	}
	for i := 0; ; i++ {
		if i > budget {
			evs = append(evs, rec.Event{"op": "Spin", "reads": i})
			return
		}
		if stopAfter >= 0 && len(got) >= stopAfter {
			break // the caller loses interest: Close without having read to the end
		}
		k := sched[i%len(sched)]
		if stopAfter >= 0 && k > stopAfter-len(got) {
			k = stopAfter - len(got)
		}
		buf := make([]byte, k)
		n, err := r.Read(buf)
		match := true
		if valid {
			match = n >= 0 && len(got)+n <= len(plain) && bytes.Equal(buf[:max(n, 0)], plain[len(got):len(got)+max(n, 0)])
		}
		if n > 0 {
			got = append(got, buf[:n]...)
		}
		evs = append(evs, rec.Event{"op": "Read", "k": k, "n": n, "err": errClass(err), "match": match})
		if err != nil {
			break
		}
	}
	closeErr = r.Close()
	// the verdict must not depend on how often it is asked for: a later Close that reports success counts as the
	// reader's success (and has to meet the same conditions)
	for i := 0; i < 2 && closeErr != nil; i++ {
		if again := r.Close(); again == nil {
			closeErr = nil
		}
	}
	ce := "nil"
	if closeErr != nil {
		ce = "other"
		if errors.Is(closeErr, lzhuf.ErrChecksum) {
			ce = "checksum"
		}
	}
	canonOK := true
	if closeErr == nil && canon != nil {
		canonOK = canon(got)
	}
	evs = append(evs, rec.Event{"op": "Close", "err": ce, "canonOK": canonOK})
	return
}

func max(a, b int) int {
	if a > b {
		return a
	}
	return b
}

func ints(b []byte) []int {
	out := make([]int, len(b))
	for i, c := range b {
		out[i] = int(c)
	}
	return out
}

// ---------------------------------------------------------------------------------------------
// LZ77 parser for encode jobs: chooses tokens only. Strategies: literal-only, longest-nearest, longest-farthest,
// shortest (length 3), overlap-loving, random.

type token []int // {0, c} or {1, distance, length}

func winAt(o []byte, j int) byte { // j is 1-based, see Lzhuf.tla WinAt
	const N, F = 2048, 60
	if j >= 1 {
		return o[j-1]
	}
	if N-F+j-1 >= 0 {
		return ' '
	}
	return 0
}

func matchLen(inp []byte, i int, d int, maxLen int) int {
	// i: 0-based index of next input byte; returns how many bytes match at distance d (overlap allowed)
	o := append([]byte(nil), inp[:i]...)
	n := 0
	for n < maxLen && i+n < len(inp) {
		c := winAt(o, len(o)-d+1)
		if c != inp[i+n] {
			break
		}
		o = append(o, c)
		n++
	}
	return n
}

func parse(inp []byte, strategy string, rng *rand.Rand) []token {
	var toks []token
	i := 0
	for i < len(inp) {
		if strategy == "literal" {
			toks = append(toks, token{0, int(inp[i])})
			i++
			continue
		}
		type cand struct{ d, l int }
		var cands []cand
		maxD := 2048
		for d := 1; d <= maxD; d++ {
			l := matchLen(inp, i, d, 60)
			if l >= 3 {
				cands = append(cands, cand{d, l})
			}
		}
		if len(cands) == 0 || (strategy == "random" && rng.Intn(3) == 0) {
			toks = append(toks, token{0, int(inp[i])})
			i++
			continue
		}
		best := cands[0]
		switch strategy {
		case "nearest":
			for _, c := range cands {
				if c.l > best.l {
					best = c
				}
			}
		case "farthest":
			for _, c := range cands {
				if c.l >= best.l {
					best = c
				}
			}
		case "shortest":
			best = cands[rng.Intn(len(cands))]
			best.l = 3
		case "random":
			best = cands[rng.Intn(len(cands))]
			best.l = 3 + rng.Intn(best.l-2)
		}
		toks = append(toks, token{1, best.d, best.l})
		i += best.l
	}
	return toks
}

// ---------------------------------------------------------------------------------------------

// MainRun is the "lzh-run" subcommand: C06 executions and the job files for the reference codec.
func MainRun(args []string) int {
	fs := flag.NewFlagSet("lzh-run", flag.ExitOnError)
	out := fs.String("out", "", "trace ndjson (C06)")
	jobs := fs.String("jobs", "", "decode/encode jobs for LzhufBatch (C07)")
	inputsOut := fs.String("inputs", "", "inputs of the encode jobs (for lzh-judge)")
	budget := fs.Int("budget", 20000, "symbol budget of the reference codec (sum of input lengths)")
	tier := fs.String("tier", "quick", "tier")
	testdata := fs.String("testdata", "/repo/lzhuf/testdata", "golden files")
	fs.Parse(args)
	rng := rand.New(rand.NewSource(rec.Seed()))
	thorough := *tier == "thorough"
	w, err := rec.NewWriter(*out)
	if err != nil {
		fmt.Fprintln(os.Stderr, err)
		return 2
	}
	defer w.Close()
	jf, _ := os.Create(*jobs)
	defer jf.Close()
	inf, _ := os.Create(*inputsOut)
	defer inf.Close()
	jobID := 0
	spent := 0
	addDec := func(name string, stream []byte, crc bool, plain []byte) {
		hdr := 4
		if crc {
			hdr = 6
		}
		jobID++
		j := map[string]interface{}{"id": jobID, "kind": "dec", "name": name, "payload": ints(stream[hdr:]), "size": len(plain), "limit": len(plain) + 10, "expect": ints(plain)}
		// header, judged independently: little-endian CRC-16/XMODEM over size+data, then little-endian 32-bit size
		hOK := int(binary.LittleEndian.Uint32(stream[hdr-4:hdr])) == len(plain)
		if crc {
			hOK = hOK && binary.LittleEndian.Uint16(stream[:2]) == crc16x(stream[2:])
		}
		j["hdrOK"] = hOK
		b, _ := json.Marshal(j)
		jf.Write(append(b, '\n'))
	}
	strategies := []string{"literal", "nearest", "farthest", "shortest", "random"}
	addEnc := func(name string, plain []byte) {
		for _, st := range strategies {
			jobID++
			j := map[string]interface{}{"id": jobID, "kind": "enc", "name": name + "/" + st, "input": ints(plain), "tokens": parse(plain, st, rng)}
			b, _ := json.Marshal(j)
			jf.Write(append(b, '\n'))
			ib, _ := json.Marshal(map[string]interface{}{"id": jobID, "input": ints(plain)})
			inf.Write(append(ib, '\n'))
		}
	}
	ins := families(rng, thorough)
	nExec, nInputs, multiDec, variantDec := 0, 0, 0, 0
	readScheds := [][]int{{4096}, {1}, {2}, {59}, {60}, {61}, {3, 1, 7}}
	for idx, in := range ins {
		nInputs++
		for _, crc := range []bool{true, false} {
			if !crc && in.name == "short" && idx%5 != 0 {
				continue
			}
			ref, err := compressParts(in.data, []int{len(in.data)}, crc)
			if err != nil {
				w.Write(nil, []rec.Event{{"op": "Panic", "text": "compress: " + err.Error()}})
				continue
			}
			exhaustive := in.name == "short" && len(in.data) <= 5
			parts := partitions(len(in.data), rng, exhaustive)
			if in.name == "short" && !exhaustive {
				parts = parts[:min(len(parts), 3)]
			}
			for pi, part := range parts {
				var evs []rec.Event
				for _, k := range part {
					evs = append(evs, rec.Event{"op": "Write", "n": k})
				}
				comp, err := safeCompress(in.data, part, crc)
				evs = append(evs, rec.Event{"op": "WClose", "ok": err == nil, "same": err == nil && bytes.Equal(comp, ref)})
				// C07 (a'): streams produced through several Write calls are the compressor's streams too
				if err == nil && crc && *budget > 0 && len(part) > 1 && len(in.data) <= 400 && len(in.data) > 1 && multiDec < 40 && (in.name != "short" || idx%13 == 0) {
					multiDec++
					addDec(fmt.Sprintf("%s/writes=%v", in.name, part), comp, crc, in.data)
				}
				if err != nil {
					w.Write(map[string]interface{}{"input": in.name, "len": len(in.data)}, evs)
					continue
				}
				// read back with a schedule (all schedules for the reference partition, one for the others)
				scheds := readScheds
				if in.name == "short" {
					scheds = [][]int{{4096}, {1}, {2}, {3, 1, 7}}
				}
				if pi > 0 {
					scheds = [][]int{readScheds[(idx+pi)%len(readScheds)]}
				}
				if len(in.data) > 50000 {
					scheds = [][]int{{4096}, {61}}
				} else if len(in.data) > 2500 && pi == 0 {
					scheds = [][]int{{4096}, {61}, {59}, {1000, 1}}
				} else if len(in.data) > 2500 {
					scheds = [][]int{{61, 4096, 1}}
				}
				for si, sc := range scheds {
					// the compressed stream reaches the Reader whole, byte by byte or in 3-byte pieces
					if pi == 0 && len(in.data) <= 5000 {
						srcChunk = []int{0, 1, 3, -1, -4096}[(idx+si)%5]
					}
					revs, _, _ := readSession(comp, crc, sc, in.data, true, true, len(in.data), nil)
					all := append(append([]rec.Event(nil), evs...), revs...)
					w.Write(map[string]interface{}{"input": in.name, "len": len(in.data), "crc": crc, "sched": sc, "nparts": len(part), "srcchunk": srcChunk}, all)
					srcChunk = 0
					nExec++
				}
			}
			// other ways the same input reaches the compressor: io.Copy from a source that returns data together with EOF; after
			// another user's compression failed at its destination.  The stream must be the same, and is judged like it.
			if len(in.data) > 0 && (in.name != "short" || idx%17 == 0) {
				for vi, variant := range []string{"io.Copy(DataErrReader)", "after another compression failed", "io.WriteString, io.Copy(strings.Reader)"} {
					var comp []byte
					var err error
					if vi == 0 {
						comp, err = compressCopy(in.data, crc)
					} else if vi == 2 {
						comp, err = compressStrings(in.data, crc)
					} else {
						otherUse(rng)
						comp, err = safeCompress(in.data, []int{len(in.data)}, crc)
					}
					evs := []rec.Event{{"op": "Write", "n": len(in.data)}, {"op": "WClose", "ok": err == nil, "same": err == nil && bytes.Equal(comp, ref)}}
					if err == nil {
						revs, _, _ := readSession(comp, crc, []int{4096}, in.data, true, true, len(in.data), nil)
						evs = append(evs, revs...)
					}
					w.Write(map[string]interface{}{"input": in.name, "len": len(in.data), "crc": crc, "variant": variant}, evs)
					nExec++
					if err == nil && crc && *budget > 0 && !bytes.Equal(comp, ref) && len(in.data) <= 70000 && variantDec < 6 {
						variantDec++
						addDec(in.name+"/"+variant, comp, crc, in.data)
					}
				}
			}
			// C07 (a): the library's stream goes to the reference decoder, within the symbol budget
			cost := len(in.data) + 20
			// window-boundary shapes are always judged by the reference codec (they are where a wrong lookahead mirror,
			// window size or wrap shows), the rest within the symbol budget
			priority := *budget > 0 && (strings.HasPrefix(in.name, "zero60-at-5") || strings.HasPrefix(in.name, "zero60-at-6") || strings.HasPrefix(in.name, "repeat-at"))
			if *budget > 0 && (in.name == "rebuild-skew01-48000" || (thorough && strings.HasPrefix(in.name, "rebuild-"))) {
				priority = true // the adaptive tree rebuild is always judged by the reference codec (the decode is linear in its length)
			}
			if crc && (priority || spent+cost <= *budget) && len(in.data) > 0 {
				if in.name != "short" || idx%7 == 0 || thorough {
					addDec(in.name, ref, crc, in.data)
					if !strings.HasPrefix(in.name, "rebuild-") { // the rebuild jobs come on top of the budget
						spent += cost
					}
				}
			}
			if !crc && spent+cost <= *budget && idx%11 == 0 && len(in.data) > 0 {
				addDec(in.name+"/nocrc", ref, crc, in.data)
				spent += cost
			}
		}
		// C07 (b): parses of small inputs for the reference encoder
		if len(in.data) > 0 && len(in.data) <= 400 && (in.name != "short" || idx%37 == 0) && spent+5*len(in.data) <= *budget {
			addEnc(in.name, in.data)
			spent += 5 * len(in.data)
		}
	}
	// C07 (b) beyond the window size: long inputs whose parses are short (a repeated phrase), so that the reference encoder can
	// afford them; the declared size stands at, just above and well above the 2048-byte window
	if *budget > 0 {
		for _, n := range []int{2048, 2049, 4500} {
			addEnc(fmt.Sprintf("phrase-%d", n), bytes.Repeat([]byte("CQ de LA1AAA "), n/13+1)[:n])
		}
	}
	// independent compressors working at the same time (different goroutines, different inputs) produce what they produce alone
	{
		var cin []input
		for _, in := range ins {
			if len(in.data) >= 4000 && len(in.data) <= 70000 && len(cin) < 8 {
				cin = append(cin, in)
			}
		}
		alone := make([][]byte, len(cin))
		for i, in := range cin {
			alone[i], _ = safeCompress(in.data, []int{len(in.data)}, true)
		}
		for round := 0; round < 6; round++ {
			together := make([][]byte, len(cin))
			var wg sync.WaitGroup
			for i := range cin {
				wg.Add(1)
				go func(i int) {
					defer wg.Done()
					together[i], _ = safeCompress(cin[i].data, []int{len(cin[i].data)}, true)
				}(i)
			}
			wg.Wait()
			for i, in := range cin {
				same := together[i] != nil && bytes.Equal(together[i], alone[i])
				w.Write(map[string]interface{}{"input": in.name, "len": len(in.data), "crc": true, "variant": "concurrent compressors"},
					[]rec.Event{{"op": "Write", "n": len(in.data)}, {"op": "WClose", "ok": together[i] != nil, "same": same}})
				nExec++
				if !same && together[i] != nil && *budget > 0 && variantDec < 8 {
					variantDec++
					addDec(in.name+"/concurrent compressors", together[i], true, in.data)
				}
			}
		}
	}
	// the repository's golden files: reference output of another encoder generation, they test the specification too
	if ents, err := os.ReadDir(*testdata); err == nil {
		for _, e := range ents {
			if !strings.HasSuffix(e.Name(), ".lzh") {
				continue
			}
			lz, err1 := os.ReadFile(*testdata + "/" + e.Name())
			plain, err2 := os.ReadFile(*testdata + "/" + strings.TrimSuffix(e.Name(), ".lzh"))
			if err1 != nil || err2 != nil {
				continue
			}
			if len(plain) <= 6000 || thorough {
				addDec("testdata/"+e.Name(), lz, true, plain)
			}
		}
	}
	fmt.Printf("{\"traces\":%d,\"inputs\":%d,\"executions\":%d,\"jobs\":%d,\"symbols\":%d}\n", w.Count(), nInputs, nExec, jobID, spent)
	return 0
}

// failingDest accepts n bytes and then fails.
type failingDest struct{ n int }

func (f *failingDest) Write(p []byte) (int, error) {
	if f.n <= 0 {
		return 0, errors.New("destination failed")
	}
	k := min(f.n, len(p))
	f.n -= k
	if k < len(p) {
		return k, errors.New("destination failed")
	}
	return k, nil
}

// otherUse is what another, unrelated user of the package does before the compression under test: a compression whose
// destination fails while Close writes the stream (its error is that user's business), and a second Close.
func otherUse(rng *rand.Rand) {
	defer func() { recover() }()
	junk := make([]byte, 20000)
	rng.Read(junk)
	w := lzhuf.NewWriter(&failingDest{n: 100}, true)
	w.Write(junk)
	w.Close()
	w.Close()
}

// compressCopy feeds the compressor with io.Copy from a source that returns its last bytes together with io.EOF.
func compressCopy(data []byte, crc bool) (out []byte, err error) {
	defer func() {
		if p := recover(); p != nil {
			err = fmt.Errorf("panic: %v", p)
		}
	}()
	var b bytes.Buffer
	w := lzhuf.NewWriter(&b, crc)
	if _, err := io.Copy(w, iotest.DataErrReader(bytes.NewReader(data))); err != nil {
		return nil, err
	}
	if err := w.Close(); err != nil {
		return nil, err
	}
	return b.Bytes(), nil
}

// compressStrings hands the input to the compressor as strings: io.WriteString for the first half, io.Copy from a
// strings.Reader for the rest (both use a WriteString method if the Writer has one).
func compressStrings(data []byte, crc bool) (out []byte, err error) {
	defer func() {
		if p := recover(); p != nil {
			err = fmt.Errorf("panic: %v", p)
		}
	}()
	var b bytes.Buffer
	w := lzhuf.NewWriter(&b, crc)
	h := len(data) / 2
	if n, err := io.WriteString(w, string(data[:h])); err != nil || n != h {
		return nil, fmt.Errorf("io.WriteString = %d, %v for %d bytes", n, err, h)
	}
	if n, err := io.Copy(w, strings.NewReader(string(data[h:]))); err != nil || int(n) != len(data)-h {
		return nil, fmt.Errorf("io.Copy = %d, %v for %d bytes", n, err, len(data)-h)
	}
	if err := w.Close(); err != nil {
		return nil, err
	}
	return b.Bytes(), nil
}

func safeCompress(data []byte, part []int, crc bool) (out []byte, err error) {
	defer func() {
		if p := recover(); p != nil {
			err = fmt.Errorf("panic: %v", p)
		}
	}()
	return compressParts(data, part, crc)
}

// MainJudge is the "lzh-judge" subcommand: consumes the reference codec's results.
//   - decode results (library -> reference) become Interop events;
//   - encoded streams (reference -> library) are framed with the B2 header and read by the real Reader.
func MainJudge(args []string) int {
	fs := flag.NewFlagSet("lzh-judge", flag.ExitOnError)
	results := fs.String("results", "", "result lines of LzhufBatch (ndjson)")
	jobs := fs.String("jobs", "", "the job file")
	out := fs.String("out", "", "trace ndjson")
	fs.Parse(args)
	type jobT struct {
		ID    int    `json:"id"`
		Kind  string `json:"kind"`
		Name  string `json:"name"`
		Input []int  `json:"input"`
		HdrOK bool   `json:"hdrOK"`
	}
	jobByID := map[int]jobT{}
	rec.ReadNDJSON(*jobs, func(line []byte) error {
		var j jobT
		json.Unmarshal(line, &j)
		jobByID[j.ID] = j
		return nil
	})
	w, err := rec.NewWriter(*out)
	if err != nil {
		fmt.Fprintln(os.Stderr, err)
		return 2
	}
	defer w.Close()
	seen := map[int]bool{}
	nDec, nEnc := 0, 0
	err = rec.ReadNDJSON(*results, func(line []byte) error {
		var r struct {
			Result   int   `json:"result"`
			Equal    bool  `json:"equal"`
			Outlen   int   `json:"outlen"`
			Bits     int   `json:"bits"`
			NBits    int   `json:"nbits"`
			Complete bool  `json:"complete"`
			Bytes    []int `json:"bytes"`
		}
		if err := json.Unmarshal(line, &r); err != nil {
			return err
		}
		j := jobByID[r.Result]
		seen[r.Result] = true
		if j.Kind == "dec" {
			nDec++
			// the decoder used the bits of the stream up to the padding of the last byte
			padOK := r.Bits <= r.NBits && r.NBits-r.Bits < 8
			w.Write(map[string]interface{}{"job": j.Name}, []rec.Event{{"op": "RefDecode", "equal": r.Equal, "padOK": padOK, "hdrOK": j.HdrOK, "bits": r.Bits, "nbits": r.NBits}})
			return nil
		}
		nEnc++
		plain := make([]byte, len(j.Input))
		for i, v := range j.Input {
			plain[i] = byte(v)
		}
		payload := make([]byte, len(r.Bytes))
		for i, v := range r.Bytes {
			payload[i] = byte(v)
		}
		var body bytes.Buffer
		binary.Write(&body, binary.LittleEndian, int32(len(plain)))
		body.Write(payload)
		c := crc16x(body.Bytes())
		stream := append([]byte{byte(c), byte(c >> 8)}, body.Bytes()...)
		if !r.Complete {
			w.Write(map[string]interface{}{"job": j.Name}, []rec.Event{{"op": "RefEncodeIncomplete"}})
			return nil
		}
		for si, sc := range [][]int{{4096}, {1}, {60}, {7, 1}, {4096}, {5}} {
			srcChunk = []int{0, 1, 3, 0, -1 << 20, -2}[si] // the stream arrives whole, byte by byte, in 3-byte segments, with EOF attached to its last bytes
			evs, _, _ := readSession(stream, true, sc, plain, true, true, len(plain), nil)
			w.Write(map[string]interface{}{"job": j.Name, "sched": sc, "len": len(plain), "srcchunk": srcChunk}, evs)
			srcChunk = 0
		}
		// and without the CRC header
		evs, _, _ := readSession(stream[2:], false, []int{61}, plain, true, true, len(plain), nil)
		w.Write(map[string]interface{}{"job": j.Name, "nocrc": true}, evs)
		return nil
	})
	if err != nil {
		fmt.Fprintln(os.Stderr, err)
		return 2
	}
	missing := 0
	for id := range jobByID {
		if !seen[id] {
			missing++
		}
	}
	fmt.Printf("{\"traces\":%d,\"decoded\":%d,\"encoded\":%d,\"missing\":%d}\n", w.Count(), nDec, nEnc, missing)
	return 0
}

// ---------------------------------------------------------------------------------------------
// C08: arbitrary input. Valid streams are truncated, bit-flipped, header-edited and spliced; random bytes are read;
// survivors (Close = nil) become decode jobs so that the reference codec can say what the canonical decoding is.

func MainHostile(args []string) int {
	fs := flag.NewFlagSet("lzh-hostile", flag.ExitOnError)
	out := fs.String("out", "", "trace ndjson")
	jobs := fs.String("jobs", "", "decode jobs for the survivors")
	stride := fs.Int("stride", 5, "bit flip stride")
	randoms := fs.Int("random", 2000, "random byte strings")
	survivors := fs.Int("survivors", 300, "survivors judged by the reference codec")
	fs.Parse(args)
	rng := rand.New(rand.NewSource(rec.Seed()))
	w, err := rec.NewWriter(*out)
	if err != nil {
		fmt.Fprintln(os.Stderr, err)
		return 2
	}
	defer w.Close()
	jf, _ := os.Create(*jobs)
	defer jf.Close()
	scheds := [][]int{{1}, {2}, {59}, {60}, {61}, {4096}}
	nJobs, nSurv, nCases := 0, 0, 0
	run := func(desc string, stream []byte, crc bool) {
		nCases++
		sc := scheds[nCases%len(scheds)]
		hdr := 4
		if crc {
			hdr = 6
		}
		decl, hdrOK := 0, true
		if len(stream) >= hdr {
			decl = int(int32(binary.LittleEndian.Uint32(stream[hdr-4 : hdr])))
			if crc {
				hdrOK = binary.LittleEndian.Uint16(stream[:2]) == crc16x(stream[2:])
			}
		} else {
			hdrOK = false
		}
		evs, got, cerr := readSession(stream, crc, sc, nil, false, hdrOK, decl, nil)
		meta := map[string]interface{}{"case": desc, "crc": crc, "len": len(stream), "decl": decl, "sched": sc}
		if cerr == nil && len(evs) > 0 && evs[len(evs)-1]["op"] == "Close" && evs[len(evs)-1]["err"] == "nil" {
			nSurv++
			// a survivor: is what was read the canonical decoding? ask the reference codec (budgeted, small ones)
			if nJobs < *survivors && decl <= 3000 && decl >= 0 && len(stream) >= hdr {
				nJobs++
				meta["canonJob"] = nJobs
				j := map[string]interface{}{"id": nJobs, "kind": "dec", "payload": ints(stream[hdr:]), "size": decl, "limit": decl + 10, "expect": ints(got)}
				b, _ := json.Marshal(j)
				jf.Write(append(b, '\n'))
			}
		}
		w.Write(meta, evs)
	}
	// streams without CRC that lack the last one or two bytes: bits of the final symbol are missing (or only padding is);
	// many different texts, because what the missing bits decode to depends on the state of the adaptive code
	for i := 0; i < 300; i++ {
		var sb strings.Builder
		fmt.Fprintf(&sb, "%d de LA1AAA: ", i*7919)
		for sb.Len() < 30+i%90 {
			sb.WriteString([]string{"wx ", "73 ", "QTH JP20 ", "msg ", "ok "}[rng.Intn(5)])
			fmt.Fprintf(&sb, "%x", rng.Intn(4096))
		}
		valid, err := compressParts([]byte(sb.String()), []int{sb.Len()}, false)
		if err != nil {
			continue
		}
		for _, cut := range []int{1, 2} {
			if len(valid) > 4+cut {
				run(fmt.Sprintf("text-%d/tail-cut-%d", i, cut), valid[:len(valid)-cut], false)
			}
		}
	}
	// base streams
	var bases []input
	for _, in := range families(rng, false) {
		if in.name == "short" && rng.Intn(60) != 0 {
			continue
		}
		if len(in.data) > 700 {
			continue
		}
		bases = append(bases, in)
	}
	for bi, in := range bases {
		for _, crc := range []bool{true, false} {
			if !crc && bi%2 == 1 {
				continue
			}
			valid, _ := compressParts(in.data, []int{len(in.data)}, crc)
			hdr := 4
			if crc {
				hdr = 6
			}
			// the caller closes a valid stream early: after all but the last 1, 2, 3 bytes (the last Read ends inside the
			// last token if that is a match), after half, after nothing
			for _, stop := range []int{len(in.data) - 1, len(in.data) - 2, len(in.data) - 3, len(in.data) / 2, 0} {
				if stop < 0 || stop >= len(in.data) {
					continue
				}
				for _, sc := range [][]int{{4096}, {1}, {7}} {
					nCases++
					evs, _, _ := readSessionStop(valid, crc, sc, in.data, true, true, len(in.data), nil, stop)
					w.Write(map[string]interface{}{"case": fmt.Sprintf("%s/early-close@%d", in.name, stop), "crc": crc, "len": len(valid), "decl": len(in.data), "sched": sc}, evs)
				}
			}
			// every truncation
			for k := 0; k < len(valid); k++ {
				if len(valid) > 120 && k%3 != bi%3 && k > 8 {
					continue
				}
				run(fmt.Sprintf("%s/trunc@%d", in.name, k), valid[:k], crc)
			}
			// single bit flips
			for bit := 0; bit < 8*len(valid); bit++ {
				if bit >= 8*hdr && bit%*stride != bi%*stride {
					continue
				}
				m := append([]byte(nil), valid...)
				m[bit/8] ^= 1 << uint(7-bit%8)
				run(fmt.Sprintf("%s/flip@%d", in.name, bit), m, crc)
			}
			// header edits: sizes (with the CRC repaired or not), CRC edits
			for _, sz := range []int32{-1, 0, int32(len(in.data)) - 1, int32(len(in.data)) + 1, int32(len(in.data)) + 60, 0x7fffffff, -2147483648, 1} {
				for _, fix := range []bool{false, true} {
					m := append([]byte(nil), valid...)
					binary.LittleEndian.PutUint32(m[hdr-4:hdr], uint32(sz))
					if crc && fix {
						c := crc16x(m[2:])
						m[0], m[1] = byte(c), byte(c>>8)
					}
					if !crc && fix {
						continue
					}
					run(fmt.Sprintf("%s/size=%d/fix=%v", in.name, sz, fix), m, crc)
				}
			}
			if crc {
				for _, v := range [][2]byte{{0, 0}, {0xff, 0xff}, {valid[1], valid[0]}} {
					m := append([]byte(nil), valid...)
					m[0], m[1] = v[0], v[1]
					run(in.name+"/crcedit", m, crc)
				}
				// near misses of the checksum: the value a reader would compute if it flushed its register once more (or
				// several times more) than the format says - what a second verdict computes if the first one left its
				// flush bytes in the running sum
				for extra := 1; extra <= 4; extra++ {
					m := append([]byte(nil), valid...)
					c := crc16x(append(append([]byte(nil), m[2:]...), make([]byte, extra)...))
					m[0], m[1] = byte(c), byte(c>>8)
					run(fmt.Sprintf("%s/crc-flushed+%d", in.name, extra), m, crc)
				}
			}
			// splices with another base
			if other := bases[rng.Intn(len(bases))]; len(other.data) > 0 && len(valid) > hdr+2 {
				ov, _ := compressParts(other.data, []int{len(other.data)}, crc)
				cut := hdr + rng.Intn(len(valid)-hdr)
				oc := hdr + rng.Intn(len(ov)-hdr+1)
				m := append(append([]byte(nil), valid[:cut]...), ov[oc:]...)
				if crc && rng.Intn(2) == 0 {
					c := crc16x(m[2:])
					m[0], m[1] = byte(c), byte(c>>8)
				}
				run(in.name+"/splice", m, crc)
			}
		}
	}
	// random bytes (with plausible small declared sizes so that decoding goes on for a while, and repaired CRC)
	for i := 0; i < *randoms; i++ {
		n := rng.Intn(200)
		m := make([]byte, n)
		rng.Read(m)
		crc := i%2 == 0
		hdr := 4
		if crc {
			hdr = 6
		}
		if i%3 != 0 && n >= hdr {
			binary.LittleEndian.PutUint32(m[hdr-4:hdr], uint32(rng.Intn(3000)))
			if crc && i%4 < 2 {
				c := crc16x(m[2:])
				m[0], m[1] = byte(c), byte(c>>8)
			}
		}
		run("random", m, crc)
	}
	fmt.Printf("{\"traces\":%d,\"cases\":%d,\"survivors\":%d,\"jobs\":%d}\n", w.Count(), nCases, nSurv, nJobs)
	return 0
}
