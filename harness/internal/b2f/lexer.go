package b2f

import (
	"fmt"
	"regexp"
	"strconv"
	"strings"
)

// The wire lexer is the byte-level half of the independent B2F judge (DESIGN.md 2.3): it splits the bytes one
// station writes into protocol units and validates their exact syntax and arithmetic. It is written from the
// protocol documents in /repo/docs (FBB forwarding protocol, B2F extension), not from the fbb package.
//
// Units: text lines terminated by CR (SID, ;FW, ;PQ, ;PR, ;PM, other comment, prompt line, FA/FB/FC/FD proposal,
// F> end of block, FS answers, FF, FQ, *** error) and binary message transfers (SOH header, STX blocks, EOT).
// Whether the next unit is binary is decided by protocol context: after the *other* station's FS line carrying
// n accepts, this station's next n units are transfers.

// Unit is one lexed protocol unit; Kind "Bad" is never accepted by any specification action.
type Unit struct {
	Kind string                 // Sid Fw Pq Pr Pm Comment Prompt Prop EndBlock Fs FF FQ Err Text Frame Bad
	F    map[string]interface{} // abstract fields
	Raw  []byte
}

var (
	reSID  = regexp.MustCompile(`^\[([^\[\]-]+)-(?:(.*)-)?([A-Za-z0-9$]+)\]$`)
	reProp = regexp.MustCompile(`^F([ABCD]) ([A-Z]{1,2}) (\S{1,12}) (\d+) (\d+) (\d+)$`)
	reEnd  = regexp.MustCompile(`^F> ([0-9A-Fa-f]{2})$`)
	rePR   = regexp.MustCompile(`^;PR: (\d{8})$`)
	reFS   = regexp.MustCompile(`^FS ([-+=YyNnRrLlHhEe]|[!Aa]\d+)+$`)
)

// Lexer lexes one direction (bytes written by one station).
type Lexer struct {
	buf         []byte
	pendFrames  int  // transfers still expected before text resumes
	blockSum    int  // running sum of proposal lines incl. CR since the last F>
	blockCount  int  // proposals since the last F>
	handshaking bool // before this station has sent its first F command
	errored     bool // the station has sent a "*** ..." error line: the rest is free-form error text
	emit        func(Unit)
	strictFW    bool
}

func NewLexer(emit func(Unit)) *Lexer { return &Lexer{emit: emit, handshaking: true} }

// ExpectFrames is called when the peer's FS line accepted n proposals of this station.
func (lx *Lexer) ExpectFrames(n int) { lx.pendFrames += n }

// Pending reports unconsumed bytes (an incomplete unit).
func (lx *Lexer) Pending() int { return len(lx.buf) }

func (lx *Lexer) Feed(p []byte) {
	lx.buf = append(lx.buf, p...)
	for {
		var n int
		if lx.pendFrames > 0 {
			n = lx.frame()
		} else {
			n = lx.line()
		}
		if n == 0 {
			return
		}
		lx.buf = lx.buf[n:]
	}
}

func (lx *Lexer) bad(why string, raw []byte) {
	lx.emit(Unit{Kind: "Bad", F: map[string]interface{}{"why": why}, Raw: append([]byte(nil), raw...)})
}

// line consumes one CR-terminated line; returns the number of bytes consumed (0 = need more).
func (lx *Lexer) line() int {
	i := -1
	for k, b := range lx.buf {
		if b == '\r' {
			i = k
			break
		}
		if (b == 1 || b == 2 || b == 4) && !lx.errored && !(k >= 3 && string(lx.buf[:3]) == "***") { // SOH/STX/EOT outside a transfer
			lx.bad(fmt.Sprintf("control byte %d in text", b), lx.buf[:k+1])
			return k + 1
		}
	}
	if i < 0 {
		return 0
	}
	raw := lx.buf[:i+1]
	s := string(lx.buf[:i])
	// a station may terminate lines with CR LF: the LF is then the first byte of the next line and is ignored
	s = strings.TrimLeft(s, "\n")
	if s == "" {
		return i + 1 // empty line
	}
	u := Unit{F: map[string]interface{}{"text": s}, Raw: append([]byte(nil), raw...)}
	if lx.errored || strings.HasPrefix(s, "***") {
		// error reporting is not defined by the protocol: a line prefixed "***" and whatever free text follows it
		// (the station is about to disconnect) is judged by its prefix only
		lx.errored = lx.errored || !lx.handshaking
		u.Kind = "Err"
		u.F["text"] = fmt.Sprintf("%q", s)
		lx.emit(u)
		return i + 1
	}
	for _, c := range []byte(s) {
		if c == '\n' || c == 0 || c >= 0x80 {
			lx.bad("non-ASCII, NUL or LF in a protocol line", raw)
			return i + 1
		}
	}
	switch {
	case strings.HasPrefix(s, "["):
		m := reSID.FindStringSubmatch(s)
		if m == nil {
			lx.bad("malformed SID", raw)
			return i + 1
		}
		feat := m[3]
		u.Kind = "Sid"
		u.F["author"], u.F["version"], u.F["features"] = m[1], m[2], feat
		up := strings.ToUpper(feat)
		u.F["b2"] = strings.Contains(up, "B2")
		u.F["f"] = strings.Contains(up, "F")
		u.F["dollarLast"] = strings.HasSuffix(feat, "$")
		u.F["gzip"] = strings.Contains(up, "G")
	case strings.HasPrefix(s, ";FW:"):
		u.Kind = "Fw"
		rest := s[4:]
		ok := strings.HasPrefix(rest, " ") && !strings.HasSuffix(rest, " ") && !strings.Contains(rest, "  ")
		var addrs, hashes []string
		if ok {
			for _, tok := range strings.Split(rest[1:], " ") {
				parts := strings.Split(tok, "|")
				if len(parts) > 2 || parts[0] == "" {
					ok = false
					break
				}
				addrs = append(addrs, parts[0])
				if len(parts) == 2 {
					if !regexp.MustCompile(`^\d{8}$`).MatchString(parts[1]) {
						ok = false
					}
					hashes = append(hashes, parts[1])
				} else {
					hashes = append(hashes, "")
				}
			}
		}
		if !ok {
			lx.bad("malformed ;FW line", raw)
			return i + 1
		}
		u.F["addrs"], u.F["hashes"] = addrs, hashes
		up := []string{}
		for _, a := range addrs {
			up = append(up, strings.ToUpper(a))
		}
		u.F["addrsU"] = up
	case strings.HasPrefix(s, ";PQ:"):
		u.Kind = "Pq"
		u.F["challenge"] = strings.TrimPrefix(s[4:], " ")
	case strings.HasPrefix(s, ";PR:"):
		m := rePR.FindStringSubmatch(s)
		if m == nil {
			lx.bad("malformed ;PR line", raw)
			return i + 1
		}
		u.Kind = "Pr"
		u.F["response"] = m[1]
	case strings.HasPrefix(s, ";PM:"):
		u.Kind = "Pm"
	case strings.HasPrefix(s, ";"):
		u.Kind = "Comment"
		u.F["prompt"] = strings.HasSuffix(s, ">")
	case strings.HasPrefix(s, "***"):
		u.Kind = "Err"
	case len(s) >= 2 && s[0] == 'F' && strings.ContainsRune("ABCD", rune(s[1])):
		m := reProp.FindStringSubmatch(s)
		if m == nil {
			lx.bad("malformed proposal", raw)
			return i + 1
		}
		u.Kind = "Prop"
		lx.handshaking = false
		u.F["code"], u.F["type"], u.F["mid"] = m[1], m[2], m[3]
		u.F["size"], _ = strconv.Atoi(m[4])
		u.F["csize"], _ = strconv.Atoi(m[5])
		u.F["offset"], _ = strconv.Atoi(m[6])
		for _, c := range []byte(s) {
			lx.blockSum += int(c)
		}
		lx.blockSum += '\r'
		lx.blockCount++
		u.F["index"] = lx.blockCount
	case strings.HasPrefix(s, "F>"):
		m := reEnd.FindStringSubmatch(s)
		if m == nil {
			lx.bad("malformed F> line", raw)
			return i + 1
		}
		v, _ := strconv.ParseInt(m[1], 16, 32)
		u.Kind = "EndBlock"
		u.F["count"] = lx.blockCount
		u.F["sumOK"] = (lx.blockSum+int(v))&0xff == 0
		lx.blockSum, lx.blockCount = 0, 0
	case strings.HasPrefix(s, "FS"):
		if !reFS.MatchString(s) {
			lx.bad("malformed FS line", raw)
			return i + 1
		}
		u.Kind = "Fs"
		lx.handshaking = false
		var ans []string
		var offs []int
		rest := s[3:]
		for len(rest) > 0 {
			c := rest[0]
			rest = rest[1:]
			switch c {
			case '+', 'Y', 'y':
				ans, offs = append(ans, "+"), append(offs, 0)
			case '-', 'N', 'n', 'R', 'r':
				ans, offs = append(ans, "-"), append(offs, 0)
			case '=', 'L', 'l':
				ans, offs = append(ans, "="), append(offs, 0)
			case 'H', 'h': // "held": pinned by the repository's own test as a deferral; the tolerant reading
				ans, offs = append(ans, "="), append(offs, 0)
			case 'E', 'e':
				ans, offs = append(ans, "e"), append(offs, 0)
			case '!', 'A', 'a':
				j := 0
				for j < len(rest) && rest[j] >= '0' && rest[j] <= '9' {
					j++
				}
				o, _ := strconv.Atoi(rest[:j])
				rest = rest[j:]
				ans, offs = append(ans, "+"), append(offs, o)
			}
		}
		u.F["answers"], u.F["offsets"] = ans, offs
	case s == "FF":
		u.Kind = "FF"
		lx.handshaking = false
	case s == "FQ":
		u.Kind = "FQ"
		lx.handshaking = false
	case len(s) >= 1 && s[0] == 'F':
		lx.bad("unknown F command", raw)
		return i + 1
	default:
		u.Kind = "Text" // MOTD / prompt text during the handshake
		u.F["prompt"] = strings.HasSuffix(s, ">")
	}
	lx.emit(u)
	return i + 1
}

// crc16x is CRC-16/XMODEM, bitwise (poly 0x1021, init 0), independent of lzhuf/crc.go.
func crc16x(p []byte) uint16 {
	var crc uint16
	for _, b := range p {
		crc ^= uint16(b) << 8
		for i := 0; i < 8; i++ {
			if crc&0x8000 != 0 {
				crc = crc<<1 ^ 0x1021
			} else {
				crc <<= 1
			}
		}
	}
	return crc
}

// frame consumes one complete message transfer SOH..EOT.
func (lx *Lexer) frame() int {
	b := lx.buf
	if len(b) < 2 {
		return 0
	}
	if b[0] != 1 {
		if b[0] == '*' { // an error line instead of a transfer
			lx.pendFrames = 0
			return lx.line()
		}
		lx.bad("transfer does not start with SOH", b[:1])
		lx.pendFrames = 0
		return 1
	}
	hl := int(b[1])
	if len(b) < 2+hl {
		return 0
	}
	hdr := b[2 : 2+hl]
	f := map[string]interface{}{}
	parts := strings.Split(string(hdr), "\x00")
	// title NUL offset NUL  => three parts, the last empty
	// (FBB documents an 80 byte limit for the title; Winlink software does not honour it, so only the structure and the
	// length arithmetic are judged: the length byte must cover exactly title NUL offset NUL.)
	hdrOK := len(parts) == 3 && parts[2] == "" && len(parts[0]) >= 1 && len(parts[1]) >= 1 && len(parts[1]) <= 6
	title, offStr := "", ""
	if len(parts) >= 2 {
		title, offStr = parts[0], parts[1]
	}
	for _, c := range []byte(title) {
		if c < 0x20 || c >= 0x7f {
			hdrOK = false // the title must be printable ASCII
		}
	}
	off, err := strconv.Atoi(offStr)
	if err != nil || off < 0 {
		hdrOK = false
	}
	f["hdrOK"], f["title"], f["offset"] = hdrOK, title, off
	// structure only (length arithmetic, NULs, numeric offset), whatever bytes the title consists of
	f["hdrStruct"] = len(parts) == 3 && parts[2] == "" && len(parts[0]) >= 1 && err == nil && off >= 0 && len(parts[1]) >= 1
	pos := 2 + hl
	var data []byte
	var chunks []int
	sum := 0
	for {
		if len(b) < pos+2 {
			return 0
		}
		switch b[pos] {
		case 2:
			n := int(b[pos+1])
			if n == 0 {
				n = 256
			}
			if len(b) < pos+2+n {
				return 0
			}
			for _, c := range b[pos+2 : pos+2+n] {
				sum += int(c)
			}
			data = append(data, b[pos+2:pos+2+n]...)
			chunks = append(chunks, n)
			pos += 2 + n
		case 4:
			f["sumOK"] = (sum+int(b[pos+1]))&0xff == 0
			pos += 2
			f["chunks"] = chunks
			maxc := 0
			for _, c := range chunks {
				if c > maxc {
					maxc = c
				}
			}
			f["nchunks"], f["maxchunk"] = len(chunks), maxc
			f["nbytes"] = len(data)
			// payload header: CRC-16 (LE) over size+data, then 32-bit LE uncompressed size
			crcOK, usize := false, -1
			if len(data) >= 6 {
				want := uint16(data[0]) | uint16(data[1])<<8
				crcOK = crc16x(data[2:]) == want
				usize = int(uint32(data[2]) | uint32(data[3])<<8 | uint32(data[4])<<16 | uint32(data[5])<<24)
			}
			f["crcOK"], f["usize"] = crcOK, usize
			u := Unit{Kind: "Frame", F: f, Raw: append([]byte(nil), b[:pos]...)}
			u.F["payload"] = append([]byte(nil), data...)
			lx.pendFrames--
			lx.emit(u)
			return pos
		default:
			lx.bad(fmt.Sprintf("unexpected byte %d inside a transfer", b[pos]), b[:pos+1])
			lx.pendFrames = 0
			return pos + 1
		}
	}
}
