package b2f

import (
	"errors"
	"fmt"
	"io"
	"log"
	"net"
	"os"
	"runtime/debug"
	"strings"
	"time"

	"github.com/la5nta/wl2k-go/fbb"
	"github.com/la5nta/wl2k-go/mailbox"

	"verifharness/internal/rec"
)

// Scenario is one abstract two-station scenario (DESIGN.md 4 C01); it is concretised from Seed.
type Scenario struct {
	ID        int                  `json:"id"`
	Master    string               `json:"master"` // "A" or "B"
	Msgs      map[string][]MsgSpec `json:"msgs"`   // outbound messages per station
	Batched   map[string]bool      `json:"batched"`
	Motd      []string             `json:"motd"`
	Sched     string               `json:"sched"`
	Seg       string               `json:"seg"`
	Seed      int64                `json:"seed"`
	Handler   string               `json:"handler"`          // "mem" (default) or "dir"
	Flushable bool                 `json:"flushable"`        // the connections implement transport.Flusher / TxBuffer
	Robust    map[string]string    `json:"robust,omitempty"` // per station: "auto", "forced", "disabled" (the connection implements transport.Robust and records the calls), "" / "none"
	Fault     *Fault               `json:"fault,omitempty"`
}

// Fault describes the fault injected into one session.
type Fault struct {
	Kind     string `json:"kind"`     // "cut", "storefail", "fsfail" (directory mailbox: a real write fault), "fspartial" (... in the middle of the file), "alter"
	Dir      string `json:"dir"`      // receiver of the affected direction
	At       int    `json:"at"`       // byte count (cut), store index (storefail), offset (alter)
	WriteErr bool   `json:"writeerr"` // cut: writer sees errors afterwards
	DropRev  bool   `json:"droprev"`  // cut: reverse bytes in flight are dropped
	// alter
	AltKind string      `json:"altkind,omitempty"` // "sub", "del", "ins", "pair"
	Val     int         `json:"val,omitempty"`     // sub: xor value / ins: byte
	At2     int         `json:"at2,omitempty"`     // pair: second offset
	Delta   int         `json:"delta,omitempty"`   // pair: +delta at At, -delta at At2
	Set     map[int]int `json:"set,omitempty"`     // set: offset -> new byte value (targeted multi-byte change)
	// edit: Set as above, plus bytes inserted in front of an offset and offsets deleted (length-changing, sum-neutral edits)
	InsAt map[int][]int `json:"insat,omitempty"`
	DelAt map[int]bool  `json:"delat,omitempty"`
}

// TmpBase is where directory mailboxes are created.
var TmpBase = os.TempDir()

// Cleanup removes the stations' temporary directories.
func Cleanup(st map[string]*Station) {
	for _, s := range st {
		if s.tmp != "" {
			os.RemoveAll(s.tmp)
		}
	}
}

var calls = map[string]string{"A": "LA1AAA", "B": "LA2BBB"}

func peerOf(s string) string {
	if s == "A" {
		return "B"
	}
	return "A"
}

// linkObserver lexes both directions and records wire units and link events.
type linkObserver struct {
	r          *Recorder
	lex        map[string]*Lexer
	bytes      map[string][]byte // everything each station wrote
	frameSpans map[string][][2]int
}

func newLinkObserver(r *Recorder) *linkObserver {
	o := &linkObserver{r: r, lex: map[string]*Lexer{}, bytes: map[string][]byte{}, frameSpans: map[string][][2]int{}}
	for _, s := range []string{"A", "B"} {
		s := s
		o.lex[s] = NewLexer(func(u Unit) { o.unit(s, u) })
	}
	return o
}

func (o *linkObserver) unit(s string, u Unit) {
	ev := rec.Event{"op": "Unit", "s": s, "kind": u.Kind}
	for k, v := range u.F {
		if k == "payload" || k == "chunks" || k == "hdrStruct" {
			continue
		}
		ev[k] = v
	}
	if u.Kind == "Fs" {
		n := 0
		for _, a := range u.F["answers"].([]string) {
			if a == "+" {
				n++
			}
		}
		o.lex[peerOf(s)].ExpectFrames(n)
	}
	if u.Kind == "Frame" {
		end := len(o.bytes[s]) - o.lex[s].Pending() // not exact while feeding; spans are fixed up by callers that need them
		_ = end
	}
	if u.Kind == "Bad" {
		ev["raw"] = fmt.Sprintf("%q", u.Raw)
	}
	o.r.Add(ev)
}

func (o *linkObserver) OnWrite(from string, p []byte) {
	o.bytes[from] = append(o.bytes[from], p...)
	o.lex[from].Feed(p)
}
func (o *linkObserver) OnClose(who string) { o.r.Add(rec.Event{"op": "Close", "s": who}) }
func (o *linkObserver) OnCut()             { o.r.Add(rec.Event{"op": "Cut"}) }

// Result is what one session execution produced besides its events.
type Result struct {
	Bytes    map[string][]byte
	Ret      map[string]string
	TimedOut bool
	Panic    string
}

func classify(err error) string {
	switch {
	case err == nil:
		return "nil"
	case errors.Is(err, fbb.ErrConnLost):
		return "lost"
	}
	return "err"
}

var discard = log.New(io.Discard, "", 0)

// RunSession runs one B2F session between the two stations over a fresh link configured from sc.
func RunSession(sc *Scenario, st map[string]*Station, r *Recorder, configure func(*Link), updaters map[string]fbb.StatusUpdater) Result {
	return RunSessionOpts(sc, st, r, configure, updaters, 0)
}

// RunSessionOpts is RunSession with the option of handing the sessions a transport that reports a transmit buffer.
// Watchdog is how long a session may take before both links are closed (a hang).
var Watchdog = 20 * time.Second

func RunSessionOpts(sc *Scenario, st map[string]*Station, r *Recorder, configure func(*Link), updaters map[string]fbb.StatusUpdater, txRate float64) Result {
	l := NewLink(sc.Seed + int64(sc.ID)*7919)
	if sc.Sched != "" {
		l.Sched = sc.Sched
	}
	if sc.Seg != "" {
		l.Seg = sc.Seg
	}
	obs := newLinkObserver(r)
	l.Obs = obs
	if f := sc.Fault; f != nil {
		l.DeadlineScale = 120 // the one-minute error-echo deadline of Exchange becomes 0.5 s
		switch f.Kind {
		case "cut":
			l.CutDir, l.CutAt, l.CutWriteErr, l.CutDropRev = f.Dir, f.At, f.WriteErr, f.DropRev
		case "storefail":
			st[f.Dir].FailStoreAt = f.At
		case "fsfail":
			st[f.Dir].FSFailAt = f.At
		case "fspartial":
			st[f.Dir].FSPartialAt = f.At
		case "alter":
			l.AltDir = f.Dir
			l.Alter = makeAlter(f)
		}
	}
	if configure != nil {
		configure(l)
	}
	r.Add(rec.Event{"op": "Session", "master": sc.Master, "fault": sc.Fault != nil})
	type ret struct {
		s     string
		stats fbb.TrafficStats
		err   error
		pan   string
	}
	done := make(chan ret, 2)
	for _, name := range []string{"A", "B"} {
		name := name
		var h fbb.MBoxHandler = st[name]
		if sc.Batched[name] {
			h = Batched{st[name]}
		}
		sess := fbb.NewSession(calls[name], calls[peerOf(name)], "JO29PJ", h)
		sess.IsMaster(sc.Master == name)
		sess.SetLogger(discard)
		if sc.Master == name && len(sc.Motd) > 0 {
			sess.SetMOTD(sc.Motd...)
		}
		if updaters != nil && updaters[name] != nil {
			sess.SetStatusUpdater(updaters[name])
		}
		var conn net.Conn = l.End(name)
		if txRate == 0 && sc.Flushable {
			txRate = 1e7 // a transport with a transmit buffer and Flush (like the radio modems), fast enough not to matter otherwise
		}
		if txRate > 0 { // a modem-like transmit buffer draining at txRate bytes per second
			conn = &txEnd{End: l.End(name), rate: txRate}
		} else if txRate < 0 {
			conn = &txEnd{End: l.End(name), rate: -txRate, adversarial: true}
		}
		if m := sc.Robust[name]; m != "" && m != "none" {
			lx := obs.lex[name]
			conn = &robustEnd{Conn: conn, name: name, r: r, pend: lx.Pending}
			setRobustMode(sess, m)
		}
		go func() {
			var rt ret
			rt.s = name
			defer func() {
				if p := recover(); p != nil {
					rt.pan = fmt.Sprintf("%v\n%s", p, debug.Stack())
					// a panicking Exchange never closes its conn; free the peer
					conn.Close()
				}
				l.MarkDone(name)
				done <- rt
			}()
			rt.stats, rt.err = sess.Exchange(conn)
		}()
	}
	res := Result{Ret: map[string]string{}}
	timeout := time.After(Watchdog)
	for i := 0; i < 2; i++ {
		select {
		case rt := <-done:
			ev := rec.Event{"op": "Return", "s": rt.s, "res": classify(rt.err), "sent": nz(rt.stats.Sent), "recv": nz(rt.stats.Received),
				"closed": l.End(rt.s).Closed()}
			if rt.err != nil {
				ev["errtext"] = rt.err.Error()
			}
			if rt.pan != "" {
				ev["res"] = "panic"
				ev["panic"] = firstLines(rt.pan, 12)
				res.Panic = rt.pan
			}
			res.Ret[rt.s] = ev["res"].(string)
			r.Add(ev)
		case <-timeout:
			res.TimedOut = true
			// unblock whoever hangs so the process can go on; the hang itself is the finding
			l.End("A").Close()
			l.End("B").Close()
			i = 2
		}
	}
	r.Add(rec.Event{"op": "End", "timedout": res.TimedOut, "cut": l.WasCut(),
		"pendingA": obs.lex["A"].Pending(), "pendingB": obs.lex["B"].Pending()})
	res.Bytes = obs.bytes
	for _, s := range st {
		s.FailStoreAt = 0
		s.FSFailAt = 0
		s.FSPartialAt = 0
	}
	return res
}

func nz(s []string) []string {
	if s == nil {
		return []string{}
	}
	return s
}

func firstLines(s string, n int) string {
	lines := strings.Split(s, "\n")
	if len(lines) > n {
		lines = lines[:n]
	}
	return strings.Join(lines, "\n")
}

// makeAlter builds the byte-stream alteration of a fault.
func makeAlter(f *Fault) func(int, byte) []byte {
	return func(off int, b byte) []byte {
		switch f.AltKind {
		case "sub":
			if off == f.At {
				return []byte{b ^ byte(f.Val)}
			}
		case "del":
			if off == f.At {
				return nil
			}
		case "ins":
			if off == f.At {
				return []byte{byte(f.Val), b}
			}
		case "set":
			if v, ok := f.Set[off]; ok {
				return []byte{byte(v)}
			}
		case "edit":
			var out []byte
			for _, v := range f.InsAt[off] {
				out = append(out, byte(v))
			}
			if f.DelAt[off] {
				return out
			}
			if v, ok := f.Set[off]; ok {
				return append(out, byte(v))
			}
			return append(out, b)
		case "pair":
			if off == f.At {
				return []byte{b + byte(f.Delta)}
			}
			if off == f.At2 {
				return []byte{b - byte(f.Delta)}
			}
		}
		return []byte{b}
	}
}

// Setup builds the two stations of a scenario and queues its messages.
func Setup(sc *Scenario, r *Recorder) map[string]*Station {
	st := map[string]*Station{"A": NewStation("A", calls["A"], r), "B": NewStation("B", calls["B"], r)}
	if sc.Handler == "dir" {
		for _, name := range []string{"A", "B"} {
			d, err := os.MkdirTemp(TmpBase, "mb")
			if err != nil {
				panic(err)
			}
			st[name].Dir = mailbox.NewDirHandler(d, false)
			st[name].tmp = d
		}
	}
	for _, name := range []string{"A", "B"} {
		for _, ms := range sc.Msgs[name] {
			m := BuildMessage(ms, calls[name], calls[peerOf(name)], sc.Seed)
			st[name].Queue(m)
			st[peerOf(name)].Expect(ms.MID, st[name].Raw(ms.MID), ms.Policy)
			r.Add(rec.Event{"op": "Queue", "s": name, "m": ms.MID, "policy": ms.Policy, "prec": ms.Prec})
		}
	}
	return st
}
