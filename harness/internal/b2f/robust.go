package b2f

import (
	"bytes"
	"compress/gzip"
	"encoding/base64"
	"encoding/json"
	"flag"
	"fmt"
	"math/rand"
	"os"
	"os/exec"
	"runtime"
	"runtime/debug"
	"strings"
	"sync"
	"time"

	"github.com/la5nta/wl2k-go/fbb"

	"verifharness/internal/rec"
)

// C03: hostile transcripts. A Plan is a path of token classes enumerated by TLC from B2FRobust.tla; it is
// concretised here into the bytes a remote station sends, and fed to a real Session in a child process.

type Plan struct {
	Role string   `json:"role"` // role of the station under test
	Pend bool     `json:"pend"`
	Path []string `json:"path"`
}

type Transcript struct {
	ID    int    `json:"id"`
	Role  string `json:"role"`
	Pend  bool   `json:"pend"`
	Desc  string `json:"desc"`
	Data  string `json:"data"` // base64 of the remote's bytes
	Kind  string `json:"kind"` // "plan" or "mutant"
	Layer string `json:"layer,omitempty"`
	// NoCallbackAux: the station under test has an auxiliary address and no secure-login callback registered
	NoCallbackAux bool `json:"nocallbackaux,omitempty"`
}

type ctxGen struct {
	planned [][]byte // crafted payloads for the proposals to come, in order (nil = a valid one)
	rng     *rand.Rand
	buf     bytes.Buffer
	props   []propInfo // open inbound block
	owed    []propInfo // transfers the remote still owes
	sum     int
	n       int
}

type propInfo struct {
	mid   string
	raw   []byte
	comp  []byte
	code  byte
	csize int
}

func validMsgBytes(mid string, body string, files int) []byte {
	m := fbb.NewMessage(fbb.Private, "LA2BBB")
	m.Header.Set("Mid", mid)
	m.SetDate(fixedDate)
	m.AddTo("LA1AAA")
	m.SetSubject("hostile test " + mid)
	m.SetBody(body)
	for i := 0; i < files; i++ {
		m.AddFile(fbb.NewFile(fmt.Sprintf("f%d.txt", i), []byte("file content\r\n")))
	}
	b, _ := m.Bytes()
	return b
}

func gz(data []byte) []byte {
	var b bytes.Buffer
	w, _ := gzip.NewWriterLevel(&b, gzip.BestCompression)
	w.Write(data)
	w.Close()
	return b.Bytes()
}

func (g *ctxGen) line(s string) { g.buf.WriteString(s + "\r") }

func (g *ctxGen) newProp(code byte, raw []byte) propInfo {
	g.n++
	mid := fmt.Sprintf("HOST%06d%02d", g.rng.Intn(1000000), g.n)
	if raw == nil {
		raw = validMsgBytes(mid, "Hello from a hostile peer\r\n", g.rng.Intn(2))
	}
	var comp []byte
	if code == 'D' {
		comp = gz(raw)
	} else {
		comp = compress(raw)
	}
	if len(g.planned) > 0 {
		// the transfer of this proposal will carry a crafted payload: propose exactly its size so that the
		// framing layer accepts it and the deeper layer is reached
		if pl := g.planned[0]; pl != nil {
			comp = pl
		}
		g.planned = g.planned[1:]
	}
	return propInfo{mid: mid, raw: raw, comp: comp, code: code, csize: len(comp)}
}

// rawProp writes an arbitrary proposal-like line and accounts for it in the block checksum, so that a following
// EndBlock is correct and the station goes on to answer it.
func (g *ctxGen) rawProp(l string) {
	for _, c := range []byte(l) {
		g.sum += int(c)
	}
	g.sum += '\r'
	g.line(l)
	g.props = append(g.props, g.newProp('C', nil))
}

// libOutSizes returns the compressed and uncompressed size of the first outbound message of the station under test
// (the hostile runner queues fixed messages, see runTranscript).
func libOutSizes() (csize, size int) {
	m := BuildMessage(MsgSpec{MID: "LIBOUT000000", Prec: 3, Size: "small"}, calls["A"], calls["B"], 7)
	// the smaller of the two queued messages is proposed first; both are of class "small": use their minimum
	best := [2]int{1 << 30, 0}
	for i := 0; i < 2; i++ {
		m = BuildMessage(MsgSpec{MID: fmt.Sprintf("LIBOUT%06d", i), Prec: 3, Size: "small"}, calls["A"], calls["B"], 7)
		raw, _ := m.Bytes()
		c := len(compress(raw))
		if c < best[0] {
			best = [2]int{c, len(raw)}
		}
	}
	return best[0], best[1]
}

func (g *ctxGen) propLine(p propInfo) {
	l := fmt.Sprintf("F%c EM %s %d %d 0", p.code, p.mid, len(p.raw), p.csize)
	for _, c := range []byte(l) {
		g.sum += int(c)
	}
	g.sum += '\r'
	g.line(l)
	g.props = append(g.props, p)
}

// frameBytes frames payload as a transfer with the given chunk size.
func frameBytes(title string, offset string, payload []byte, chunk int) []byte {
	var b bytes.Buffer
	b.WriteByte(1)
	b.WriteByte(byte(len(title) + len(offset) + 2))
	b.WriteString(title)
	b.WriteByte(0)
	b.WriteString(offset)
	b.WriteByte(0)
	sum := 0
	for len(payload) > 0 {
		n := chunk
		if n > len(payload) {
			n = len(payload)
		}
		b.WriteByte(2)
		b.WriteByte(byte(n))
		b.Write(payload[:n])
		for _, c := range payload[:n] {
			sum += int(c)
		}
		payload = payload[n:]
	}
	b.WriteByte(4)
	b.WriteByte(byte(-sum & 0xff))
	return b.Bytes()
}

// fixCRC recomputes the B2 payload CRC over size+data.
func fixCRC(p []byte) []byte {
	if len(p) < 6 {
		return p
	}
	c := crc16x(p[2:])
	p[0], p[1] = byte(c), byte(c>>8)
	return p
}

func setSize(p []byte, v int32) []byte {
	q := append([]byte(nil), p...)
	u := uint32(v)
	q[2], q[3], q[4], q[5] = byte(u), byte(u>>8), byte(u>>16), byte(u>>24)
	return fixCRC(q)
}

// payloadFor compresses raw message bytes into a B2 payload.
func payloadFor(raw []byte) []byte { return compress(raw) }

func hdrMsg(lines ...string) []byte { return []byte(strings.Join(lines, "\r\n") + "\r\n") }

// token appends the bytes of one token class.
func (g *ctxGen) token(tok string) {
	rng := g.rng
	takeOwed := func() propInfo {
		if len(g.owed) == 0 {
			return g.newProp('C', nil)
		}
		p := g.owed[0]
		g.owed = g.owed[1:]
		return p
	}
	// a transfer of a crafted decompressed message (deepest layer: CRC and sums are right)
	// crafted payloads were planned before the proposal was written (see craft): p.comp is the crafted payload
	crafted := func() {
		p := takeOwed()
		g.buf.Write(frameBytes("crafted", "0", p.comp, 120))
	}
	switch tok {
	// ---- handshake
	case "Sid":
		g.line("[WL2K-5.0-B2FWIHJM$]")
	case "SidLower":
		g.line("[wl2k-5.0-b2fwihjm$]")
	case "Fw":
		g.line(";FW: LA2BBB")
	case "FwHashes":
		g.line(";FW: LA2BBB LA9XXX|12345678")
	case "Comment":
		g.line("; this is a comment")
	case "Motd":
		g.line("Welcome to the hostile node")
	case "StarMotd":
		g.line("*** MTD Stats Total connects = 2580 Total messages = 3900")
	case "Pq":
		g.line(";PQ: 12345678")
	case "PmOK":
		g.line(";PM: LA1AAA ABCDEF123456 423 LA2BBB A pending message")
	case "Prompt":
		g.line("LA2BBB BBS>")
	case "FirstCmd":
		// nothing: the next command token is the first command
	case "PqShort":
		g.line(";PQ")
	case "PqNoSpace":
		g.line(";PQ:")
	case "PqEmpty":
		g.line(";PQ: ")
	case "FwNoSpace":
		g.line(";FW:LA2BBB")
	case "FwEmpty":
		g.line(";FW: ")
	case "SidNoDash":
		g.line("[WL2KB2F$]")
	case "SidNoB2":
		g.line("[WL2K-5.0-FWIHJM$]")
	case "SidEmpty":
		g.line("[]")
	case "SidUnclosed":
		g.line("[WL2K-5.0-B2FWIHJM$")
	case "OnlyLF":
		g.buf.WriteString("[WL2K-5.0-B2FWIHJM$]\nLA2BBB BBS>\n")
	// ---- generic malformed lines
	case "LoneNul":
		g.buf.WriteString("\x00\r")
	case "NulPrefixed":
		g.buf.WriteString("\x00\x00FF\r")
	case "NulSuffixed":
		g.buf.WriteString("; x\x00\r")
	case "NonAscii":
		g.buf.WriteString("F\xff\xfe\x80 caf\xe9\r")
	case "LongLine":
		g.buf.WriteString(strings.Repeat("A", 70000) + "\r")
	case "StarLine":
		g.line("*** Protocol error: go away")
	case "Garbage":
		b := make([]byte, 1+rng.Intn(200))
		rng.Read(b)
		g.buf.Write(b)
		g.buf.WriteByte('\r')
	case "EmptyLine":
		g.buf.WriteString("\r\r")
	case "SohInText":
		g.buf.WriteString("\x01\x05abc\x00\r")
	// ---- commands
	case "Prop":
		g.propLine(g.newProp('C', nil))
	case "PropD":
		g.propLine(g.newProp('D', nil))
	case "PropDup":
		p := g.newProp('C', nil)
		g.propLine(p)
		if len(g.props) < 5 {
			g.propLine(p)
			g.props = g.props[:len(g.props)-1] // only one copy will be transferred
		}
	case "EndBlock":
		g.line(fmt.Sprintf("F> %02X", (-g.sum)&0xff))
		g.owed = append(g.owed, g.props...)
		g.props, g.sum = nil, 0
	case "FF":
		g.line("FF")
		g.props, g.sum = nil, 0
	case "FQ":
		g.line("FQ")
	case "Pm":
		g.line(";PM: LA1AAA ABCDEF123456 423 LA2BBB A pending message")
	case "PmShort":
		g.line(";PM: LA1AAA")
	case "FAlone":
		g.line("F")
	case "FGt":
		g.line("F>")
	case "FGtSpace":
		g.line("F> ")
	case "FGtBadHex":
		g.line("F> ZZ")
	case "FGtWrongSum":
		g.line(fmt.Sprintf("F> %02X", (-g.sum+1)&0xff))
	case "EndBlockNoProps":
		g.line("F> 00")
	case "BlankFlood":
		g.buf.Write(bytes.Repeat([]byte{'\r'}, 6000000))
	case "PropHugeCsize":
		// a well-formed proposal declaring an enormous compressed size; the block can still be closed correctly
		g.rawProp("FC EM HUGECS" + fmt.Sprint(rng.Intn(1000000)) + " 100 " + []string{"268435456", "4611686018427387904", "2147483647"}[rng.Intn(3)] + " 0")
	case "PropNegCsize":
		g.rawProp("FC EM NEGCS" + fmt.Sprint(rng.Intn(1000000)) + " 100 " + []string{"-1", "-150", "-99", "-100", "-199", "-200", "-2147483648", "-0"}[variantOf("PropNegCsize", 8)] + " 0")
	case "FsOffsetMid":
		// an offset between the compressed and the uncompressed size of the station's first outbound message
		cs, sz := libOutSizes()
		g.line(fmt.Sprintf("FS !%d", cs+(sz-cs)/2))
	case "FsOffsetAtEnd":
		cs, _ := libOutSizes()
		g.line(fmt.Sprintf("FS !%d", cs+rng.Intn(2)))
	case "PropNoFields":
		g.line("FC")
	case "PropFewFields":
		g.line([]string{"FC ", "FC EM", "FC EM ABC", "FC EM ABC 10", "FC EM ABC 10 20"}[rng.Intn(5)])
	case "PropManyFields":
		g.line("FC EM ABCDEF 100 80 0 1 2 3")
	case "PropNonNumeric":
		g.line("FC EM ABCDEF1 abc xyz q")
	case "PropNegative":
		g.line("FC EM ABCDEF2 -1 -5 0")
	case "PropHuge":
		g.line("FC EM ABCDEF3 99999999999999999999 4294967296 0")
	case "PropLongMid":
		g.line("FC EM " + strings.Repeat("M", 300) + " 100 80 0")
	case "PropBadType":
		g.line("FC XX ABCDEF4 100 80 0")
	case "PropA":
		g.line("FA P LA2BBB LA1AAA LA1AAA 1234_LA2BBB 100")
	case "PropB":
		g.line("FB P LA2BBB LA1AAA LA1AAA 1234_LA2BBB 100")
	case "UnknownCmd":
		g.line("FZ what is this")
	// ---- answers to the station's proposals
	case "FsAccept":
		g.line("FS +++++"[:3+1+rng.Intn(1)])
	case "FsReject":
		g.line("FS -")
	case "FsDefer":
		g.line("FS =")
	case "FsMixed":
		g.line("FS +-=")
	case "FsLetters":
		g.line("FS YNL")
	case "FsOffset0":
		g.line("FS !0")
	case "FsTooMany":
		g.line("FS ++++++++")
	case "FsTooFew":
		g.line("FS ")
	case "FsInvalidChar":
		g.line("FS +?x")
	case "FsOffsetNoDigits":
		g.line("FS !")
	case "FsOffsetBeyond":
		g.line("FS !999999")
	case "FsOffsetHuge":
		g.line("FS !99999999999999999999")
	case "FsEmpty":
		g.line("FS")
	case "FsNoSpace":
		g.line("FS+")
	case "NotFs":
		g.line("FF")
	// ---- transfers
	case "Frame":
		p := takeOwed()
		g.buf.Write(frameBytes("a title", "0", p.comp, 125))
	case "Frame256":
		p := takeOwed()
		big := g.newProp('C', validMsgBytes(p.mid, strings.Repeat("incompressible? no. ", 400), 0))
		_ = big
		g.buf.Write(frameBytes("a title", "0", p.comp, 256))
	case "Frame1":
		p := takeOwed()
		g.buf.Write(frameBytes("t", "0", p.comp, 1))
	case "FrameGzip":
		p := takeOwed()
		g.buf.Write(frameBytes("gz", "0", p.comp, 200))
	case "FirstStar":
		g.line("*** Unable to send message")
	case "FirstOther":
		g.buf.WriteString("Xyz")
	case "HdrLenMismatch":
		p := takeOwed()
		f := frameBytes("title", "0", p.comp, 125)
		f[1] += 3
		g.buf.Write(f)
	case "HdrLenZero":
		p := takeOwed()
		f := frameBytes("title", "0", p.comp, 125)
		f[1] = 0
		g.buf.Write(f)
	case "HdrNoNul":
		g.buf.WriteString("\x01\x10title without nul terminators at all")
	case "HdrOffsetNonNumeric":
		p := takeOwed()
		g.buf.Write(frameBytes("title", "x1", p.comp, 125))
	case "HdrOffsetWrong":
		p := takeOwed()
		g.buf.Write(frameBytes("title", "7", p.comp, 125))
	case "StxLen0Short":
		g.buf.WriteString("\x01\x09title\x000\x00\x02\x00abc")
	case "StxShort":
		g.buf.WriteString("\x01\x09title\x000\x00\x02\x50abc")
	case "EotBadSum":
		p := takeOwed()
		f := frameBytes("title", "0", p.comp, 125)
		f[len(f)-1] ^= 0x55
		g.buf.Write(f)
	case "EotLenMismatch":
		p := takeOwed()
		g.buf.Write(frameBytes("title", "0", p.comp[:len(p.comp)-3], 125))
	case "EotMissingSum":
		p := takeOwed()
		f := frameBytes("title", "0", p.comp, 125)
		g.buf.Write(f[:len(f)-1])
	case "StrayByte":
		p := takeOwed()
		f := frameBytes("title", "0", p.comp, 125)
		g.buf.Write(f[:12+len("title")])
		g.buf.WriteByte(0x7f)
		g.buf.Write(f[12+len("title"):])
	case "PayloadTruncFixedSum", "PayloadBadCrc", "PayloadSizeNeg", "PayloadSizeHuge", "PayloadSizeSmall", "PayloadSizeBig", "PayloadGarbage",
		"PayloadTooShort", "PayloadOverrunMatch", "MsgNoHeader", "MsgBodyNeg", "MsgBodyHuge", "MsgBodyTooBig", "MsgFileNeg", "MsgFileHuge",
		"MsgFileNoName", "MsgBadDate", "MsgNoMid", "MsgEmpty", "MsgNoBlankLine":
		crafted()
	case "GzipGarbage":
		p := takeOwed()
		q := make([]byte, 80)
		rng.Read(q)
		g.buf.Write(frameBytes("gz", "0", q, 125))
		_ = p
	case "GzipTruncated":
		p := takeOwed()
		g.buf.Write(frameBytes("gz", "0", p.comp[:len(p.comp)/2], 125))
	case "EOF":
	default:
		panic("harness: no concretisation for token class " + tok)
	}
}

// craft returns the crafted payload of a payload- or message-level token class (nil for the other classes).
// variantOf cycles through the n variants of a token class, so that every variant is used once the class has occurred n times
var variantCount = map[string]int{}

func variantOf(tok string, n int) int {
	variantCount[tok]++
	return (variantCount[tok] - 1) % n
}

func craft(tok string, rng *rand.Rand) []byte {
	valid := func() []byte { return compress(validMsgBytes("CRAFT0000001", "Hello from a hostile peer\r\n", 1)) }
	msg := func(raw []byte) []byte { return compress(raw) }
	std := []string{"Date: 2020/01/02 03:04", "From: LA2BBB", "To: LA1AAA", "Subject: x"}
	hm := func(mid string, extra ...string) []byte {
		l := []string{"Mid: " + mid}
		l = append(l, std...)
		return hdrMsg(append(l, extra...)...)
	}
	switch tok {
	case "PayloadTruncFixedSum":
		v := valid()
		return v[:len(v)*2/3]
	case "PayloadBadCrc":
		v := valid()
		v[0] ^= 0xff
		return v
	case "PayloadSizeNeg":
		return setSize(valid(), -1)
	case "PayloadSizeHuge":
		return setSize(valid(), 0x7fffffff)
	case "PayloadSizeSmall":
		return setSize(valid(), 3)
	case "PayloadSizeBig":
		v := valid()
		n := int32(uint32(v[2]) | uint32(v[3])<<8 | uint32(v[4])<<16 | uint32(v[5])<<24)
		return setSize(v, n+1000)
	case "PayloadGarbage":
		q := make([]byte, 120)
		rng.Read(q)
		q[2], q[3], q[4], q[5] = 200, 0, 0, 0
		return fixCRC(q)
	case "PayloadTooShort":
		return valid()[:4]
	case "PayloadOverrunMatch":
		// a run compresses into long matches; declaring a smaller size makes the last match overrun it
		return setSize(compress([]byte(strings.Repeat("a", 500))), 490)
	case "MsgNoHeader":
		return msg([]byte("this is not a message at all, no header lines\r\n"))
	case "MsgBodyNeg":
		return msg(hm("NEGBODY00001", "Body: -5", "", "hello"))
	case "MsgBodyHuge":
		return msg(hm("HUGEBODY0001", "Body: 2000000000", "", "hello"))
	case "MsgBodyTooBig":
		return msg(hm("BIGBODY00001", "Body: 500", "", "short"))
	case "MsgFileNeg":
		return msg(hm("NEGFILE00001", "Body: 5", "File: -3 a.txt", "", "hello", "abc"))
	case "MsgFileHuge":
		return msg(hm("HUGEFILE0001", "Body: 5", "File: 1900000000 a.txt", "", "hello", "abc"))
	case "MsgFileNoName":
		// a File header that is not "<size> <name>": size only, name only, blank, not a number
		return msg(hm("NONAMEFILE01", "Body: 5", []string{"File: 3", "File: attachment.bin", "File:  ", "File: abc def.txt", "File: 3\tname.txt"}[variantOf(tok, 5)], "", "hello", "abc"))
	case "MsgBadDate":
		return msg(hdrMsg("Mid: BADDATE00001", "Date: yesterday", "From: LA2BBB", "To: LA1AAA", "Subject: x", "Body: 5", "", "hello"))
	case "MsgNoMid":
		return msg(hdrMsg(append(std, "Body: 5", "", "hello")...))
	case "MsgEmpty":
		return msg([]byte{})
	case "MsgNoBlankLine":
		return msg([]byte("Mid: X\r\nBody: 5"))
	}
	return nil
}

var xferTokens = map[string]bool{"Frame": true, "Frame256": true, "Frame1": true, "FrameGzip": true, "HdrLenMismatch": true, "HdrLenZero": true,
	"HdrOffsetNonNumeric": true, "HdrOffsetWrong": true, "EotBadSum": true, "EotLenMismatch": true, "EotMissingSum": true, "StrayByte": true,
	"GzipGarbage": true, "GzipTruncated": true}

// Concretise turns a plan path into a transcript.
func Concretise(pl Plan, id int, seed int64) Transcript {
	g := &ctxGen{rng: rand.New(rand.NewSource(seed + int64(id)))}
	// when the path reaches a transfer of a gzip proposal the payload classes still use LZHUF payloads: that is
	// one more way of being malformed
	// plan the payloads: the k-th transfer token of the path belongs to the k-th proposal
	for _, tok := range pl.Path {
		if c := craft(tok, g.rng); c != nil {
			g.planned = append(g.planned, c)
		} else if xferTokens[tok] {
			g.planned = append(g.planned, nil)
		}
	}
	for _, tok := range pl.Path {
		g.token(tok)
	}
	return Transcript{ID: id, Role: pl.Role, Pend: pl.Pend, Desc: strings.Join(pl.Path, " "), Kind: "plan",
		Data: base64.StdEncoding.EncodeToString(g.buf.Bytes())}
}

// ---------------------------------------------------------------------------------------------
// child: run transcripts sequentially, one Session each, measure outcome / time / allocation

type outcomeT struct {
	ID       int    `json:"id"`
	Outcome  string `json:"outcome"` // nil err lost | panic hang allocbomb connopen
	Panic    string `json:"panic,omitempty"`
	Site     string `json:"site,omitempty"`
	AllocMB  int    `json:"alloc_mb"`
	Bytes    int    `json:"bytes"`
	Millis   int    `json:"ms"`
	ErrText  string `json:"errtext,omitempty"`
	Closed   bool   `json:"closed"`
	Consumed bool   `json:"consumed"`
}

func panicSite(stack string) string {
	// first frame inside the library
	for _, l := range strings.Split(stack, "\n") {
		if strings.Contains(l, "github.com/la5nta/wl2k-go/") && !strings.HasPrefix(strings.TrimSpace(l), "/") {
			f := strings.TrimSpace(l)
			if i := strings.LastIndex(f, "("); i > 0 {
				f = f[:i]
			}
			f = strings.TrimPrefix(f, "github.com/la5nta/wl2k-go/")
			return f
		}
	}
	return "?"
}

func runTranscript(t Transcript) outcomeT {
	data, _ := base64.StdEncoding.DecodeString(t.Data)
	r := &Recorder{}
	lib := NewStation("A", calls["A"], r)
	if t.Pend {
		for i := 0; i < 2; i++ {
			lib.Queue(BuildMessage(MsgSpec{MID: fmt.Sprintf("LIBOUT%06d", i), Prec: 3, Size: "small"}, calls["A"], calls["B"], 7))
		}
	}
	l := NewLink(int64(t.ID))
	l.Seg = []string{"all", "rand", "one"}[t.ID%3]
	l.DeadlineScale = 600
	sess := fbb.NewSession(calls["A"], calls["B"], "JO29PJ", lib)
	sess.IsMaster(t.Role == "master")
	sess.SetLogger(discard)
	if t.NoCallbackAux {
		sess.AddAuxiliaryAddress(fbb.AddressFromString("LA9AUX"))
	} else {
		sess.SetSecureLoginHandleFunc(func(fbb.Address) (string, error) { return "secret", nil })
	}
	conn := l.End("A")
	remote := l.End("B")
	// the remote: everything at once, then EOF once consumed; the station's own output is discarded
	go func() {
		buf := make([]byte, 4096)
		for {
			if _, err := remote.Read(buf); err != nil {
				return
			}
		}
	}()
	var ms0, ms1 runtime.MemStats
	runtime.ReadMemStats(&ms0)
	start := time.Now()
	type ret struct {
		err error
		pan string
	}
	done := make(chan ret, 1)
	go func() {
		var rt ret
		defer func() {
			if p := recover(); p != nil {
				rt.pan = fmt.Sprintf("%v\n%s", p, debug.Stack())
			}
			done <- rt
		}()
		_, rt.err = sess.Exchange(conn)
	}()
	remote.Write(data)
	l.mu.Lock()
	l.dir["A"].wclosed = true // EOF after the data
	l.cond.Broadcast()
	l.mu.Unlock()
	out := outcomeT{ID: t.ID, Bytes: len(data)}
	select {
	case rt := <-done:
		out.Outcome = classify(rt.err)
		if rt.err != nil {
			out.ErrText = rt.err.Error()
			if len(out.ErrText) > 200 {
				out.ErrText = out.ErrText[:200]
			}
		}
		if rt.pan != "" {
			out.Outcome = "panic"
			out.Panic = firstLines(rt.pan, 16)
			out.Site = panicSite(rt.pan)
		}
	case <-time.After(5 * time.Second):
		out.Outcome = "hang"
	}
	out.Millis = int(time.Since(start) / time.Millisecond)
	runtime.ReadMemStats(&ms1)
	out.AllocMB = int((ms1.TotalAlloc - ms0.TotalAlloc) >> 20)
	out.Closed = conn.Closed()
	if out.Outcome != "panic" && out.Outcome != "hang" {
		if !out.Closed {
			out.Outcome = "connopen"
		} else if int64(ms1.TotalAlloc-ms0.TotalAlloc) > 32<<20+4096*int64(len(data)) {
			out.Outcome = "allocbomb"
		}
	}
	remote.Close()
	return out
}

// MainC03Child runs a shard of transcripts.
func MainC03Child(args []string) int {
	fs := flag.NewFlagSet("b2f-c03-child", flag.ExitOnError)
	in := fs.String("in", "", "transcripts ndjson")
	out := fs.String("out", "", "outcomes ndjson (appended)")
	from := fs.Int("from", 0, "skip transcripts with index < from")
	fs.Parse(args)
	debug.SetGCPercent(400)
	f, err := os.OpenFile(*out, os.O_APPEND|os.O_CREATE|os.O_WRONLY, 0644)
	if err != nil {
		fmt.Fprintln(os.Stderr, err)
		return 2
	}
	defer f.Close()
	idx := 0
	err = rec.ReadNDJSON(*in, func(line []byte) error {
		idx++
		if idx-1 < *from {
			return nil
		}
		var t Transcript
		if err := json.Unmarshal(line, &t); err != nil {
			return err
		}
		// mark the transcript in flight: a process death is attributed to it
		os.WriteFile(*out+".inflight", []byte(fmt.Sprintf("%d %d", idx-1, t.ID)), 0644)
		o := runTranscript(t)
		b, _ := json.Marshal(o)
		f.Write(append(b, '\n'))
		if o.Outcome == "hang" {
			// a spinning goroutine cannot be stopped: leave, the parent restarts the shard after this transcript
			f.Sync()
			os.Exit(75)
		}
		return nil
	})
	os.Remove(*out + ".inflight")
	if err != nil {
		fmt.Fprintln(os.Stderr, err)
		return 2
	}
	return 0
}

// MainC03 concretises plans, adds byte-level mutants of conforming transcripts, and runs them in child processes.
func MainC03(args []string) int {
	fs := flag.NewFlagSet("b2f-c03", flag.ExitOnError)
	plans := fs.String("plans", "", "plan ndjson from TLC (role, pend, path)")
	work := fs.String("work", "", "work directory")
	out := fs.String("out", "", "trace ndjson")
	mutants := fs.Int("mutants", 2000, "byte-level mutants of conforming transcripts")
	shards := fs.Int("shards", 8, "child processes")
	fs.Parse(args)
	rng := rand.New(rand.NewSource(rec.Seed()))
	var ts []Transcript
	err := rec.ReadNDJSON(*plans, func(line []byte) error {
		var p Plan
		if err := json.Unmarshal(line, &p); err != nil {
			return err
		}
		ts = append(ts, Concretise(p, len(ts)+1, rec.Seed()))
		return nil
	})
	if err != nil {
		fmt.Fprintln(os.Stderr, "plans:", err)
		return 2
	}
	// focused paths: the bounded plans seldom get a complete handshake, an accepted proposal AND a crafted transfer into one
	// path, so every payload / message class (and every variant of the classes that have variants) also runs on the
	// shortest conforming path around it, in both roles
	payloadClasses := []string{"PayloadTruncFixedSum", "PayloadBadCrc", "PayloadSizeNeg", "PayloadSizeHuge", "PayloadSizeSmall", "PayloadSizeBig",
		"PayloadGarbage", "PayloadTooShort", "PayloadOverrunMatch", "MsgNoHeader", "MsgBodyNeg", "MsgBodyHuge", "MsgBodyTooBig", "MsgFileNeg",
		"MsgFileHuge", "MsgFileNoName", "MsgBadDate", "MsgNoMid", "MsgEmpty", "MsgNoBlankLine"}
	for _, cls := range payloadClasses {
		reps := 1
		if cls == "MsgFileNoName" {
			reps = 5
		}
		for r := 0; r < reps; r++ {
			ts = append(ts, Concretise(Plan{Role: "slave", Path: []string{"Sid", "Prompt", "Prop", "EndBlock", cls, "Frame", "FF", "EOF"}}, len(ts)+1, rec.Seed()))
			ts = append(ts, Concretise(Plan{Role: "master", Path: []string{"Sid", "FirstCmd", "Prop", "EndBlock", cls, "Frame", "FF", "EOF"}}, len(ts)+1, rec.Seed()))
		}
	}
	for r := 0; r < 8; r++ { // the eight declared negative compressed sizes, each followed by a transfer
		ts = append(ts, Concretise(Plan{Role: "slave", Path: []string{"Sid", "Prompt", "PropNegCsize", "EndBlock", "Frame", "FF", "EOF"}}, len(ts)+1, rec.Seed()))
		ts = append(ts, Concretise(Plan{Role: "master", Path: []string{"Sid", "FirstCmd", "PropNegCsize", "EndBlock", "Frame1", "FF", "EOF"}}, len(ts)+1, rec.Seed()))
	}
	// more proposals in a block than the protocol allows (six, seven, twelve), with a valid F> line
	for _, n := range []int{6, 7, 12} {
		for _, role := range [][2]string{{"slave", "Prompt"}, {"master", "FirstCmd"}} {
			path := []string{"Sid", role[1]}
			for i := 0; i < n; i++ {
				path = append(path, "Prop")
			}
			ts = append(ts, Concretise(Plan{Role: role[0], Path: append(path, "EndBlock", "FF", "EOF")}, len(ts)+1, rec.Seed()))
		}
	}
	// a well-formed ;PM: line in a later turn, after a block has been answered (and before one)
	ts = append(ts, Concretise(Plan{Role: "slave", Path: []string{"Sid", "Prompt", "Prop", "EndBlock", "Frame", "PmOK", "Prop", "EndBlock", "Frame", "PmOK", "FF", "EOF"}}, len(ts)+1, rec.Seed()))
	ts = append(ts, Concretise(Plan{Role: "master", Path: []string{"Sid", "FirstCmd", "PmOK", "Prop", "EndBlock", "Frame", "PmOK", "FF", "EOF"}}, len(ts)+1, rec.Seed()))
	// a secure-login challenge for a station that has an auxiliary address and no callback
	for _, path := range [][]string{{"Sid", "Pq", "Prompt", "FF", "EOF"}, {"Pq", "Sid", "Prompt", "FF", "EOF"}, {"Sid", "Pq", "Prompt", "Prop", "EndBlock", "Frame", "FF", "EOF"}} {
		tr := Concretise(Plan{Role: "slave", Path: path}, len(ts)+1, rec.Seed())
		tr.NoCallbackAux = true
		tr.Desc += " (auxiliary address, no callback)"
		ts = append(ts, tr)
	}
	nplan := len(ts)
	ts = append(ts, mutantTranscripts(rng, *mutants, len(ts))...)
	// shard
	os.MkdirAll(*work, 0755)
	self, _ := os.Executable()
	var wg sync.WaitGroup
	outcomes := make([][]outcomeT, *shards)
	deaths := make([][]string, *shards)
	for s := 0; s < *shards; s++ {
		var mine []Transcript
		for i := s; i < len(ts); i += *shards {
			mine = append(mine, ts[i])
		}
		inPath := fmt.Sprintf("%s/shard%d.in", *work, s)
		outPath := fmt.Sprintf("%s/shard%d.out", *work, s)
		w, _ := rec.NewWriter(inPath)
		w.Close()
		fh, _ := os.Create(inPath)
		for _, t := range mine {
			b, _ := json.Marshal(t)
			fh.Write(append(b, '\n'))
		}
		fh.Close()
		os.Remove(outPath)
		wg.Add(1)
		go func(s int, mine []Transcript) {
			defer wg.Done()
			from := 0
			for from < len(mine) {
				cmd := exec.Command(self, "b2f-c03-child", "--in", inPath, "--out", outPath, "--from", fmt.Sprint(from))
				cmd.Env = append(os.Environ(), "GOMEMLIMIT=6GiB")
				var stderr bytes.Buffer
				cmd.Stderr = &stderr
				err := cmd.Run()
				// how far did it get?
				n := 0
				rec.ReadNDJSON(outPath, func([]byte) error { n++; return nil })
				if err == nil {
					break
				}
				if b, e := os.ReadFile(outPath + ".inflight"); e == nil {
					var idx, id int
					fmt.Sscanf(string(b), "%d %d", &idx, &id)
					if n <= idx {
						// the child died while running transcript idx without writing an outcome: process death
						o := outcomeT{ID: id, Outcome: "exit", Panic: lastLines(stderr.String(), 25), Site: fatalSite(stderr.String())}
						bb, _ := json.Marshal(o)
						fa, _ := os.OpenFile(outPath, os.O_APPEND|os.O_WRONLY, 0644)
						fa.Write(append(bb, '\n'))
						fa.Close()
						deaths[s] = append(deaths[s], fmt.Sprint(id))
						n = idx + 1
					}
				}
				if n <= from {
					n = from + 1 // never loop on the same transcript
				}
				from = n
			}
			rec.ReadNDJSON(outPath, func(line []byte) error {
				var o outcomeT
				json.Unmarshal(line, &o)
				outcomes[s] = append(outcomes[s], o)
				return nil
			})
		}(s, mine)
	}
	wg.Wait()
	byID := map[int]outcomeT{}
	for _, os_ := range outcomes {
		for _, o := range os_ {
			byID[o.ID] = o
		}
	}
	w, err := rec.NewWriter(*out)
	if err != nil {
		fmt.Fprintln(os.Stderr, err)
		return 2
	}
	defer w.Close()
	counts := map[string]int{}
	missing := 0
	for _, t := range ts {
		o, ok := byID[t.ID]
		if !ok {
			missing++
			continue
		}
		counts[o.Outcome]++
		ev := rec.Event{"op": "Outcome", "role": t.Role, "pend": t.Pend, "outcome": o.Outcome, "desc": t.Desc, "kind": t.Kind, "layer": t.Layer,
			"site": o.Site, "alloc_mb": o.AllocMB, "bytes": o.Bytes, "ms": o.Millis, "errtext": o.ErrText}
		if o.Panic != "" {
			ev["panic"] = o.Panic
		}
		if o.Outcome != "nil" && o.Outcome != "err" && o.Outcome != "lost" {
			ev["data"] = t.Data
		}
		w.Write(map[string]interface{}{"id": t.ID}, []rec.Event{ev})
	}
	cb, _ := json.Marshal(counts)
	fmt.Printf("{\"traces\":%d,\"plans\":%d,\"mutants\":%d,\"missing\":%d,\"outcomes\":%s}\n", w.Count(), nplan, len(ts)-nplan, missing, cb)
	return 0
}

func lastLines(s string, n int) string {
	l := strings.Split(strings.TrimSpace(s), "\n")
	if len(l) > n {
		l = l[:n]
	}
	return strings.Join(l, "\n")
}

func fatalSite(stderr string) string {
	if i := strings.Index(stderr, "fatal error:"); i >= 0 {
		end := strings.Index(stderr[i:], "\n")
		if end < 0 {
			end = len(stderr) - i
		}
		return strings.TrimSpace(stderr[i : i+end])
	}
	return panicSite(stderr)
}

// mutantTranscripts: conforming remote transcripts (recorded from scripted-peer sessions) mutated at the byte level.
func mutantTranscripts(rng *rand.Rand, n int, baseID int) []Transcript {
	if n == 0 {
		return nil
	}
	// record conforming transcripts: what the scripted peer wrote in clean sessions
	type base struct {
		role string
		pend bool
		data []byte
	}
	var bases []base
	for i := 0; len(bases) < 24 && i < 200; i++ {
		ps := GenPeerScenario(rng, i+1)
		if len(ps.Lib) > 3 {
			ps.Lib = ps.Lib[:3]
		}
		// the hostile runner queues two fixed messages when pend is set; record with the same library state
		ps.Script.Answers, ps.Script.DefaultAns = map[string]string{}, []string{"+", "-", "=", "Y"}[rng.Intn(4)]
		if len(ps.Lib) > 0 {
			ps.Lib = []MsgSpec{{MID: "LIBOUT000000", Prec: 3, Size: "small"}, {MID: "LIBOUT000001", Prec: 3, Size: "small"}}
		}
		ps.Seed = 7
		ps.MyCall = ""
		ps.Sched, ps.Seg = "free", "all"
		_, res := RunPeerScenario(ps)
		if res.Ret["A"] != "nil" || len(res.Bytes["B"]) == 0 {
			continue
		}
		role := "master"
		if ps.Script.Master {
			role = "slave"
		}
		bases = append(bases, base{role, len(ps.Lib) > 0, res.Bytes["B"]})
	}
	var out []Transcript
	nums := []string{"-1", "0", "2147483647", "2147483648", "9223372036854775808", "1000000000000", "65536", "255"}
	for i := 0; i < n && len(bases) > 0; i++ {
		b := bases[rng.Intn(len(bases))]
		d := append([]byte(nil), b.data...)
		layer := ""
		switch rng.Intn(7) {
		case 0: // truncate at a unit boundary or anywhere
			layer = "truncate"
			d = d[:rng.Intn(len(d)+1)]
		case 1:
			layer = "delete"
			for k := 1 + rng.Intn(3); k > 0 && len(d) > 1; k-- {
				p := rng.Intn(len(d))
				d = append(d[:p], d[p+1:]...)
			}
		case 2:
			layer = "insert"
			for k := 1 + rng.Intn(3); k > 0; k-- {
				p := rng.Intn(len(d) + 1)
				d = append(d[:p], append([]byte{byte(rng.Intn(256))}, d[p:]...)...)
			}
		case 3:
			layer = "substitute"
			for k := 1 + rng.Intn(4); k > 0 && len(d) > 0; k-- {
				d[rng.Intn(len(d))] = []byte{0, 0xff, '\r', ' ', '*', 'F', byte(rng.Intn(256))}[rng.Intn(7)]
			}
		case 4: // replace a decimal number in a text line by a boundary value
			layer = "numeric"
			idxs := numberSpans(d)
			if len(idxs) > 0 {
				sp := idxs[rng.Intn(len(idxs))]
				d = append(append(append([]byte(nil), d[:sp[0]]...), []byte(nums[rng.Intn(len(nums))])...), d[sp[1]:]...)
			}
		case 5: // shorten a line
			layer = "shortline"
			q := rng.Intn(len(d))
			if p := bytes.IndexByte(d[q:], '\r'); p > 1 {
				e := q + p
				cut := q + rng.Intn(e-q)
				d = append(d[:cut], d[e:]...)
			}
		default: // duplicate a chunk
			layer = "duplicate"
			a := rng.Intn(len(d))
			e := a + rng.Intn(len(d)-a)
			d = append(d[:e], append(append([]byte(nil), d[a:e]...), d[e:]...)...)
		}
		out = append(out, Transcript{ID: baseID + i + 1, Role: b.role, Pend: b.pend, Desc: "mutant:" + layer, Kind: "mutant", Layer: layer,
			Data: base64.StdEncoding.EncodeToString(d)})
	}
	return out
}

// numberSpans finds decimal numbers inside CR-terminated text lines.
func numberSpans(d []byte) [][2]int {
	var out [][2]int
	i := 0
	for i < len(d) {
		if d[i] >= '0' && d[i] <= '9' && i > 0 && d[i-1] == ' ' {
			j := i
			for j < len(d) && d[j] >= '0' && d[j] <= '9' {
				j++
			}
			out = append(out, [2]int{i, j})
			i = j
		} else {
			i++
		}
	}
	return out
}
