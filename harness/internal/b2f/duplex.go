// Package b2f is the conformance harness of the B2F session family (C01-C05, C16, C17).
package b2f

import (
	"errors"
	"io"
	"math/rand"
	"net"
	"sync"
	"time"
)

// Link is an in-memory full-duplex byte link between two stations "A" and "B" that doubles as a
// deterministic scheduler (DESIGN.md 2.2) and as the fault injector (cut, alteration).
//
// All state is guarded by mu; every Write/Read/Close is an instrumentation point: the Observer is
// called while mu is held, so observed events are in a real happens-before order.
type Link struct {
	mu   sync.Mutex
	cond *sync.Cond

	dir map[string]*pipe // keyed by the *receiver* of the direction
	end map[string]*End

	Sched string // "free", "afirst", "bfirst", "sync"
	Seg   string // "all", "one", "rand", "line"
	rng   *rand.Rand

	// fault: cut the link when CutDir's writer has written CutAt bytes in total (CutDir = receiver name)
	CutDir      string
	CutAt       int
	CutWriteErr bool // writes after the cut fail (true) or silently succeed (false)
	CutDropRev  bool // reverse-direction bytes still in flight are dropped at the cut
	cut         bool

	// alteration of the byte stream towards AltDir (receiver name): see Alter
	AltDir string
	Alter  func(off int, b byte) (out []byte) // maps the byte at absolute offset off to 0..n bytes

	// StallIsCut: when both stations are blocked reading with nothing in flight (a damaged stream can leave the
	// receiver waiting for bytes that never come), the link is declared dead, as a radio link's idle timeout would.
	StallIsCut bool

	// DeadlineScale > 1 makes the link's clock run faster for deadlines: a deadline d from now is honoured after
	// d/DeadlineScale (the code's minute-scale error-echo deadline is then waited for in sub-second real time).
	DeadlineScale int

	// WriteDelay paces the transport: every Write takes this long (slept outside the lock).
	WriteDelay time.Duration

	Obs Observer
}

// Observer receives link events under the link mutex.
type Observer interface {
	OnWrite(from string, p []byte) // bytes accepted from station `from` (before alteration/cut)
	OnClose(who string)
	OnCut()
}

type pipe struct {
	buf      []byte
	written  int  // bytes accepted from the writer
	wclosed  bool // writer closed its end: reader sees EOF after draining
	rclosed  bool // reader closed
	deadline time.Time
}

// End is one station's net.Conn.
type End struct {
	l         *Link
	name      string
	peer      string
	inRead    bool // blocked in Read with nothing to deliver
	done      bool // the station's Exchange has returned (set by the runner)
	closed    bool
	nClose    int
	rdeadline time.Time
	wdeadline time.Time
}

func NewLink(seed int64) *Link {
	l := &Link{dir: map[string]*pipe{"A": {}, "B": {}}, end: map[string]*End{}, Sched: "free", Seg: "all", CutAt: -1,
		rng: rand.New(rand.NewSource(seed))}
	l.cond = sync.NewCond(&l.mu)
	l.end["A"] = &End{l: l, name: "A", peer: "B"}
	l.end["B"] = &End{l: l, name: "B", peer: "A"}
	return l
}

func (l *Link) End(name string) *End { return l.end[name] }

// MarkDone tells the scheduler that a station will not read any more (its Exchange returned).
func (l *Link) MarkDone(name string) {
	l.mu.Lock()
	l.end[name].done = true
	l.cond.Broadcast()
	l.mu.Unlock()
}

func (l *Link) WasCut() bool { l.mu.Lock(); defer l.mu.Unlock(); return l.cut }

var errClosed = net.ErrClosed

type timeoutErr struct{}

func (timeoutErr) Error() string   { return "i/o timeout" }
func (timeoutErr) Timeout() bool   { return true }
func (timeoutErr) Temporary() bool { return true }

func (l *Link) doCut() {
	if l.cut {
		return
	}
	l.cut = true
	if l.CutDropRev {
		for _, p := range l.dir {
			_ = p
		}
		// drop bytes in flight in the reverse direction (towards the writer of CutDir)
		rev := l.end[l.CutDir].peer
		l.dir[rev].buf = nil
	}
	if l.Obs != nil {
		l.Obs.OnCut()
	}
	l.cond.Broadcast()
}

func (e *End) Write(p []byte) (int, error) {
	l := e.l
	if l.WriteDelay > 0 {
		time.Sleep(l.WriteDelay)
	}
	l.mu.Lock()
	defer l.mu.Unlock()
	if e.closed {
		return 0, errClosed
	}
	out := l.dir[e.peer]
	if l.cut {
		if l.CutWriteErr {
			return 0, io.ErrClosedPipe
		}
		return len(p), nil
	}
	if out.rclosed || l.end[e.peer].closed {
		return 0, io.ErrClosedPipe
	}
	if l.Obs != nil {
		l.Obs.OnWrite(e.name, p)
	}
	for _, b := range p {
		if l.CutDir == e.peer && l.CutAt >= 0 && out.written >= l.CutAt {
			l.doCut()
			if l.CutWriteErr {
				return 0, io.ErrClosedPipe
			}
			return len(p), nil
		}
		if l.AltDir == e.peer && l.Alter != nil {
			out.buf = append(out.buf, l.Alter(out.written, b)...)
		} else {
			out.buf = append(out.buf, b)
		}
		out.written++
	}
	if l.CutDir == e.peer && l.CutAt >= 0 && out.written >= l.CutAt {
		l.doCut()
	}
	l.cond.Broadcast()
	if l.Sched == "sync" {
		// a write returns only when consumed (net.Pipe semantics)
		var timer *time.Timer
		for len(out.buf) > 0 && !l.cut && !l.end[e.peer].closed && !l.end[e.peer].done && !e.closed {
			if !e.wdeadline.IsZero() {
				if !time.Now().Before(e.wdeadline) {
					return 0, timeoutErr{}
				}
				if timer == nil {
					timer = time.AfterFunc(time.Until(e.wdeadline), func() { l.mu.Lock(); l.cond.Broadcast(); l.mu.Unlock() })
					defer timer.Stop()
				}
			}
			l.cond.Wait()
		}
	}
	return len(p), nil
}

// mayRun says whether the scheduling policy allows station name to be granted bytes now.
func (l *Link) mayRun(name string) bool {
	var first string
	switch l.Sched {
	case "afirst":
		first = "A"
	case "bfirst":
		first = "B"
	default:
		return true
	}
	if name == first {
		return true
	}
	f := l.end[first]
	return f.inRead || f.done || f.closed
}

func (e *End) Read(p []byte) (int, error) {
	l := e.l
	l.mu.Lock()
	defer l.mu.Unlock()
	in := l.dir[e.name]
	if len(p) == 0 {
		return 0, nil
	}
	var timer *time.Timer
	for {
		if e.closed {
			return 0, errClosed
		}
		if !e.rdeadline.IsZero() && !time.Now().Before(e.rdeadline) {
			return 0, timeoutErr{}
		}
		avail := len(in.buf)
		if avail > 0 && l.mayRun(e.name) {
			n := avail
			switch l.Seg {
			case "one":
				n = 1
			case "rand":
				n = 1 + l.rng.Intn(avail)
				if l.rng.Intn(3) == 0 {
					n = 1 + l.rng.Intn(1+avail/8)
				}
			case "line":
				for i, b := range in.buf {
					if b == '\r' {
						n = i + 1
						break
					}
				}
			}
			if n > len(p) {
				n = len(p)
			}
			copy(p, in.buf[:n])
			in.buf = in.buf[n:]
			e.inRead = false
			l.cond.Broadcast()
			return n, nil
		}
		if avail == 0 {
			if l.cut || in.wclosed || l.end[e.peer].closed {
				e.inRead = false
				return 0, io.EOF
			}
			// blocked with nothing to read: the other side may run
			if !e.inRead {
				e.inRead = true
				l.cond.Broadcast()
			}
			if pe := l.end[e.peer]; l.StallIsCut && pe.inRead && len(l.dir[e.peer].buf) == 0 && !pe.done {
				l.doCut()
				continue
			}
		}
		if !e.rdeadline.IsZero() && timer == nil {
			d := time.Until(e.rdeadline)
			timer = time.AfterFunc(d, func() { l.mu.Lock(); l.cond.Broadcast(); l.mu.Unlock() })
			defer timer.Stop()
		}
		l.cond.Wait()
	}
}

func (e *End) Close() error {
	l := e.l
	l.mu.Lock()
	defer l.mu.Unlock()
	e.nClose++
	if e.closed {
		return errClosed
	}
	e.closed = true
	l.dir[e.peer].wclosed = true
	l.dir[e.name].rclosed = true
	if l.Obs != nil {
		l.Obs.OnClose(e.name)
	}
	l.cond.Broadcast()
	return nil
}

func (e *End) Closed() bool { e.l.mu.Lock(); defer e.l.mu.Unlock(); return e.closed }

type addr string

func (a addr) Network() string { return "mem" }
func (a addr) String() string  { return string(a) }

func (e *End) LocalAddr() net.Addr  { return addr(e.name) }
func (e *End) RemoteAddr() net.Addr { return addr(e.peer) }
func (e *End) scale(t time.Time) time.Time {
	if t.IsZero() || e.l.DeadlineScale <= 1 {
		return t
	}
	return time.Now().Add(time.Until(t) / time.Duration(e.l.DeadlineScale))
}
func (e *End) SetDeadline(t time.Time) error {
	e.l.mu.Lock()
	e.rdeadline, e.wdeadline = e.scale(t), e.scale(t)
	e.l.cond.Broadcast()
	e.l.mu.Unlock()
	return nil
}
func (e *End) SetReadDeadline(t time.Time) error {
	e.l.mu.Lock()
	e.rdeadline = e.scale(t)
	e.l.cond.Broadcast()
	e.l.mu.Unlock()
	return nil
}
func (e *End) SetWriteDeadline(t time.Time) error {
	e.l.mu.Lock()
	e.wdeadline = e.scale(t)
	e.l.cond.Broadcast()
	e.l.mu.Unlock()
	return nil
}

var _ net.Conn = (*End)(nil)
var _ = errors.New
