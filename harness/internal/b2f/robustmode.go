package b2f

import (
	"encoding/json"
	"flag"
	"fmt"
	"math/rand"
	"net"
	"os"

	"github.com/la5nta/wl2k-go/fbb"

	"verifharness/internal/rec"
)

// Robust-mode switching (spec/b2f/RobustMode.tla): the session's connection implements transport.Robust and records every
// SetRobust call, in the calling station's program order, among the station's own wire units.

// robustEnd is a connection that implements transport.Robust.
type robustEnd struct {
	net.Conn
	name string
	r    *Recorder
	pend func() int // bytes this station has written that do not yet make a complete protocol unit
}

func (e *robustEnd) SetRobust(on bool) error {
	e.r.Add(rec.Event{"op": "Robust", "s": e.name, "on": on, "pend": e.pend()})
	return nil
}

func setRobustMode(sess *fbb.Session, m string) {
	switch m {
	case "auto":
		sess.SetRobustMode(fbb.RobustAuto)
	case "forced":
		sess.SetRobustMode(fbb.RobustForced)
	case "disabled":
		sess.SetRobustMode(fbb.RobustDisabled)
	}
}

// stationTrace projects a session's events onto one station: its SetRobust calls, its own wire units, its return.
func stationTrace(evs []rec.Event, s string) []rec.Event {
	var out []rec.Event
	for _, e := range evs {
		if e["s"] != s {
			continue
		}
		switch e["op"] {
		case "Robust":
			out = append(out, rec.Event{"op": "Robust", "on": e["on"], "pend": e["pend"]})
		case "Unit":
			out = append(out, rec.Event{"op": "Unit", "kind": e["kind"]})
		case "Return":
			out = append(out, rec.Event{"op": "Ret", "res": e["res"]})
		}
	}
	return out
}

// MainRobustMode is the "b2f-robustmode" subcommand: clean and cut two-station sessions, every station with a robust-mode
// setting of its own; one trace per station.
func MainRobustMode(args []string) int {
	fs := flag.NewFlagSet("b2f-robustmode", flag.ExitOnError)
	out := fs.String("out", "", "trace ndjson")
	n := fs.Int("n", 150, "seeded scenarios")
	workers := fs.Int("workers", 8, "parallel sessions")
	fs.Parse(args)
	rng := rand.New(rand.NewSource(rec.Seed()))
	modes := []string{"auto", "forced", "disabled", "none"}
	polW := map[string]int{"+": 6, "-": 2, "=": 2}
	var scs []*Scenario
	// seed-independent core: every pair of modes x block structures (nothing to send, one block, several blocks, answers
	// without any accept)
	for _, ma := range modes {
		for _, mb := range modes {
			for ci, c := range [][2]int{{0, 0}, {2, 1}, {7, 0}, {3, 3}} {
				pw := polW
				if ci == 3 {
					pw = map[string]int{"-": 1, "=": 1}
				}
				sc := GenScenario(rng, 0, c[0], c[1], pw, false)
				sc.Robust = map[string]string{"A": ma, "B": mb}
				scs = append(scs, sc)
			}
		}
	}
	for i := 0; i < *n; i++ {
		sc := GenScenario(rng, 0, -1, -1, polW, false)
		sc.Robust = map[string]string{"A": modes[rng.Intn(4)], "B": modes[rng.Intn(4)]}
		scs = append(scs, sc)
	}
	for i, sc := range scs {
		sc.ID = i + 1
	}
	clean := parallel(scs, *workers, runClean)
	// the same scenarios with the link cut somewhere in one direction (errors in the middle of a message included)
	var cuts []*Scenario
	for _, j := range clean {
		if j.res.TimedOut || j.res.Panic != "" {
			continue
		}
		sc := cloneScenario(j.sc)
		sc.Robust = j.sc.Robust
		rcv := []string{"A", "B"}[rng.Intn(2)]
		total := len(j.res.Bytes[peerOf(rcv)])
		sc.Fault = &Fault{Kind: "cut", Dir: rcv, At: rng.Intn(total + 1), WriteErr: rng.Intn(2) == 0, DropRev: rng.Intn(2) == 0}
		sc.ID = len(scs) + len(cuts) + 1
		cuts = append(cuts, sc)
	}
	jobs := append(clean, parallel(cuts, *workers, runClean)...)
	w, err := rec.NewWriter(*out)
	if err != nil {
		fmt.Fprintln(os.Stderr, err)
		return 2
	}
	defer w.Close()
	st := map[string]int{}
	for _, j := range jobs {
		if j.res.TimedOut {
			st["timedout"]++ // a hang is the business of C01 / C02, not of this projection
			continue
		}
		for _, s := range []string{"A", "B"} {
			m := j.sc.Robust[s]
			tr := stationTrace(j.evs, s)
			w.Write(map[string]interface{}{"scen": j.sc.ID, "s": s, "mode": m, "cut": j.sc.Fault != nil}, tr)
			st["traces"]++
			st["mode_"+m]++
			frames, regions, dirty := 0, 0, 0
			for _, e := range tr {
				switch {
				case e["op"] == "Unit" && e["kind"] == "Frame":
					frames++
				case e["op"] == "Robust" && m == "auto" && e["on"] == false && frames >= 0:
					regions++
				}
				if e["op"] == "Robust" && e["pend"].(int) > 0 {
					dirty++
				}
			}
			st["frames"] += frames
			if m == "auto" {
				st["auto_calls_off"] += regions
			}
			if dirty > 0 {
				st["calls_with_incomplete_unit"]++ // the restoring call after an error in the middle of a message
			}
			if j.sc.Fault != nil {
				st["cut_traces"]++
			}
		}
	}
	b, _ := json.Marshal(st)
	fmt.Println(string(b))
	return 0
}
