package b2f

import (
	"bytes"
	"errors"
	"fmt"
	"hash/fnv"
	"math/rand"
	"os"
	"path/filepath"
	"strings"
	"sync"
	"syscall"
	"time"

	"github.com/la5nta/wl2k-go/fbb"
	"github.com/la5nta/wl2k-go/mailbox"

	"verifharness/internal/rec"
)

// Recorder collects the abstract events of one execution in happens-before order.
type Recorder struct {
	mu  sync.Mutex
	evs []rec.Event
}

func (r *Recorder) Add(ev rec.Event) {
	r.mu.Lock()
	r.evs = append(r.evs, ev)
	r.mu.Unlock()
}

func (r *Recorder) Events() []rec.Event {
	r.mu.Lock()
	defer r.mu.Unlock()
	return append([]rec.Event(nil), r.evs...)
}

// MsgSpec is the abstract description of one queued message (chosen by the scenario generator).
type MsgSpec struct {
	MID      string `json:"mid"`
	Prec     int    `json:"prec"`     // 0 flash, 1 immediate, 2 priority, 3 routine
	Size     string `json:"size"`     // tiny small medium large
	Att      int    `json:"att"`      // number of attachments
	NonASCII bool   `json:"nonascii"` // subject / file names contain Latin-1 characters
	Policy   string `json:"policy"`   // how the receiving handler answers: "+", "-", "=" or "dedup"
	Sole     bool   `json:"sole"`     // the peer is the only recipient (needed for P2P routing of a directory mailbox)
}

var precMarker = []string{"//WL2K Z/ ", "//WL2K O/ ", "//WL2K P/ ", ""}
var fixedDate = time.Date(2019, 5, 6, 7, 8, 0, 0, time.UTC)

func rngFor(seed int64, key string) *rand.Rand {
	h := fnv.New64a()
	h.Write([]byte(key))
	return rand.New(rand.NewSource(seed ^ int64(h.Sum64())))
}

func randText(rng *rand.Rand, n int) string {
	words := []string{"the", "quick", "brown", "fox", "jumps", "over", "lazy", "dog", "winlink", "radio", "73", "de", "QTH", "wx", "report"}
	var sb strings.Builder
	for sb.Len() < n {
		sb.WriteString(words[rng.Intn(len(words))])
		if rng.Intn(12) == 0 {
			sb.WriteString("\r\n")
		} else {
			sb.WriteByte(' ')
		}
	}
	return sb.String()[:n]
}

// BuildMessage concretises a MsgSpec (sender from, receiver to) deterministically from the seed.
func BuildMessage(spec MsgSpec, from, to string, seed int64) *fbb.Message {
	rng := rngFor(seed, spec.MID)
	m := fbb.NewMessage(fbb.Private, from)
	m.Header.Set("Mid", spec.MID)
	m.SetDate(fixedDate.Add(time.Duration(rng.Intn(500000)) * time.Minute))
	m.AddTo(to)
	if rng.Intn(3) == 0 && !spec.Sole {
		m.AddCc("someone@example.com")
	}
	subj := precMarker[spec.Prec] + "Subject " + spec.MID
	if spec.NonASCII {
		subj += " æøå ÆØÅ ü"
	}
	m.SetSubject(subj)
	if rng.Intn(3) == 0 {
		// extension headers travel with the message (only the mailbox's own bookkeeping headers are private)
		m.Header.Set("X-Location", "60.13N 10.25E (GPS)")
		m.Header.Set("X-Priority", "4")
	}
	n := map[string]int{"tiny": 12, "small": 300, "medium": 6000, "large": 120000 + rng.Intn(150000)}[spec.Size]
	if n == 0 {
		n = 40
	}
	body := randText(rng, n)
	if spec.Size == "large" && rng.Intn(2) == 0 {
		// incompressible body: many STX chunks
		b := make([]byte, n)
		for i := range b {
			b[i] = byte(33 + rng.Intn(94))
			if i%70 == 69 {
				b[i] = '\n'
			}
		}
		body = string(b)
	}
	if spec.NonASCII {
		body += "\r\nblåbærsyltetøy"
	}
	m.SetBody(body)
	for i := 0; i < spec.Att; i++ {
		sz := []int{0, 1, 200, 5000}[rng.Intn(4)]
		if spec.Size == "large" {
			sz = 20000 + rng.Intn(30000)
		}
		data := make([]byte, sz)
		rng.Read(data)
		name := fmt.Sprintf("att%d-%s.bin", i, spec.MID)
		if spec.NonASCII {
			name = fmt.Sprintf("vedlegg-æø%d.bin", i)
		}
		m.AddFile(fbb.NewFile(name, data))
		if i == 0 && spec.Att >= 2 && rng.Intn(2) == 0 {
			m.AddFile(fbb.NewFile(name, data)) // the same attachment twice (same name, same size) is two attachments
		}
	}
	if spec.Size == "huge" {
		// more than 999999 bytes compressed: beyond what a resume offset can address, but a message like any other
		data := make([]byte, 1050000)
		rng.Read(data)
		m.AddFile(fbb.NewFile("huge-"+spec.MID+".bin", data))
	}
	return m
}

// Station is the persistent in-memory mailbox of one station plus the per-session recording handler state.
// It is the "in-memory reference handler" of C02: duplicates are suppressed by MID when Policy is "dedup".
type Station struct {
	Name   string
	Call   string
	rec    *Recorder
	mu     sync.Mutex
	queue  []string          // outbound MIDs in queueing order
	raw    map[string][]byte // serialised outbound messages as queued
	sent   map[string]bool
	inbox  map[string]int // MID -> number of successful stores
	pol    map[string]string
	expect map[string][]byte // for inbound MIDs: the bytes the peer queued (content identity projection)

	deferred  map[string]bool
	askedOnce map[string]bool // "once=" policy: MIDs that were already deferred once
	// fault: fail the n-th ProcessInbound call of a session (1-based), 0 = never
	FailStoreAt int
	// OutboundGate: from the second call on, GetOutbound waits (at most 3 s) until this channel is closed - a mailbox that is
	// slow to answer while the other station has already said FQ and hung up
	OutboundGate <-chan struct{}
	GateFrom     int // first gated call (default 2)
	nOutbound    int
	FSFailAt     int // directory mailbox: the n-th store hits a real file-system fault
	FSPartialAt  int // ... in the middle of writing the file (the process's file size limit is lowered for the call)
	nStore       int
	Batched      bool
	NilAnswers   bool

	// Dir, when set, makes the station a recording wrapper around a real mailbox.DirHandler: all persistent
	// state (outbox, sent, inbox, duplicate suppression) is the directory's.
	Dir *mailbox.DirHandler
	tmp string
}

func NewStation(name, call string, r *Recorder) *Station {
	return &Station{Name: name, Call: call, rec: r, raw: map[string][]byte{}, sent: map[string]bool{}, inbox: map[string]int{},
		pol: map[string]string{}, expect: map[string][]byte{}}
}

// Queue adds an outbound message.
func (s *Station) Queue(m *fbb.Message) {
	b, err := m.Bytes()
	if err != nil {
		panic(err)
	}
	s.queue = append(s.queue, m.MID())
	s.raw[m.MID()] = b
	if s.Dir != nil {
		if err := s.Dir.Prepare(); err != nil {
			panic(err)
		}
		if err := s.Dir.AddOut(m); err != nil {
			panic(err)
		}
	}
}

func (s *Station) Raw(mid string) []byte { return s.raw[mid] }

// Expect tells the station what an inbound MID must contain and how to answer it.
func (s *Station) Expect(mid string, raw []byte, policy string) {
	s.expect[mid] = raw
	s.pol[mid] = policy
}

func (s *Station) Prepare() error {
	s.mu.Lock()
	s.deferred = map[string]bool{}
	s.nStore = 0
	s.mu.Unlock()
	s.rec.Add(rec.Event{"op": "Prepare", "s": s.Name})
	if s.Dir != nil {
		return s.Dir.Prepare()
	}
	return nil
}

func (s *Station) GetOutbound(fw ...fbb.Address) []*fbb.Message {
	s.mu.Lock()
	s.nOutbound++
	gate, n := s.OutboundGate, s.nOutbound
	s.mu.Unlock()
	from := s.GateFrom
	if from == 0 {
		from = 2
	}
	if gate != nil && n >= from {
		select {
		case <-gate:
		case <-time.After(3 * time.Second):
		}
	}
	if s.Dir != nil {
		out := s.Dir.GetOutbound(fw...)
		mids, fws := []string{}, []string{}
		for _, m := range out {
			mids = append(mids, m.MID())
		}
		for _, a := range fw {
			fws = append(fws, strings.ToUpper(a.String()))
		}
		s.rec.Add(rec.Event{"op": "Offer", "s": s.Name, "ms": mids, "fw": fws, "lib": true})
		return out
	}
	s.mu.Lock()
	var out []*fbb.Message
	mids := []string{}
	for _, mid := range s.queue {
		if s.sent[mid] || s.deferred[mid] {
			continue
		}
		m := new(fbb.Message)
		if err := m.ReadFrom(bytes.NewReader(s.raw[mid])); err != nil {
			panic(fmt.Sprintf("harness: cannot re-read queued message %s: %v", mid, err))
		}
		out = append(out, m)
		mids = append(mids, mid)
	}
	s.mu.Unlock()
	fws := []string{}
	for _, a := range fw {
		fws = append(fws, strings.ToUpper(a.String()))
	}
	s.rec.Add(rec.Event{"op": "Offer", "s": s.Name, "ms": mids, "fw": fws, "lib": true})
	return out
}

func (s *Station) SetSent(mid string, rejected bool) {
	s.mu.Lock()
	s.sent[mid] = true
	s.mu.Unlock()
	s.rec.Add(rec.Event{"op": "SetSent", "s": s.Name, "m": mid, "rej": rejected})
	if s.Dir != nil {
		s.Dir.SetSent(mid, rejected)
	}
}

func (s *Station) SetDeferred(mid string) {
	s.mu.Lock()
	if s.deferred != nil {
		s.deferred[mid] = true
	}
	s.mu.Unlock()
	s.rec.Add(rec.Event{"op": "SetDeferred", "s": s.Name, "m": mid})
	if s.Dir != nil {
		s.Dir.SetDeferred(mid)
	}
}

func (s *Station) answer(p fbb.Proposal) fbb.ProposalAnswer {
	if s.Dir != nil {
		s.mu.Lock()
		once := s.pol[p.MID()] == "once="
		if s.askedOnce == nil {
			s.askedOnce = map[string]bool{}
		}
		first := once && !s.askedOnce[p.MID()]
		s.askedOnce[p.MID()] = true
		s.mu.Unlock()
		if first {
			return fbb.Defer
		}
		return s.Dir.GetInboundAnswer(p)
	}
	s.mu.Lock()
	defer s.mu.Unlock()
	switch s.pol[p.MID()] {
	case "once=": // defer the first time the MID is ever proposed, then behave like "dedup"
		if s.askedOnce == nil {
			s.askedOnce = map[string]bool{}
		}
		if !s.askedOnce[p.MID()] {
			s.askedOnce[p.MID()] = true
			return fbb.Defer
		}
		if s.inbox[p.MID()] > 0 {
			return fbb.Reject
		}
		return fbb.Accept
	case "-":
		return fbb.Reject
	case "=":
		return fbb.Defer
	case "dedup", "":
		if s.inbox[p.MID()] > 0 {
			return fbb.Reject
		}
		return fbb.Accept
	}
	return fbb.Accept
}

func (s *Station) GetInboundAnswer(p fbb.Proposal) fbb.ProposalAnswer {
	a := s.answer(p)
	s.rec.Add(rec.Event{"op": "HAnswer", "s": s.Name, "m": p.MID(), "a": string([]byte{byte(a)}),
		"size": p.Size(), "csize": p.CompressedSize()})
	return a
}

func (s *Station) ProcessInbound(msgs ...*fbb.Message) error {
	for _, m := range msgs {
		s.mu.Lock()
		s.nStore++
		fail := s.FailStoreAt > 0 && s.nStore == s.FailStoreAt
		s.mu.Unlock()
		b, err := m.Bytes()
		want, known := s.expect[m.MID()]
		intact := err == nil && known && bytes.Equal(b, want)
		if fail {
			s.rec.Add(rec.Event{"op": "Store", "s": s.Name, "m": m.MID(), "intact": intact, "err": true})
			return errors.New("storage failure (injected)")
		}
		if s.Dir != nil {
			block := ""
			if s.FSFailAt > 0 && s.nStore == s.FSFailAt {
				// the name the message's file must get is occupied by a non-empty directory: writing it fails
				block = filepath.Join(s.Dir.MBoxPath, "in", m.MID()+".b2f")
				os.MkdirAll(filepath.Join(block, "occupied"), 0755)
			}
			var lim syscall.Rlimit
			partial := s.FSPartialAt > 0 && s.nStore == s.FSPartialAt && syscall.Getrlimit(syscall.RLIMIT_FSIZE, &lim) == nil
			if partial {
				low := lim
				low.Cur = uint64(len(b)/2 + 1)
				syscall.Setrlimit(syscall.RLIMIT_FSIZE, &low)
			}
			err := s.Dir.ProcessInbound(m)
			if partial {
				syscall.Setrlimit(syscall.RLIMIT_FSIZE, &lim)
			}
			if block != "" {
				os.RemoveAll(block)
			}
			if err != nil {
				s.rec.Add(rec.Event{"op": "Store", "s": s.Name, "m": m.MID(), "intact": intact, "err": true})
				return err
			}
			// success was reported: the message must be in the inbox now, complete
			onDisk := false
			if msgs, lerr := s.Dir.Inbox(); lerr == nil {
				for _, dm := range msgs {
					if dm.MID() == m.MID() {
						for _, h := range []string{"X-FilePath", "X-Unread", "X-P2POnly"} {
							dm.Header.Del(h)
						}
						db, _ := dm.Bytes()
						onDisk = bytes.Equal(db, b)
					}
				}
			}
			intact = intact && onDisk
		}
		s.mu.Lock()
		s.inbox[m.MID()]++
		s.mu.Unlock()
		s.rec.Add(rec.Event{"op": "Store", "s": s.Name, "m": m.MID(), "intact": intact, "err": false})
	}
	return nil
}

// Batched wraps a Station as a fbb.BatchedInboundHandler.
type Batched struct{ *Station }

func (b Batched) GetInboundAnswers(ps []fbb.Proposal) []fbb.ProposalAnswer {
	out := make([]fbb.ProposalAnswer, len(ps))
	for i, p := range ps {
		out[i] = b.Station.GetInboundAnswer(p)
	}
	return out
}

// Snapshot returns the persistent state for end-of-sequence checks.
func (s *Station) Snapshot() (pending, sent []string, inbox map[string]int) {
	s.mu.Lock()
	defer s.mu.Unlock()
	inbox = map[string]int{}
	for _, mid := range s.queue {
		if s.sent[mid] {
			sent = append(sent, mid)
		} else {
			pending = append(pending, mid)
		}
	}
	for k, v := range s.inbox {
		inbox[k] = v
	}
	return
}
