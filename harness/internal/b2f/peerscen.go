package b2f

import (
	"bufio"
	"bytes"
	"crypto/md5"
	"encoding/json"
	"flag"
	"fmt"
	"io"
	"log"
	"math/rand"
	"os"
	"runtime/debug"
	"strings"
	"sync"
	"time"

	"github.com/la5nta/wl2k-go/fbb"

	"verifharness/internal/rec"
)

// PeerScenario: the library (station A, real Session + recording handler) against the scripted peer (station B).
type PeerScenario struct {
	ID      int               `json:"id"`
	Lib     []MsgSpec         `json:"lib"`    // messages queued on the library side; Policy is unused (the script answers)
	LibPol  map[string]string `json:"libpol"` // how the library's handler answers the peer's MIDs ("+", "-", "=")
	Batched bool              `json:"batched"`
	Script  *PeerScript       `json:"script"`
	Seg     string            `json:"seg"`
	Sched   string            `json:"sched"`
	Seed    int64             `json:"seed"`
	// library-side settings
	UA      [2]string  `json:"ua"`
	MyCall  string     `json:"mycall"`
	Locator string     `json:"locator"`
	Aux     []string   `json:"aux"`
	Secure  *SecureCfg `json:"secure,omitempty"`
	// C17: a status updater on the library session, and per-write pacing of the link
	Status       bool `json:"status"`
	WriteDelayMs int  `json:"writedelayms"`
}

// SecureCfg configures the secure-login callback of the library side (C16).
type SecureCfg struct {
	Password string            `json:"password"`
	AuxPw    map[string]string `json:"auxpw"`    // aux address -> password ("" = none)
	AuxErr   bool              `json:"auxerr"`   // the callback reports an unknown auxiliary password with an error
	Callback string            `json:"callback"` // "ok", "none" (not registered), "error"
	// FirstTry: before the recorded session the same Session object has had a login refused: it answered this challenge
	// with this (wrong) password, the remote said "*** Secure login failed"; the application retries with the right one
	FirstTry [2]string `json:"firsttry"`
}

var sidVariants = []string{"[WL2K-5.0-B2FWIHJM$]", "[RMS Express-1.5.35.0-B2FHM$]", "[FBB-7.00-AB1B2FHM$]", "[wl2kgo-0.1a-b2fhm$]",
	"[JNOS-2.0m-IHMB2F$]", "[BPQ-6.0.23.1-B2FIHJM$]", "[X-1-FB2$]", "[WL2K-B2FWIHJM$]", "[X-B2F$]"}

var answerTokens = map[string][]string{"+": {"+", "Y", "y", "!0", "A0", "a0"}, "-": {"-", "N", "n", "R", "r"}, "=": {"=", "L", "l", "H", "h"}}

// GenPeerScenario draws one conforming peer scenario.
func GenPeerScenario(rng *rand.Rand, id int) *PeerScenario {
	used := map[string]bool{}
	ps := &PeerScenario{ID: id, LibPol: map[string]string{}, Seed: rng.Int63(), Seg: []string{"all", "one", "rand", "line"}[rng.Intn(4)],
		Sched: []string{"free", "afirst", "bfirst"}[rng.Intn(3)], Batched: rng.Intn(3) == 0,
		UA:     [2]string{[]string{"wl2kgo", "Pat", "my agent"}[rng.Intn(3)], []string{"0.1a", "0.15.1", "v1 (test)"}[rng.Intn(3)]},
		MyCall: []string{"LA1AAA", "la1aaa", "N0CALL-7"}[rng.Intn(3)], Locator: []string{"JO29PJ", "", "JP20"}[rng.Intn(3)]}
	if rng.Intn(3) == 0 {
		ps.Aux = []string{"LA9AUX", "LA8TAC-1"}[:1+rng.Intn(2)]
	}
	sc := &PeerScript{Master: rng.Intn(2) == 0, Sid: sidVariants[rng.Intn(len(sidVariants))], Answers: map[string]string{},
		EarlyFQ: rng.Intn(5) == 0}
	ps.Script = sc
	if sc.Master && rng.Intn(3) == 0 {
		// a secure login with auxiliary addresses, some with a password: every configured address must still be requested
		sc.PQ = fmt.Sprintf("%08d", rng.Intn(100000000))
		ps.Aux = []string{"LA9AUX", "LA8TAC-1", "N0AUX"}[:1+rng.Intn(3)]
		ps.Secure = &SecureCfg{Password: "main-pw", AuxPw: map[string]string{"LA9AUX": "aux-pw-1", "LA8TAC-1": "", "N0AUX": []string{"", "aux-pw-3"}[rng.Intn(2)]}, Callback: "ok"}
	}
	switch rng.Intn(3) {
	case 0:
		sc.Fw = ";FW: LA2BBB"
	case 1:
		sc.Fw = ";FW: LA2BBB LA9XXX|12345678 SM0XYZ"
	}
	if rng.Intn(2) == 0 {
		sc.Comments = []string{"; WL2K DE LA2BBB (JO29PJ)", ";comment without space", "; MESSAGE OF THE DAY: all is well"}[:1+rng.Intn(3)]
	}
	if sc.Master {
		sc.Prompt = []string{"; LA1AAA DE LA2BBB (JP20)>", "LA2BBB BBS>", "Hello LA1AAA, latest msg 123 >"}[rng.Intn(3)]
		if rng.Intn(2) == 0 {
			sc.Motd = []string{"Welcome to LA2BBB", "*** MTD Stats Total connects = 2580 Total messages = 3900", "Type H for help"}[:1+rng.Intn(3)]
			if rng.Intn(2) == 0 {
				sc.Motd = append([]string{"", sc.Motd[0], ""}, sc.Motd[1:]...) // blank lines in the text
			}
		}
	}
	if rng.Intn(3) == 0 {
		sc.PreFS = []string{";PM: LA1AAA ABCDEF123456 423 LA2BBB A pending message", "; a comment before FS"}[:1+rng.Intn(2)]
	}
	if rng.Intn(3) == 0 {
		sc.PreProp = []string{";PM: LA1AAA ZZZ999 1234 someone@example.com Subject with spaces", ";"}[:1+rng.Intn(2)]
	}
	nLib := []int{0, 1, 2, 3, 5, 6, 7, 11, 13}[rng.Intn(9)]
	if sc.EarlyFQ && nLib == 0 && rng.Intn(2) == 0 {
		sc.HangUpAfterFQ = true
	}
	if sc.EarlyFQ && nLib > 5 {
		nLib = 5
	}
	// CMS-style quit: the library has nothing (more) to say when the peer's last block is done - nothing queued, or it is
	// slave and its one block is accepted or rejected in its first turn
	cmsLibAll := false
	if rng.Intn(6) == 0 {
		sc.CmsQuit = true
		if rng.Intn(3) == 0 {
			sc.CmsLingerMs = 60 // the library's FF crosses the FQ on the wire
		}
		if sc.Master && rng.Intn(2) == 0 {
			nLib, cmsLibAll = 1+rng.Intn(5), true
		} else {
			nLib = 0
		}
		sc.FFFirst = false
	}
	// the peer may say FF in its first turn although it has messages (they "arrive later"); only meaningful when the
	// session goes on, i.e. the peer is slave and the library has something to send
	sc.FFFirst = !sc.CmsQuit && !sc.Master && nLib > 0 && rng.Intn(3) == 0
	for i := 0; i < nLib; i++ {
		ms := MsgSpec{MID: randMID(rng, used), Prec: []int{3, 3, 2, 1, 0}[rng.Intn(5)], Size: pick(rng, map[string]int{"tiny": 3, "small": 4, "medium": 2}),
			NonASCII: rng.Intn(4) == 0, Att: rng.Intn(3) / 2}
		cls := pick(rng, map[string]int{"+": 6, "-": 2, "=": 2})
		if cmsLibAll && cls == "=" {
			cls = "+"
		}
		ms.Policy = cls
		toks := answerTokens[cls]
		sc.Answers[ms.MID] = toks[rng.Intn(len(toks))]
		ps.Lib = append(ps.Lib, ms)
	}
	chunkPlans := [][]int{{1}, {2, 3}, {125}, {250}, {255}, {256}, {128, 256, 1}, {7, 256, 255, 13}}
	nPeer := []int{0, 1, 2, 3, 5, 6, 7}[rng.Intn(7)]
	for i := 0; i < nPeer; i++ {
		pm := PeerMsg{Spec: MsgSpec{MID: randMID(rng, used), Prec: 3, Size: pick(rng, map[string]int{"tiny": 3, "small": 4, "medium": 2}),
			NonASCII: rng.Intn(4) == 0, Att: rng.Intn(3) / 2}, Chunks: chunkPlans[rng.Intn(len(chunkPlans))], Dup: rng.Intn(8) == 0}
		if rng.Intn(4) == 0 {
			pm.Chunks = []int{1 + rng.Intn(256), 1 + rng.Intn(256), 1 + rng.Intn(256)}
		}
		pol := pick(rng, map[string]int{"+": 6, "-": 2, "=": 2})
		pm.Spec.Policy = pol
		ps.LibPol[pm.Spec.MID] = pol
		sc.Msgs = append(sc.Msgs, pm)
	}
	return ps
}

// RunPeerScenario executes the scenario and returns the recorded events.
func RunPeerScenario(ps *PeerScenario) ([]rec.Event, Result) {
	r := &Recorder{}
	lib := NewStation("A", calls["A"], r)
	mycall := ps.MyCall
	if mycall == "" {
		mycall = calls["A"]
	}
	expect := map[string][]byte{}
	for _, ms := range ps.Lib {
		m := BuildMessage(ms, mycall, calls["B"], ps.Seed)
		lib.Queue(m)
		expect[ms.MID] = lib.Raw(ms.MID)
		r.Add(rec.Event{"op": "Queue", "s": "A", "m": ms.MID, "policy": ms.Policy, "prec": ms.Prec})
	}
	for mid, raw := range PeerRaw(ps.Script, ps.Seed) {
		lib.Expect(mid, raw, ps.LibPol[mid])
	}
	for _, pm := range ps.Script.Msgs {
		r.Add(rec.Event{"op": "Queue", "s": "B", "m": pm.Spec.MID, "policy": ps.LibPol[pm.Spec.MID], "prec": pm.Spec.Prec})
	}
	l := NewLink(ps.Seed)
	l.Sched, l.Seg = ps.Sched, ps.Seg
	l.StallIsCut = false
	obs := newLinkObserver(r)
	l.Obs = obs
	master := "A"
	if ps.Script.Master {
		master = "B"
	}
	r.Add(rec.Event{"op": "Session", "master": master, "fault": false})
	// what the library station must announce in its ;FW line: its own call, then the auxiliary addresses, in order
	expfw := []string{strings.ToUpper(mycall)}
	for _, a := range ps.Aux {
		expfw = append(expfw, strings.ToUpper(a))
	}
	r.Add(rec.Event{"op": "ExpectFw", "s": "A", "addrs": expfw})
	var h fbb.MBoxHandler = lib
	if ps.Batched {
		h = Batched{lib}
	}
	sess := fbb.NewSession(mycall, calls["B"], ps.Locator, h)
	sess.IsMaster(!ps.Script.Master)
	sess.SetLogger(log.New(os.Stderr, "", 0))
	sess.SetLogger(discard)
	if ps.Status {
		sess.SetStatusUpdater(statusRec{side: "A", r: r})
		l.WriteDelay = time.Duration(ps.WriteDelayMs) * time.Millisecond
	}
	if ps.UA[0] != "" {
		sess.SetUserAgent(fbb.UserAgent{Name: ps.UA[0], Version: ps.UA[1]})
	}
	for _, a := range ps.Aux {
		sess.AddAuxiliaryAddress(fbb.AddressFromString(a))
	}
	firstTry := false
	if sec := ps.Secure; sec != nil && sec.Callback == "nil" {
		sess.SetSecureLoginHandleFunc(nil) // explicitly un-registered: the same as never registered
	} else if sec != nil && sec.Callback == "setnil" {
		// registered, then un-registered again
		sess.SetSecureLoginHandleFunc(func(addr fbb.Address) (string, error) { return sec.Password, nil })
		sess.SetSecureLoginHandleFunc(nil)
	} else if sec != nil && sec.Callback != "none" {
		sess.SetSecureLoginHandleFunc(func(addr fbb.Address) (string, error) {
			if sec.Callback == "error" {
				return "", fmt.Errorf("no password available")
			}
			if pw, ok := sec.AuxPw[addr.Addr]; ok {
				if pw == "" && sec.AuxErr {
					return "", fmt.Errorf("no password known for %s", addr.Addr) // "unknown" reported as an error instead of ""
				}
				return pw, nil
			}
			if firstTry {
				return sec.FirstTry[1], nil
			}
			return sec.Password, nil
		})
	}
	if sec := ps.Secure; sec != nil && sec.FirstTry[0] != "" && ps.Script.Master {
		firstTry = true
		l0 := NewLink(ps.Seed + 1)
		go func() {
			b := l0.End("B")
			defer b.Close()
			io.WriteString(b, ps.Script.Sid+"\r;PQ: "+sec.FirstTry[0]+"\rCMS >\r")
			rd := bufio.NewReader(b)
			for {
				line, err := rd.ReadString('\r')
				if err != nil {
					return
				}
				if strings.HasPrefix(line, "F") { // the station's first command: the login is refused now
					io.WriteString(b, "*** Secure login failed - account password does not match\r")
					return
				}
			}
		}()
		func() {
			defer func() { recover() }()
			a := l0.End("A")
			sess.Exchange(a)
			a.Close()
		}()
		firstTry = false
	}
	var gate chan struct{}
	if ps.Script.HangUpAfterFQ {
		gate = make(chan struct{})
		lib.OutboundGate = gate
	}
	if ps.Script.CmsQuit && ps.Script.CmsLingerMs == 0 && ps.Seed%3 != 0 {
		// the library's mailbox answers only when the peer has gone: its FF meets a closed link (otherwise the two race)
		gate = make(chan struct{})
		lib.OutboundGate = gate
		if !ps.Script.Master {
			lib.GateFrom = 1 // the peer has the first turn: the library's first look into its mailbox comes after the peer's block
		}
	}
	type ret struct {
		s     string
		stats fbb.TrafficStats
		err   error
		pan   string
		probs []string
	}
	done := make(chan ret, 2)
	go func() {
		rt := ret{s: "A"}
		conn := l.End("A")
		defer func() {
			if p := recover(); p != nil {
				rt.pan = fmt.Sprintf("%v\n%s", p, debug.Stack())
				conn.Close()
			}
			l.MarkDone("A")
			done <- rt
		}()
		rt.stats, rt.err = sess.Exchange(conn)
	}()
	go func() {
		rt := ret{s: "B"}
		defer func() {
			if p := recover(); p != nil {
				rt.pan = fmt.Sprintf("harness peer panic: %v\n%s", p, debug.Stack())
				l.End("B").Close()
			}
			l.MarkDone("B")
			done <- rt
		}()
		rt.err, rt.probs = RunPeer(ps.Script, l.End("B"), r, ps.Seed, expect)
		if gate != nil {
			close(gate)
		}
	}()
	res := Result{Ret: map[string]string{}}
	timeout := time.After(20 * time.Second)
	for i := 0; i < 2; i++ {
		select {
		case rt := <-done:
			ev := rec.Event{"op": "Return", "s": rt.s, "res": classify(rt.err), "sent": nz(rt.stats.Sent), "recv": nz(rt.stats.Received)}
			if rt.s == "B" {
				// the peer's "statistics" are what it saw: transferred and stored MIDs
				var sent, recv []string
				for _, e := range r.Events() {
					if e["s"] == "B" && e["op"] == "SetSent" && e["rej"] == false {
						sent = append(sent, e["m"].(string))
					}
					if e["s"] == "B" && e["op"] == "Store" {
						recv = append(recv, e["m"].(string))
					}
				}
				ev["sent"], ev["recv"] = nz(sent), nz(recv)
				if rt.err != nil {
					ev["res"] = "err"
				}
			}
			if rt.err != nil {
				ev["errtext"] = rt.err.Error()
			}
			if rt.pan != "" {
				ev["res"], ev["panic"] = "panic", firstLines(rt.pan, 14)
				res.Panic = rt.pan
			}
			res.Ret[rt.s] = ev["res"].(string)
			r.Add(ev)
		case <-timeout:
			res.TimedOut = true
			l.End("A").Close()
			l.End("B").Close()
			i = 2
		}
	}
	r.Add(rec.Event{"op": "End", "timedout": res.TimedOut, "cut": l.WasCut(), "pendingA": obs.lex["A"].Pending(), "pendingB": obs.lex["B"].Pending()})
	res.Bytes = obs.bytes
	return r.Events(), res
}

// MainC05 is the "b2f-c05" subcommand: the library against the conforming scripted peer.
func MainC05(args []string) int {
	fs := flag.NewFlagSet("b2f-c05", flag.ExitOnError)
	out := fs.String("out", "", "trace ndjson")
	scenOut := fs.String("scenarios", "", "scenario output")
	n := fs.Int("n", 300, "scripted sessions")
	workers := fs.Int("workers", 8, "parallel sessions")
	fs.Parse(args)
	rng := rand.New(rand.NewSource(rec.Seed()))
	var scs []*PeerScenario
	for i := 0; i < *n; i++ {
		scs = append(scs, GenPeerScenario(rng, i+1))
	}
	results := make([][]rec.Event, len(scs))
	var wg sync.WaitGroup
	ch := make(chan int)
	for w := 0; w < *workers; w++ {
		wg.Add(1)
		go func() {
			defer wg.Done()
			for i := range ch {
				results[i], _ = RunPeerScenario(scs[i])
			}
		}()
	}
	for i := range scs {
		ch <- i
	}
	close(ch)
	wg.Wait()
	w, err := rec.NewWriter(*out)
	if err != nil {
		fmt.Fprintln(os.Stderr, err)
		return 2
	}
	defer w.Close()
	var sw *rec.Writer
	if *scenOut != "" {
		sw, _ = rec.NewWriter(*scenOut)
		defer sw.Close()
	}
	moved, nontrivial := 0, 0
	for i, evs := range results {
		w.Write(map[string]interface{}{"scen": i + 1}, evs)
		mv := movedMessages(evs)
		moved += mv
		if mv > 0 {
			nontrivial++
		}
		if sw != nil {
			b, _ := json.Marshal(scs[i])
			var m map[string]interface{}
			json.Unmarshal(b, &m)
			sw.Write(m, nil)
		}
	}
	fmt.Printf("{\"traces\":%d,\"nontrivial\":%d,\"moved\":%d}\n", len(scs), nontrivial, moved)
	return 0
}

// ---------------------------------------------------------------------------------------------
// C16: secure login. The peer is master and issues ;PQ; the library's ;FW / ;PR lines are projected into one
// Login event per handshake, with the MD5 digests computed by the harness from challenge, password and the salt
// exported from the specification (spec/secure/salt.json).

func digestOf(challenge, password string, salt []byte) []int {
	sum := md5.Sum(append([]byte(challenge+password), salt...))
	out := make([]int, 16)
	for i, b := range sum {
		out[i] = int(b)
	}
	return out
}

var pwAlphabet = []string{strings.Repeat("long-password-", 4) + "x", strings.Repeat("P", 56), strings.Repeat("Q", 64), strings.Repeat("0123456789", 12), strings.Repeat("z", 300), "FOOBAR", "s3cret!", "Sup3rS3cret ", " leading", "with space inside", "pässwörd", "UPPER", "upper", "a|b|c", "12345678", "x", "tab\there", "ends\\", "%s%d%n", "ÆØÅ\xff\xfe"}

func MainC16(args []string) int {
	fs := flag.NewFlagSet("b2f-c16", flag.ExitOnError)
	out := fs.String("out", "", "trace ndjson")
	saltPath := fs.String("salt", "", "salt.json from the specification")
	n := fs.Int("n", 2000, "handshakes")
	workers := fs.Int("workers", 8, "parallel sessions")
	fs.Parse(args)
	var saltInts []int
	b, err := os.ReadFile(*saltPath)
	if err == nil {
		err = json.Unmarshal(b, &saltInts)
	}
	if err != nil {
		fmt.Fprintln(os.Stderr, "salt:", err)
		return 2
	}
	salt := make([]byte, len(saltInts))
	for i, v := range saltInts {
		salt[i] = byte(v)
	}
	rng := rand.New(rand.NewSource(rec.Seed()))
	type item struct {
		ps *PeerScenario
	}
	var scs []*PeerScenario
	mk := func(challenge, password string, aux []string, auxpw map[string]string, cb string) {
		ps := &PeerScenario{ID: len(scs) + 1, LibPol: map[string]string{}, Seed: rng.Int63(), Seg: []string{"all", "one", "rand"}[rng.Intn(3)],
			Sched: "free", MyCall: "LA1AAA", Locator: "JO29PJ", Aux: aux,
			Secure: &SecureCfg{Password: password, AuxPw: auxpw, Callback: cb, AuxErr: rng.Intn(2) == 0},
			Script: &PeerScript{Master: true, Sid: sidVariants[rng.Intn(len(sidVariants))], PQ: challenge, Answers: map[string]string{},
				PQFirst: rng.Intn(4) == 0, Prompt: "CMS via LA2BBB >"}}
		scs = append(scs, ps)
	}
	// the repository's published vector
	mk("23753528", "FOOBAR", nil, nil, "ok")
	// responses with leading zeros (the value before padding has fewer than eight digits), the prompt character in the challenge,
	// a callback that was registered and removed again
	mk("10000003", "PASS", nil, nil, "ok")
	for c := 0; c < 400; c++ {
		mk(fmt.Sprintf("%08d", 20000000+c), "PASS", nil, nil, "ok")
	}
	mk("2375352>", "FOOBAR", nil, nil, "ok")
	// a retry on the same Session after a refused login: the answer is for this challenge and the password of this try
	for _, c := range []string{"11112222", "87654321"} {
		mk(c, "right-password", nil, nil, "ok")
		scs[len(scs)-1].Secure.FirstTry = [2]string{"55556666", "wrong-password"}
	}
	mk("23753528", "FOOBAR", nil, nil, "setnil")
	auxCalls := []string{"LA9AUX", "ops@example.org", "LA8TAC-1", "N0CALL"}
	for i := 0; i < *n; i++ {
		var challenge string
		switch rng.Intn(6) {
		case 0:
			challenge = fmt.Sprintf("%d", rng.Intn(100))
		case 1:
			challenge = "ABC-not digits " + fmt.Sprint(rng.Intn(1000))
		case 2:
			challenge = fmt.Sprintf("%040d", rng.Int63())
		case 3:
			// challenges that begin with characters of the ";PQ: " prefix itself
			// ... or end in the character that ends a prompt
			challenge = []string{"QX482913", "PQ123456", ":1234567", ";;PQ: 12", "Q", "PPPPPPPP", "P:Q;1234", "2375352>", "12345678>", ">"}[rng.Intn(10)]
		default:
			challenge = fmt.Sprintf("%08d", rng.Intn(100000000))
		}
		pw := pwAlphabet[rng.Intn(len(pwAlphabet))]
		if rng.Intn(25) == 0 {
			pw = "" // an empty password is a password: the response is still defined
		} else if rng.Intn(2) == 0 {
			bb := make([]byte, 1+rng.Intn(20))
			for j := range bb {
				bb[j] = byte(32 + rng.Intn(95))
			}
			pw = string(bb)
		}
		var aux []string
		auxpw := map[string]string{}
		for _, a := range auxCalls[:rng.Intn(5)] {
			aux = append(aux, a)
			if rng.Intn(2) == 0 {
				auxpw[a] = pwAlphabet[rng.Intn(len(pwAlphabet))] + fmt.Sprint(rng.Intn(10))
			} else {
				auxpw[a] = ""
			}
		}
		cb := "ok"
		switch rng.Intn(12) {
		case 0:
			cb = "none"
		case 1:
			cb = "error"
		case 2:
			cb = "nil"
		case 3:
			cb = "setnil"
		}
		mk(challenge, pw, aux, auxpw, cb)
	}
	results := make([]rec.Event, len(scs))
	var wg sync.WaitGroup
	ch := make(chan int)
	for w := 0; w < *workers; w++ {
		wg.Add(1)
		go func() {
			defer wg.Done()
			for i := range ch {
				ps := scs[i]
				evs, res := RunPeerScenario(ps)
				sec := ps.Secure
				ev := rec.Event{"op": "Login", "cb": sec.Callback, "challenge": ps.Script.PQ, "mycall": "LA1AAA", "res": res.Ret["A"],
					"digest": digestOf(ps.Script.PQ, sec.Password, salt), "pr": "", "prcount": 0, "prBeforeCmd": true, "fwfirst": "",
					"panic": res.Panic != "" || res.TimedOut, "pwlen": len(sec.Password)}
				aux := []map[string]interface{}{}
				sawCmd := false
				for _, e := range evs {
					if e["op"] != "Unit" || e["s"] != "A" {
						continue
					}
					switch e["kind"] {
					case "Pr":
						ev["prcount"] = ev["prcount"].(int) + 1
						ev["pr"] = e["response"]
						if sawCmd {
							ev["prBeforeCmd"] = false
						}
					case "Fw":
						addrs := e["addrs"].([]string)
						hashes := e["hashes"].([]string)
						if len(addrs) > 0 {
							ev["fwfirst"] = addrs[0]
							if hashes[0] != "" {
								ev["fwfirst"] = addrs[0] + "|" + hashes[0]
							}
						}
						for k := 1; k < len(addrs); k++ {
							tok := addrs[k]
							if hashes[k] != "" {
								tok += "|" + hashes[k]
							}
							a := map[string]interface{}{"token": tok, "addr": "?", "haspw": false, "digest": digestOf("", "", salt)}
							if k-1 < len(ps.Aux) {
								want := fbb.AddressFromString(ps.Aux[k-1]).Addr
								pw := sec.AuxPw[want]
								a["addr"], a["haspw"], a["digest"] = want, pw != "", digestOf(ps.Script.PQ, pw, salt)
							}
							aux = append(aux, a)
						}
						if len(addrs)-1 != len(ps.Aux) {
							aux = append(aux, map[string]interface{}{"token": "<count>", "addr": "?", "haspw": false, "digest": digestOf("", "", salt)})
						}
					case "Prop", "FF", "FQ", "EndBlock":
						sawCmd = true
					case "Bad":
						ev["panic"] = true
					}
				}
				ev["aux"] = aux
				// the password itself must not be on the wire (meaningful for distinctive passwords only)
				onwire := false
				for pwk, pw := range map[string]string{"main": sec.Password} {
					_ = pwk
					if len(pw) >= 5 && bytes.Contains(res.Bytes["A"], []byte(pw)) {
						onwire = true
					}
				}
				for _, pw := range sec.AuxPw {
					if len(pw) >= 5 && bytes.Contains(res.Bytes["A"], []byte(pw)) {
						onwire = true
					}
				}
				ev["pwonwire"] = onwire
				results[i] = ev
			}
		}()
	}
	for i := range scs {
		ch <- i
	}
	close(ch)
	wg.Wait()
	w, err := rec.NewWriter(*out)
	if err != nil {
		fmt.Fprintln(os.Stderr, err)
		return 2
	}
	defer w.Close()
	distinct := map[string]bool{}
	for i, ev := range results {
		w.Write(map[string]interface{}{"scen": i + 1}, []rec.Event{ev})
		distinct[fmt.Sprint(ev["challenge"], "|", scs[i].Secure.Password, "|", scs[i].Aux, "|", ev["cb"])] = true
	}
	fmt.Printf("{\"traces\":%d,\"distinct\":%d}\n", len(results), len(distinct))
	return 0
}
