package b2f

import (
	"bytes"
	stdgzip "compress/gzip"
	"encoding/json"
	"flag"
	"fmt"
	"io"
	"math/rand"
	"os"
	"os/signal"
	"sort"
	"strings"
	"sync"
	"syscall"
	"time"

	"github.com/la5nta/wl2k-go/fbb"

	"verifharness/internal/rec"
)

const alnum = "ABCDEFGHIJKLMNOPQRSTUVWXYZ0123456789abcdefghijklmnopqrstuvwxyz"

func randMID(rng *rand.Rand, used map[string]bool) string {
	for {
		n := 1 + rng.Intn(12)
		if rng.Intn(2) == 0 {
			n = 12
		}
		b := make([]byte, n)
		for i := range b {
			b[i] = alnum[rng.Intn(len(alnum))]
		}
		if !used[string(b)] {
			used[string(b)] = true
			return string(b)
		}
	}
}

func pick(rng *rand.Rand, w map[string]int) string {
	keys := make([]string, 0, len(w))
	tot := 0
	for k, v := range w {
		keys = append(keys, k)
		tot += v
	}
	sort.Strings(keys)
	r := rng.Intn(tot)
	for _, k := range keys {
		if r < w[k] {
			return k
		}
		r -= w[k]
	}
	return keys[0]
}

// GenScenario draws one abstract scenario. nA/nB < 0 means "choose".
func GenScenario(rng *rand.Rand, id, nA, nB int, polW map[string]int, allowLarge bool) *Scenario {
	counts := []int{0, 0, 1, 1, 2, 3, 5, 6, 7, 11, 13}
	if nA < 0 {
		nA = counts[rng.Intn(len(counts))]
	}
	if nB < 0 {
		nB = counts[rng.Intn(len(counts))]
	}
	used := map[string]bool{}
	sc := &Scenario{ID: id, Master: []string{"A", "B"}[rng.Intn(2)], Msgs: map[string][]MsgSpec{}, Batched: map[string]bool{},
		Sched: []string{"free", "free", "afirst", "bfirst", "sync"}[rng.Intn(5)], Seg: []string{"all", "one", "rand", "rand", "line"}[rng.Intn(5)],
		Seed: rng.Int63()}
	sizes := map[string]int{"tiny": 3, "small": 5, "medium": 2}
	if allowLarge {
		sizes["large"] = 1
	}
	for name, n := range map[string]int{"A": nA, "B": nB} {
		for i := 0; i < n; i++ {
			ms := MsgSpec{MID: randMID(rng, used), Prec: []int{3, 3, 3, 2, 1, 0}[rng.Intn(6)], Size: pick(rng, sizes),
				NonASCII: rng.Intn(4) == 0, Policy: pick(rng, polW)}
			if rng.Intn(3) == 0 {
				ms.Att = 1 + rng.Intn(2)
			}
			sc.Msgs[name] = append(sc.Msgs[name], ms)
		}
		sc.Batched[name] = rng.Intn(3) == 0
	}
	// map iteration order above is random: make the scenario canonical
	for _, name := range []string{"A", "B"} {
		sort.Slice(sc.Msgs[name], func(i, j int) bool { return sc.Msgs[name][i].MID < sc.Msgs[name][j].MID })
	}
	switch rng.Intn(5) {
	case 4:
		sc.Motd = []string{"Banner " + strings.Repeat("=-", 2500) + " end of a 5000 character line", "short line"}
	case 0:
		sc.Motd = []string{"Welcome to the test node", "Second MOTD line with text"}
	case 1:
		sc.Motd = []string{"*** MTD Stats Total connects = 2580 Total messages = 3900"}
	}
	return sc
}

// AbstractKey is the seed-independent identity of a scenario (for distinct counting).
func (sc *Scenario) AbstractKey() string {
	type k struct {
		Master     string
		A, B       []string
		BA, BB     bool
		Motd       int
		Sched, Seg string
		Fault      *Fault
	}
	f := func(ms []MsgSpec) []string {
		var o []string
		for _, m := range ms {
			o = append(o, fmt.Sprintf("%d%s%d%v%s", m.Prec, m.Size, m.Att, m.NonASCII, m.Policy))
		}
		sort.Strings(o)
		return o
	}
	b, _ := json.Marshal(k{sc.Master, f(sc.Msgs["A"]), f(sc.Msgs["B"]), sc.Batched["A"], sc.Batched["B"], len(sc.Motd), sc.Sched, sc.Seg, sc.Fault})
	return string(b)
}

// runClean executes one clean scenario and returns its events.
func runClean(sc *Scenario) ([]rec.Event, Result) {
	r := &Recorder{}
	st := Setup(sc, r)
	res := RunSession(sc, st, r, nil, nil)
	Cleanup(st)
	return r.Events(), res
}

type job struct {
	sc  *Scenario
	evs []rec.Event
	res Result
}

// parallel runs fn over scenarios with a worker pool, preserving order.
func parallel(scs []*Scenario, workers int, fn func(*Scenario) ([]rec.Event, Result)) []job {
	out := make([]job, len(scs))
	var wg sync.WaitGroup
	ch := make(chan int)
	for w := 0; w < workers; w++ {
		wg.Add(1)
		go func() {
			defer wg.Done()
			for i := range ch {
				evs, res := fn(scs[i])
				out[i] = job{scs[i], evs, res}
			}
		}()
	}
	for i := range scs {
		ch <- i
	}
	close(ch)
	wg.Wait()
	return out
}

func movedMessages(evs []rec.Event) int {
	n := 0
	for _, e := range evs {
		if e["op"] == "Store" {
			n++
		}
	}
	return n
}

// MainC01 is the "b2f-c01" subcommand: clean two-session exchanges.
func MainC01(args []string) int {
	fs := flag.NewFlagSet("b2f-c01", flag.ExitOnError)
	out := fs.String("out", "", "trace ndjson")
	scenOut := fs.String("scenarios", "", "write the executed scenarios (ndjson) here")
	scenIn := fs.String("scen", "", "scenarios (ndjson) generated from the specification")
	n := fs.Int("n", 200, "seeded scenarios")
	large := fs.Int("large", 4, "scenarios with large messages")
	workers := fs.Int("workers", 8, "parallel sessions")
	fs.Parse(args)
	rng := rand.New(rand.NewSource(rec.Seed()))
	var scs []*Scenario
	if *scenIn != "" {
		err := rec.ReadNDJSON(*scenIn, func(line []byte) error {
			sc := &Scenario{}
			if err := json.Unmarshal(line, sc); err != nil {
				return err
			}
			if sc.Seed == 0 {
				sc.Seed = rng.Int63()
			}
			scs = append(scs, sc)
			return nil
		})
		if err != nil {
			fmt.Fprintln(os.Stderr, err)
			return 2
		}
	}
	polW := map[string]int{"+": 6, "-": 2, "=": 2}
	// seed-independent core: block structure x roles x policies (0, 1, 5, 6, 11 messages a side)
	for _, c := range [][2]int{{0, 0}, {1, 0}, {0, 1}, {1, 1}, {5, 0}, {6, 0}, {0, 6}, {11, 2}, {6, 6}, {2, 11}, {13, 0}} {
		for _, master := range []string{"A", "B"} {
			for _, pw := range []map[string]int{{"+": 1}, polW} {
				sc := GenScenario(rng, 0, c[0], c[1], pw, false)
				sc.Master = master
				scs = append(scs, sc)
			}
		}
	}
	for i := 0; i < *n; i++ {
		scs = append(scs, GenScenario(rng, 0, -1, -1, polW, false))
	}
	for i := 0; i < *large; i++ {
		sc := GenScenario(rng, 0, 1+rng.Intn(2), rng.Intn(2), map[string]int{"+": 1}, true)
		sc.Msgs["A"][0].Size = "large"
		sc.Seg = []string{"all", "rand"}[i%2]
		scs = append(scs, sc)
	}
	// a message of more than 999999 bytes compressed, in either role
	for _, master := range []string{"A", "B"} {
		sc := GenScenario(rng, 0, 2, 1, map[string]int{"+": 1}, true)
		sc.Master = master
		sc.Msgs["A"][0].Size = "huge"
		sc.Seg = "all"
		scs = append(scs, sc)
	}
	for i, sc := range scs {
		sc.ID = i + 1
	}
	jobs := parallel(scs, *workers, runClean)
	w, err := rec.NewWriter(*out)
	if err != nil {
		fmt.Fprintln(os.Stderr, err)
		return 2
	}
	defer w.Close()
	var sw *rec.Writer
	if *scenOut != "" {
		sw, _ = rec.NewWriter(*scenOut)
		defer sw.Close()
	}
	keys := map[string]bool{}
	moved, nontrivial := 0, 0
	for _, j := range jobs {
		w.Write(map[string]interface{}{"scen": j.sc.ID}, j.evs)
		if sw != nil {
			b, _ := json.Marshal(j.sc)
			var m map[string]interface{}
			json.Unmarshal(b, &m)
			sw.Write(m, nil)
		}
		mv := movedMessages(j.evs)
		moved += mv
		if mv > 0 && !keys[j.sc.AbstractKey()] {
			nontrivial++
		}
		keys[j.sc.AbstractKey()] = true
	}
	fmt.Printf("{\"traces\":%d,\"distinct\":%d,\"nontrivial\":%d,\"moved\":%d}\n", len(jobs), len(keys), nontrivial, moved)
	return 0
}

// ---------------------------------------------------------------------------------------------
// C02: link cuts at every byte position, storage failures, sequences of faulty sessions + a clean one.

func cloneScenario(sc *Scenario) *Scenario {
	b, _ := json.Marshal(sc)
	c := &Scenario{}
	json.Unmarshal(b, c)
	return c
}

// runSequence runs the given faults as consecutive sessions on the same two mailboxes, followed by a clean session.
func runSequence(base *Scenario, faults []*Fault) ([]rec.Event, bool) {
	r := &Recorder{}
	st := Setup(base, r)
	hung := false
	// two clean sessions at the end: a message deferred once ("once=") in the first is delivered in the second
	for i, f := range append(append([]*Fault{}, faults...), nil, nil) {
		sc := cloneScenario(base)
		sc.ID = base.ID*16 + i
		sc.Fault = f
		if f != nil && f.Kind == "cut" {
			// the link dies: segmentation as in the base scenario; the scheduler policy stays
		}
		res := RunSession(sc, st, r, nil, nil)
		if res.TimedOut {
			hung = true
			break
		}
	}
	r.Add(rec.Event{"op": "EndAll"})
	Cleanup(st)
	return r.Events(), hung
}

func c02Cores(rng *rand.Rand) []*Scenario {
	var out []*Scenario
	mk := func(nA, nB int, pol map[string]int, master, sched, seg string) {
		sc := GenScenario(rng, len(out)+1, nA, nB, pol, false)
		sc.Master, sc.Sched, sc.Seg = master, sched, seg
		sc.Motd = nil
		for _, side := range []string{"A", "B"} {
			for i := range sc.Msgs[side] {
				if sc.Msgs[side][i].Size == "medium" {
					sc.Msgs[side][i].Size = "small"
				}
				sc.Msgs[side][i].Att = 0
			}
		}
		out = append(out, sc)
	}
	dd := map[string]int{"dedup": 1}
	mk(1, 0, dd, "B", "free", "all")
	mk(1, 0, dd, "A", "afirst", "all")
	mk(2, 1, map[string]int{"dedup": 4, "=": 1, "-": 1}, "A", "free", "rand")
	mk(2, 1, dd, "B", "bfirst", "all")
	mk(6, 0, dd, "B", "free", "all")
	// synchronous link (a write returns only when consumed, like net.Pipe) with several messages per block
	mk(3, 0, dd, "B", "sync", "all")
	mk(2, 2, map[string]int{"dedup": 2, "once=": 1}, "A", "sync", "rand")
	// transports with a transmit buffer and Flush (what the radio modems give the session)
	mk(2, 1, dd, "A", "free", "all")
	out[len(out)-1].Flushable = true
	mk(3, 0, dd, "B", "free", "rand")
	out[len(out)-1].Flushable = true
	// the real directory mailbox on both sides (P2P routing needs sole recipients)
	for ci, c := range [][2]int{{1, 1}, {2, 0}, {3, 0}} {
		pol := dd
		if ci == 2 {
			pol = map[string]int{"dedup": 1, "once=": 1}
		}
		mk(c[0], c[1], pol, "A", "free", "all")
		sc := out[len(out)-1]
		sc.Handler = "dir"
		for _, side := range []string{"A", "B"} {
			for i := range sc.Msgs[side] {
				sc.Msgs[side][i].Sole = true
			}
		}
	}
	return out
}

// MainC02 is the "b2f-c02" subcommand.
func MainC02(args []string) int {
	fs := flag.NewFlagSet("b2f-c02", flag.ExitOnError)
	out := fs.String("out", "", "trace ndjson")
	scenOut := fs.String("scenarios", "", "scenario/fault list output")
	stride := fs.Int("stride", 7, "cut position stride for all but the first core scenario")
	workers := fs.Int("workers", 8, "parallel sequences")
	seqs := fs.Int("seqs", 60, "random multi-fault sequences")
	tmp := fs.String("tmp", os.TempDir(), "scratch for directory mailboxes")
	fspartial := fs.Bool("fspartial", false, "only the sequences in which a store fails in the middle of writing the file (file size limit; one session at a time)")
	fs.Parse(args)
	os.MkdirAll(*tmp, 0755)
	TmpBase = *tmp
	rng := rand.New(rand.NewSource(rec.Seed()))
	cores := c02Cores(rng)
	if *fspartial {
		// the file size limit is the process's: nothing else may write files meanwhile
		*workers = 1
		signal.Ignore(syscall.SIGXFSZ)
	}
	type item struct {
		base   *Scenario
		faults []*Fault
	}
	var items []item
	for ci, core := range cores {
		if *fspartial {
			if core.Handler == "dir" {
				for _, side := range []string{"A", "B"} {
					for i := 1; i <= len(core.Msgs[peerOf(side)]); i++ {
						items = append(items, item{core, []*Fault{{Kind: "fspartial", Dir: side, At: i}}})
					}
				}
			}
			continue
		}
		// clean transcript lengths
		_, res := runClean(cloneScenario(core))
		if res.TimedOut || res.Ret["A"] != "nil" || res.Ret["B"] != "nil" {
			fmt.Fprintf(os.Stderr, "core scenario %d does not complete cleanly: %v\n", ci, res.Ret)
			// still enumerate: C01 is the check that reports this
		}
		for _, dir := range []string{"A", "B"} {
			L := len(res.Bytes[peerOf(dir)]) // bytes written towards dir
			st := 1
			if ci > 0 {
				st = *stride
			}
			off := 0
			if st > 1 {
				off = rng.Intn(st)
			}
			for k := off; k <= L; k += st {
				items = append(items, item{core, []*Fault{{Kind: "cut", Dir: dir, At: k, WriteErr: (k/st)%2 == 0, DropRev: (k/st)%4 < 2}}})
			}
			// always include the last bytes of the transcript in that direction (confirmation window)
			for k := L - 12; k <= L; k++ {
				if k >= 0 && st > 1 {
					items = append(items, item{core, []*Fault{{Kind: "cut", Dir: dir, At: k, WriteErr: k%2 == 0, DropRev: k%3 == 0}}})
				}
			}
		}
		// storage failure at every inbound message index, on either side
		for _, side := range []string{"A", "B"} {
			for i := 1; i <= len(core.Msgs[peerOf(side)]); i++ {
				items = append(items, item{core, []*Fault{{Kind: "storefail", Dir: side, At: i}}})
				if core.Handler == "dir" {
					// a real file-system fault in the directory mailbox (the message's file name is blocked by a directory)
					items = append(items, item{core, []*Fault{{Kind: "fsfail", Dir: side, At: i}}})
				}
			}
		}
		// sequences: (cut, cut, clean), (storefail, cut, clean)
		for i := 0; i < *seqs/len(cores); i++ {
			var fl []*Fault
			for j := 0; j < 2+rng.Intn(2); j++ {
				dir := []string{"A", "B"}[rng.Intn(2)]
				L := len(res.Bytes[peerOf(dir)])
				if rng.Intn(4) == 0 && len(core.Msgs[peerOf(dir)]) > 0 {
					fl = append(fl, &Fault{Kind: "storefail", Dir: dir, At: 1 + rng.Intn(len(core.Msgs[peerOf(dir)]))})
				} else {
					fl = append(fl, &Fault{Kind: "cut", Dir: dir, At: rng.Intn(L + 1), WriteErr: rng.Intn(2) == 0, DropRev: rng.Intn(2) == 0})
				}
			}
			items = append(items, item{core, fl})
		}
	}
	type outT struct {
		evs  []rec.Event
		hung bool
	}
	results := make([]outT, len(items))
	var wg sync.WaitGroup
	ch := make(chan int)
	for w := 0; w < *workers; w++ {
		wg.Add(1)
		go func() {
			defer wg.Done()
			for i := range ch {
				b := cloneScenario(items[i].base)
				b.ID = i + 1
				evs, hung := runSequence(b, items[i].faults)
				results[i] = outT{evs, hung}
			}
		}()
	}
	for i := range items {
		ch <- i
	}
	close(ch)
	wg.Wait()
	w, err := rec.NewWriter(*out)
	if err != nil {
		fmt.Fprintln(os.Stderr, err)
		return 2
	}
	defer w.Close()
	var sw *rec.Writer
	if *scenOut != "" {
		sw, _ = rec.NewWriter(*scenOut)
		defer sw.Close()
	}
	sessions, nontrivial := 0, 0
	keys := map[string]bool{}
	for i, it := range items {
		w.Write(map[string]interface{}{"item": i + 1}, results[i].evs)
		sessions += len(it.faults) + 2
		fb, _ := json.Marshal(it.faults)
		k := it.base.AbstractKey() + string(fb)
		if !keys[k] && movedMessages(results[i].evs) > 0 {
			nontrivial++
		}
		keys[k] = true
		if sw != nil {
			sw.Write(map[string]interface{}{"core": it.base, "faults": it.faults}, nil)
		}
	}
	fmt.Printf("{\"traces\":%d,\"sessions\":%d,\"distinct\":%d,\"nontrivial\":%d,\"cores\":%d}\n", len(items), sessions, len(keys), nontrivial, len(cores))
	return 0
}

// ---------------------------------------------------------------------------------------------
// C04: in-transit alteration of the SOH..EOT byte range of a transfer.

// applyAlter applies the fault's alteration to a whole byte stream (offline), as the link does online.
func applyAlter(f *Fault, stream []byte) []byte {
	fn := makeAlter(f)
	var out []byte
	for i, b := range stream {
		out = append(out, fn(i, b)...)
	}
	return out
}

// checksHold lexes the altered stream from the start of the transfer with the independent lexer and reports whether
// every integrity check of the protocol still holds for it (header structure and length, offset, block sizes,
// 8-bit sum, declared compressed size, payload CRC-16 and declared uncompressed size).
func checksHold(altered []byte, start int, csize, size int, gzip bool) bool {
	var first *Unit
	lx := NewLexer(func(u Unit) {
		if first == nil {
			u := u
			first = &u
		}
	})
	lx.ExpectFrames(1)
	if start > len(altered) {
		return false
	}
	lx.Feed(altered[start:])
	if first == nil || first.Kind != "Frame" {
		return false
	}
	f := first.F
	ok := f["hdrStruct"].(bool) && f["sumOK"].(bool) && f["offset"].(int) == 0 && f["nbytes"].(int) == csize
	if !gzip {
		ok = ok && f["crcOK"].(bool) && f["usize"].(int) == size
	} else if ok {
		// gzip payloads carry their own integrity data (CRC-32 and length in the trailer): judged with the standard library
		pl, _ := f["payload"].([]byte)
		zr, err := stdgzip.NewReader(bytes.NewReader(pl))
		if err != nil {
			return false
		}
		plain, err := io.ReadAll(zr)
		ok = err == nil && len(plain) == size
	}
	return ok
}

// MainC04 is the "b2f-c04" subcommand.
func MainC04(args []string) int {
	fs := flag.NewFlagSet("b2f-c04", flag.ExitOnError)
	out := fs.String("out", "", "trace ndjson")
	scenOut := fs.String("scenarios", "", "fault list output")
	stride := fs.Int("stride", 3, "stride for insertions and for the larger messages")
	pairs := fs.Int("pairs", 300, "sum-compensating pairs per message")
	workers := fs.Int("workers", 8, "parallel sessions")
	fs.Parse(args)
	rng := rand.New(rand.NewSource(rec.Seed()))
	type item struct {
		base  *Scenario
		fault *Fault
		holds bool
		class string
	}
	var items []item
	shapes := []MsgSpec{
		{MID: "TINY00000001", Prec: 3, Size: "tiny", Policy: "dedup"},
		{MID: "ONECHUNK0002", Prec: 3, Size: "small", Policy: "dedup", NonASCII: true},
		{MID: "MULTI0000003", Prec: 2, Size: "medium", Policy: "dedup"},
		{MID: "ATTACH000004", Prec: 3, Size: "small", Att: 2, Policy: "dedup"},
		{MID: "SUMZERO00005", Prec: 3, Size: "tiny", Policy: "dedup"}, // its compressed bytes sum to 0 mod 256 (seed searched below)
	}
	gz := os.Getenv("GZIP_EXPERIMENT") == "1"
	for si, shape := range shapes {
		base := &Scenario{ID: si + 1, Master: []string{"A", "B"}[si%2], Msgs: map[string][]MsgSpec{"A": {shape}}, Batched: map[string]bool{},
			Sched: "free", Seg: "all", Seed: rng.Int63(), Flushable: si == 1}
		_, res := runClean(cloneScenario(base))
		if shape.MID == "SUMZERO00005" && !gz {
			// search a content whose payload bytes sum to 0 mod 256: the transfer's checksum byte is then 0
			for try := 0; try < 4000; try++ {
				st := res.Bytes["A"]
				i0 := bytesIndexFrame(st)
				sum, ok := 0, i0 >= 0
				if ok {
					pos := i0 + 2 + int(st[i0+1])
					for pos < len(st) && st[pos] == 2 {
						n := int(st[pos+1])
						if n == 0 {
							n = 256
						}
						for _, c := range st[pos+2 : pos+2+n] {
							sum += int(c)
						}
						pos += 2 + n
					}
				}
				if ok && sum%256 == 0 {
					break
				}
				base.Seed = rng.Int63()
				_, res = runClean(cloneScenario(base))
			}
		}
		stream := res.Bytes["A"]
		// locate the transfer in A's byte stream with the lexer
		var frame *Unit
		var props []Unit
		lx := NewLexer(func(u Unit) {
			if u.Kind == "Frame" {
				u := u
				frame = &u
			}
			if u.Kind == "Prop" {
				props = append(props, u)
			}
		})
		// feed line by line; expect one frame after the proposal block
		idx := bytesIndexFrame(stream)
		if idx < 0 || len(props) != 0 {
			fmt.Fprintln(os.Stderr, "cannot locate the transfer in the clean transcript")
			return 2
		}
		lx.Feed(stream[:idx])
		lx.ExpectFrames(1)
		lx.Feed(stream[idx:])
		if frame == nil || len(props) != 1 {
			fmt.Fprintln(os.Stderr, "clean transcript does not lex")
			return 2
		}
		a, b := idx, idx+len(frame.Raw)
		csize, size := props[0].F["csize"].(int), props[0].F["size"].(int)
		hl := int(stream[a+1])
		dataStart := a + 2 + hl
		add := func(f *Fault, class string) {
			f.Kind, f.Dir = "alter", "B"
			alt := applyAlter(f, stream)
			items = append(items, item{base, f, checksHold(alt, a, csize, size, gz), class})
		}
		st := 1
		if b-a > 400 {
			st = *stride
		}
		for off := a; off < b; off += st {
			o := off
			if st > 1 {
				o = off + rng.Intn(st)
				if o >= b {
					o = b - 1
				}
			}
			add(&Fault{AltKind: "sub", At: o, Val: []int{0x01, 0x80, 0xff, 0x10, 0x02}[rng.Intn(5)]}, "sub")
			add(&Fault{AltKind: "del", At: o}, "del")
			if (off-a)%(*stride) == 0 {
				add(&Fault{AltKind: "ins", At: o, Val: rng.Intn(256)}, "ins")
			}
		}
		// always the structural bytes: SOH, length, offset digit, the NULs, first STX and its length, EOT and the sum
		for _, o := range []int{a, a + 1, dataStart - 2, dataStart - 1, dataStart, dataStart + 1, b - 2, b - 1} {
			for _, v := range []int{0x01, 0x80, 0xff} {
				add(&Fault{AltKind: "sub", At: o, Val: v}, "sub-struct")
			}
		}
		// the one-byte header length wraps at 256: 255, 256, 257 and 512 bytes inserted into the title, length byte untouched
		for _, n := range []int{255, 256, 257, 512} {
			ins := make([]int, n)
			for i := range ins {
				ins[i] = 'A' + i%26
			}
			add(&Fault{AltKind: "edit", InsAt: map[int][]int{a + 3: ins}}, "hdr-insert-wrap")
		}
		// sum-compensating pairs inside block data: adjacent and distant positions
		var dataPos, blkPos []int
		pos := dataStart
		for pos < b-2 {
			n := int(stream[pos+1])
			if n == 0 {
				n = 256
			}
			blkPos = append(blkPos, pos)
			for k := 0; k < n; k++ {
				dataPos = append(dataPos, pos+2+k)
			}
			pos += 2 + n
		}
		// edits that keep every block well formed and the 8-bit sum intact but change the number of payload bytes: the
		// declared compressed length no longer holds (and, except for surplus after the last genuine byte, the CRC)
		if len(blkPos) > 0 && len(dataPos) > 8 {
			eot := b - 2
			last := blkPos[len(blkPos)-1]
			ln := int(stream[last+1])
			// a single byte where a block (or the end) must begin: NUL ("padding"), CR, LF, blank - sum, lengths and CRC still hold
			for _, v := range []int{0, 13, 10, 32} {
				for _, at := range append([]int{eot}, blkPos[:min(len(blkPos), 3)]...) {
					add(&Fault{AltKind: "edit", InsAt: map[int][]int{at: {v}}}, "pad-at-boundary")
				}
			}
			add(&Fault{AltKind: "edit", InsAt: map[int][]int{eot: {2, 0}}}, "stx-zero")
			add(&Fault{AltKind: "edit", InsAt: map[int][]int{blkPos[0]: {2, 0}}}, "stx-zero")
			if len(blkPos) > 1 {
				add(&Fault{AltKind: "edit", InsAt: map[int][]int{blkPos[1]: {2, 0}}}, "stx-zero")
			}
			add(&Fault{AltKind: "edit", InsAt: map[int][]int{eot: {2, 1, 0}}}, "len-surplus-block")
			add(&Fault{AltKind: "edit", InsAt: map[int][]int{eot: {2, 2, 1, 0xff}}}, "len-surplus-block")
			add(&Fault{AltKind: "edit", InsAt: map[int][]int{eot: {2, 3, 0x80, 0x7f, 1}}}, "len-surplus-block")
			if ln > 0 && ln < 255 {
				add(&Fault{AltKind: "edit", InsAt: map[int][]int{eot: {0}}, Set: map[int]int{last + 1: ln + 1}}, "len-surplus-byte")
			}
			if len(blkPos) > 1 {
				add(&Fault{AltKind: "edit", InsAt: map[int][]int{blkPos[1]: {2, 1, 0}}}, "len-surplus-middle")
				add(&Fault{AltKind: "edit", InsAt: map[int][]int{blkPos[0]: {2, 2, 0xfe, 2}}}, "len-surplus-front")
			}
			if ln > 1 {
				// drop the last payload byte, its value added to another byte
				d := int(stream[eot-1])
				cp := dataPos[rng.Intn(len(dataPos)-2)]
				add(&Fault{AltKind: "edit", DelAt: map[int]bool{eot - 1: true}, Set: map[int]int{last + 1: ln - 1, cp: (int(stream[cp]) + d) & 0xff}}, "len-short-byte")
			}
			if len(blkPos) > 1 {
				// drop the whole last block, its sum added to a byte of the first block
				sum := 0
				del := map[int]bool{}
				for o := last; o < eot; o++ {
					del[o] = true
					if o >= last+2 {
						sum += int(stream[o])
					}
				}
				cp := dataPos[rng.Intn(8)]
				add(&Fault{AltKind: "edit", DelAt: del, Set: map[int]int{cp: (int(stream[cp]) + sum) & 0xff}}, "len-short-block")
			}
		}
		// targeted, sum-compensated changes of the payload's own header: CRC field (bytes 0,1) and size field (bytes 2..5)
		// set to chosen values, the 8-bit sum repaired at another data position
		if len(dataPos) > 16 {
			targets := [][]int{{0, 0}, {0xff, 0xff}, {int(stream[dataPos[1]]), int(stream[dataPos[0]])}}
			for _, tv := range targets {
				for rep := 0; rep < 4; rep++ {
					set := map[int]int{dataPos[0]: tv[0], dataPos[1]: tv[1]}
					delta := int(stream[dataPos[0]]) + int(stream[dataPos[1]]) - tv[0] - tv[1]
					cp := dataPos[6+rng.Intn(len(dataPos)-6)]
					set[cp] = (int(stream[cp]) + delta) & 0xff
					add(&Fault{AltKind: "set", Set: set}, "crc-field")
				}
			}
			for _, sz := range []int{0, 1, size - 1, size + 1, size + 256, 0x7fffffff, -1} {
				set := map[int]int{}
				delta := 0
				for k := 0; k < 4; k++ {
					v := (sz >> (8 * k)) & 0xff
					set[dataPos[2+k]] = v
					delta += int(stream[dataPos[2+k]]) - v
				}
				cp := dataPos[6+rng.Intn(len(dataPos)-6)]
				set[cp] = (int(stream[cp]) + delta) & 0xff
				add(&Fault{AltKind: "set", Set: set}, "size-field")
			}
		}
		if gz {
			// adjacent +1 / -1 pairs: the smallest sum-neutral damage, all over the payload
			for i := 0; i+1 < len(dataPos) && i < 400; i += 1 + len(dataPos)/150 {
				add(&Fault{AltKind: "pair", At: dataPos[i], At2: dataPos[i+1], Delta: 1}, "pair-adjacent")
			}
		}
		for i := 0; i < *pairs && len(dataPos) > 1; i++ {
			p1 := rng.Intn(len(dataPos) - 1)
			p2 := p1 + 1
			if i%2 == 1 {
				p2 = rng.Intn(len(dataPos))
				if p2 == p1 {
					p2 = (p1 + 1) % len(dataPos)
				}
			}
			d := 1 + rng.Intn(255)
			add(&Fault{AltKind: "pair", At: dataPos[p1], At2: dataPos[p2], Delta: d}, "pair")
		}
	}
	type outT struct{ evs []rec.Event }
	results := make([]outT, len(items))
	var wg sync.WaitGroup
	ch := make(chan int)
	for w := 0; w < *workers; w++ {
		wg.Add(1)
		go func() {
			defer wg.Done()
			for i := range ch {
				it := items[i]
				r := &Recorder{}
				base := cloneScenario(it.base)
				base.ID = i + 1
				st := Setup(base, r)
				sc := cloneScenario(base)
				sc.Fault = it.fault
				r.Add(rec.Event{"op": "Altered", "m": base.Msgs["A"][0].MID, "holds": it.holds, "class": it.class})
				res := RunSession(sc, st, r, func(l *Link) { l.StallIsCut = true }, nil)
				if !res.TimedOut {
					sc2 := cloneScenario(base)
					sc2.ID = base.ID + 100000
					RunSession(sc2, st, r, nil, nil)
				}
				r.Add(rec.Event{"op": "EndAll"})
				results[i] = outT{r.Events()}
			}
		}()
	}
	for i := range items {
		ch <- i
	}
	close(ch)
	wg.Wait()
	w, err := rec.NewWriter(*out)
	if err != nil {
		fmt.Fprintln(os.Stderr, err)
		return 2
	}
	defer w.Close()
	var sw *rec.Writer
	if *scenOut != "" {
		sw, _ = rec.NewWriter(*scenOut)
		defer sw.Close()
	}
	classes := map[string]int{}
	holds := 0
	keys := map[string]bool{}
	for i, it := range items {
		w.Write(map[string]interface{}{"item": i + 1}, results[i].evs)
		classes[it.class]++
		if it.holds {
			holds++
		}
		fb, _ := json.Marshal(it.fault)
		keys[it.base.Msgs["A"][0].MID+string(fb)] = true
		if sw != nil {
			sw.Write(map[string]interface{}{"msg": it.base.Msgs["A"][0], "fault": it.fault, "checks_hold": it.holds, "class": it.class}, nil)
		}
	}
	cb, _ := json.Marshal(classes)
	fmt.Printf("{\"traces\":%d,\"sessions\":%d,\"distinct\":%d,\"checks_still_hold\":%d,\"classes\":%s}\n", len(items), 2*len(items), len(keys), holds, cb)
	return 0
}

// bytesIndexFrame finds the first SOH that follows a CR in the stream (the start of the first transfer).
func bytesIndexFrame(stream []byte) int {
	for i := 1; i < len(stream); i++ {
		if stream[i] == 1 && stream[i-1] == '\r' {
			return i
		}
	}
	return -1
}

// ---------------------------------------------------------------------------------------------
// C17: status reporting under paced transports (run with the race detector).

type statusRec struct {
	side string
	r    *Recorder
	slow time.Duration // a status consumer that takes this long for every progress report (a slow user interface)
	// slowDone: ... and for the final reports too (the next message's reports then arrive while an earlier one is being handled)
	slowDone bool
}

func (s statusRec) UpdateStatus(st fbb.Status) {
	dir, p := "send", st.Sending
	if st.Receiving != nil {
		dir, p = "recv", st.Receiving
	}
	mid, csize := "", -1
	if p != nil {
		mid, csize = p.MID(), p.CompressedSize()
	}
	if st.Sending != nil && st.Receiving != nil {
		dir = "both"
	}
	complete := false
	if p != nil && st.Done {
		// what a user interface does with the final report: is the message all there, what is it called
		complete = p.DataIsComplete() && len(p.Title()) >= 0
	}
	s.r.Add(rec.Event{"op": "Status", "side": s.side, "dir": dir, "mid": mid, "transferred": st.BytesTransferred, "total": st.BytesTotal,
		"done": st.Done, "pcsize": csize, "complete": complete})
	if s.slow > 0 && (!st.Done || s.slowDone) {
		time.Sleep(s.slow)
	}
}

// txEnd wraps a link end as a transport with a transmit buffer and Flush, like a modem: everything written (payload
// and framing) is queued and leaves the queue at a fixed rate.
type txEnd struct {
	*End
	mu     sync.Mutex
	queued int       // bytes ever written
	start  time.Time // when the queue started draining
	rate   float64   // bytes per second leaving the queue
	// adversarial timing (C17): see TxBufferLen / Flush
	adversarial bool
	inTick      bool
	flushGen    int
}

func (t *txEnd) Write(p []byte) (int, error) {
	n, err := t.End.Write(p)
	t.mu.Lock()
	if t.start.IsZero() {
		t.start = time.Now()
	}
	t.queued += len(p)
	t.mu.Unlock()
	return n, err
}
func (t *txEnd) TxBufferLen() int {
	if t.adversarial {
		// only the library's status goroutine calls this (Flush below does not): stay inside the call until the transfer's
		// Flush has returned (at most 400 ms), and a little longer - a transport whose buffer query is slow at the worst moment
		t.mu.Lock()
		t.inTick = true
		gen := t.flushGen
		t.mu.Unlock()
		for dl := time.Now().Add(400 * time.Millisecond); time.Now().Before(dl); time.Sleep(2 * time.Millisecond) {
			t.mu.Lock()
			g := t.flushGen
			t.mu.Unlock()
			if g != gen {
				time.Sleep(60 * time.Millisecond)
				break
			}
		}
	}
	return t.bufLen()
}

func (t *txEnd) bufLen() int {
	t.mu.Lock()
	defer t.mu.Unlock()
	if t.start.IsZero() {
		return 0
	}
	left := t.queued - int(t.rate*time.Since(t.start).Seconds())
	if left < 0 {
		left = 0
	}
	return left
}

func (t *txEnd) Flush() error {
	for t.bufLen() > 0 {
		time.Sleep(5 * time.Millisecond)
	}
	if t.adversarial {
		// return while a status tick is inside TxBufferLen (wait for one, at most 700 ms)
		for dl := time.Now().Add(700 * time.Millisecond); time.Now().Before(dl); time.Sleep(2 * time.Millisecond) {
			t.mu.Lock()
			in := t.inTick
			t.mu.Unlock()
			if in {
				break
			}
		}
		t.mu.Lock()
		t.flushGen++
		t.inTick = false
		t.mu.Unlock()
	}
	return nil
}

// MainC17 is the "b2f-c17" subcommand.
func MainC17(args []string) int {
	fs := flag.NewFlagSet("b2f-c17", flag.ExitOnError)
	out := fs.String("out", "", "trace ndjson")
	n := fs.Int("n", 24, "paced sessions")
	workers := fs.Int("workers", 8, "parallel sessions")
	fs.Parse(args)
	rng := rand.New(rand.NewSource(rec.Seed()))
	type cfg struct {
		sc    *Scenario
		delay time.Duration
		tx    bool
		rate  float64
	}
	var cfgs []cfg
	for i := 0; i < *n; i++ {
		sc := GenScenario(rng, i+1, 1+rng.Intn(2), rng.Intn(2), map[string]int{"+": 1}, false)
		sc.Sched, sc.Seg = "free", []string{"all", "rand"}[rng.Intn(2)]
		c := cfg{sc: sc, tx: (i/4)%2 == 0}
		if c.tx {
			c.rate = []float64{1500, 300}[(i/8)%2] // a fast and a slow modem
			if i%8 == 1 || i%8 == 3 {
				c.rate = -1500 // negative: a modem whose buffer query is slow exactly when a transfer's Flush returns
			}
		}
		switch i % 4 {
		case 0: // no delay, small messages
		case 1: // one medium message, several ticks inside the transfer
			sc.Msgs["A"] = sc.Msgs["A"][:1]
			sc.Msgs["A"][0].Size = "medium"
			c.delay = 25 * time.Millisecond
		case 2: // per-write delay longer than the reporting period
			sc.Msgs["A"] = sc.Msgs["A"][:1]
			sc.Msgs["A"][0].Size, sc.Msgs["A"][0].Att = "small", 0
			sc.Msgs["B"] = nil
			c.delay = 300 * time.Millisecond
		case 3: // a large message with a small delay: many chunks, a few ticks
			sc.Msgs["A"][0].Size = "large"
			if c.tx {
				sc.Msgs["A"][0].Size = "medium" // the modem-like transmit buffer drains slowly: a large message takes minutes
			}
			sc.Msgs["A"] = sc.Msgs["A"][:1]
			sc.Msgs["B"] = nil
			c.delay = 500 * time.Microsecond
		}
		cfgs = append(cfgs, c)
	}
	results := make([][]rec.Event, len(cfgs))
	timedOut := make([]bool, len(cfgs))
	Watchdog = 180 * time.Second // race detector build, paced links, parallel sessions: a slow session is not this property's subject
	var wg sync.WaitGroup
	ch := make(chan int)
	for w := 0; w < *workers; w++ {
		wg.Add(1)
		go func() {
			defer wg.Done()
			for i := range ch {
				c := cfgs[i]
				r := &Recorder{}
				st := Setup(c.sc, r)
				var slow time.Duration
				if i%8 == 5 || i%8 == 2 {
					slow = 400 * time.Millisecond // longer than the 250 ms reporting period
				}
				slowDone := false
				if i%8 == 0 || i%8 == 4 { // several small messages, no pacing: the transfers follow each other at once
					slow, slowDone = 300*time.Millisecond, true
				}
				upd := map[string]fbb.StatusUpdater{"A": statusRec{"A", r, slow, slowDone}, "B": statusRec{"B", r, slow, slowDone}}
				t0 := time.Now()
				res := RunSessionOpts(c.sc, st, r, func(l *Link) { l.WriteDelay = c.delay }, upd, c.rate)
				timedOut[i] = res.TimedOut
				if os.Getenv("VERIF_DEBUG") != "" {
					fmt.Fprintf(os.Stderr, "c17 session %d delay=%v tx=%v took %v timedout=%v\n", i, c.delay, c.tx, time.Since(t0), res.TimedOut)
				}
				// the final reports are delivered by goroutines that may outlive Exchange: wait until every transferred message
				// has its Done report on both sides (at most 5 s), then 400 ms more for reports that should not come
				for dl := time.Now().Add(5 * time.Second); time.Now().Before(dl); time.Sleep(50 * time.Millisecond) {
					need, have := map[string]bool{}, map[string]bool{}
					for _, e := range r.Events() {
						switch {
						case e["op"] == "SetSent" && e["rej"] == false:
							need[e["s"].(string)+"/send/"+e["m"].(string)] = true
						case e["op"] == "Store" && e["err"] == false:
							need[e["s"].(string)+"/recv/"+e["m"].(string)] = true
						case e["op"] == "Status" && e["done"] == true:
							have[e["side"].(string)+"/"+e["dir"].(string)+"/"+e["mid"].(string)] = true
						}
					}
					all := true
					for k := range need {
						all = all && have[k]
					}
					if all {
						break
					}
				}
				time.Sleep(400 * time.Millisecond)
				evs := r.Events()
				// project: wire csize per MID, transferred messages per side
				csize := map[string]int{}
				var sent, received [][]string
				for _, e := range evs {
					if e["op"] == "Unit" && e["kind"] == "Prop" {
						csize[e["mid"].(string)] = e["csize"].(int)
					}
					if e["op"] == "Unit" && e["kind"] == "Frame" {
						_ = e
					}
					if e["op"] == "SetSent" && e["rej"] == false {
						sent = append(sent, []string{e["s"].(string), e["m"].(string)})
					}
					if e["op"] == "Store" && e["err"] == false {
						received = append(received, []string{e["s"].(string), e["m"].(string)})
					}
				}
				var outEvs []rec.Event
				for _, e := range evs {
					if e["op"] == "Status" {
						c, ok := csize[e["mid"].(string)]
						if !ok {
							c = -2
						}
						e["csize"] = c
						outEvs = append(outEvs, e)
					}
				}
				if sent == nil {
					sent = [][]string{}
				}
				if received == nil {
					received = [][]string{}
				}
				outEvs = append(outEvs, rec.Event{"op": "End", "sent": sent, "received": received})
				results[i] = outEvs
			}
		}()
	}
	for i := range cfgs {
		ch <- i
	}
	close(ch)
	wg.Wait()
	// resumed transfers: an independent peer accepts the library's proposal with a non-zero offset ("FS !100", "FS A64");
	// the library then sends the rest, and its reports still lie between zero and the total compressed size
	var peerTraces [][]rec.Event
	for pi, tok := range []string{"!100", "A64", "!1", "!0", "!END", "AEND"} {
		ms := MsgSpec{MID: fmt.Sprintf("RESUME%06d", pi), Prec: 3, Size: "medium", Policy: "+"}
		ps := &PeerScenario{ID: pi + 1, Lib: []MsgSpec{ms}, LibPol: map[string]string{}, Seed: rng.Int63(), Seg: "all", Sched: "free", Locator: "JO29PJ",
			Status: true, WriteDelayMs: []int{0, 25}[pi%2],
			Script: &PeerScript{Master: pi%2 == 0, Sid: sidVariants[0], Answers: map[string]string{ms.MID: tok}, Prompt: "CMS via LA2BBB >"}}
		evs, _ := RunPeerScenario(ps)
		time.Sleep(600 * time.Millisecond)
		csize := map[string]int{}
		sent := [][]string{}
		for _, e := range evs {
			if e["op"] == "Unit" && e["kind"] == "Prop" {
				csize[e["mid"].(string)] = e["csize"].(int)
			}
			if e["op"] == "SetSent" && e["rej"] == false {
				sent = append(sent, []string{e["s"].(string), e["m"].(string)})
			}
		}
		var outEvs []rec.Event
		for _, e := range evs {
			if e["op"] == "Status" {
				c, ok := csize[e["mid"].(string)]
				if !ok {
					c = -2
				}
				e["csize"] = c
				outEvs = append(outEvs, e)
			}
		}
		outEvs = append(outEvs, rec.Event{"op": "End", "sent": sent, "received": [][]string{}})
		peerTraces = append(peerTraces, outEvs)
	}
	w, err := rec.NewWriter(*out)
	if err != nil {
		fmt.Fprintln(os.Stderr, err)
		return 2
	}
	defer w.Close()
	reports, mid := 0, 0
	for i, evs := range peerTraces {
		w.Write(map[string]interface{}{"delay_ms": 0, "tx": false, "txrate": 0, "timedout": false, "resumed": i + 1}, evs)
	}
	for i, evs := range results {
		w.Write(map[string]interface{}{"delay_ms": int(cfgs[i].delay / time.Millisecond), "tx": cfgs[i].tx, "txrate": int(cfgs[i].rate), "timedout": timedOut[i]}, evs)
		for _, e := range evs {
			if e["op"] == "Status" {
				reports++
				if e["done"] == false && e["transferred"].(int) > 0 && e["transferred"].(int) < e["total"].(int) {
					mid++
				}
			}
		}
	}
	fmt.Printf("{\"traces\":%d,\"reports\":%d,\"mid_transfer_reports\":%d}\n", len(results)+len(peerTraces), reports, mid)
	return 0
}
