package b2f

import (
	"encoding/json"
	"flag"
	"fmt"
	"math/rand"
	"os"
	"sort"
	"sync"

	"verifharness/internal/rec"
)

const alnum = "ABCDEFGHIJKLMNOPQRSTUVWXYZ0123456789abcdefghijklmnopqrstuvwxyz"

func randMID(rng *rand.Rand, used map[string]bool) string {
	for {
		n := 1 + rng.Intn(12)
		if rng.Intn(2) == 0 {
			n = 12
		}
		b := make([]byte, n)
		for i := range b {
			b[i] = alnum[rng.Intn(len(alnum))]
		}
		if !used[string(b)] {
			used[string(b)] = true
			return string(b)
		}
	}
}

func pick(rng *rand.Rand, w map[string]int) string {
	keys := make([]string, 0, len(w))
	tot := 0
	for k, v := range w {
		keys = append(keys, k)
		tot += v
	}
	sort.Strings(keys)
	r := rng.Intn(tot)
	for _, k := range keys {
		if r < w[k] {
			return k
		}
		r -= w[k]
	}
	return keys[0]
}

// GenScenario draws one abstract scenario. nA/nB < 0 means "choose".
func GenScenario(rng *rand.Rand, id, nA, nB int, polW map[string]int, allowLarge bool) *Scenario {
	counts := []int{0, 0, 1, 1, 2, 3, 5, 6, 7, 11, 13}
	if nA < 0 {
		nA = counts[rng.Intn(len(counts))]
	}
	if nB < 0 {
		nB = counts[rng.Intn(len(counts))]
	}
	used := map[string]bool{}
	sc := &Scenario{ID: id, Master: []string{"A", "B"}[rng.Intn(2)], Msgs: map[string][]MsgSpec{}, Batched: map[string]bool{},
		Sched: []string{"free", "free", "afirst", "bfirst", "sync"}[rng.Intn(5)], Seg: []string{"all", "one", "rand", "rand", "line"}[rng.Intn(5)],
		Seed: rng.Int63()}
	sizes := map[string]int{"tiny": 3, "small": 5, "medium": 2}
	if allowLarge {
		sizes["large"] = 1
	}
	for name, n := range map[string]int{"A": nA, "B": nB} {
		for i := 0; i < n; i++ {
			ms := MsgSpec{MID: randMID(rng, used), Prec: []int{3, 3, 3, 2, 1, 0}[rng.Intn(6)], Size: pick(rng, sizes),
				NonASCII: rng.Intn(4) == 0, Policy: pick(rng, polW)}
			if rng.Intn(3) == 0 {
				ms.Att = 1 + rng.Intn(2)
			}
			sc.Msgs[name] = append(sc.Msgs[name], ms)
		}
		sc.Batched[name] = rng.Intn(3) == 0
	}
	// map iteration order above is random: make the scenario canonical
	for _, name := range []string{"A", "B"} {
		sort.Slice(sc.Msgs[name], func(i, j int) bool { return sc.Msgs[name][i].MID < sc.Msgs[name][j].MID })
	}
	switch rng.Intn(4) {
	case 0:
		sc.Motd = []string{"Welcome to the test node", "Second MOTD line with text"}
	case 1:
		sc.Motd = []string{"*** MTD Stats Total connects = 2580 Total messages = 3900"}
	}
	return sc
}

// AbstractKey is the seed-independent identity of a scenario (for distinct counting).
func (sc *Scenario) AbstractKey() string {
	type k struct {
		Master     string
		A, B       []string
		BA, BB     bool
		Motd       int
		Sched, Seg string
		Fault      *Fault
	}
	f := func(ms []MsgSpec) []string {
		var o []string
		for _, m := range ms {
			o = append(o, fmt.Sprintf("%d%s%d%v%s", m.Prec, m.Size, m.Att, m.NonASCII, m.Policy))
		}
		sort.Strings(o)
		return o
	}
	b, _ := json.Marshal(k{sc.Master, f(sc.Msgs["A"]), f(sc.Msgs["B"]), sc.Batched["A"], sc.Batched["B"], len(sc.Motd), sc.Sched, sc.Seg, sc.Fault})
	return string(b)
}

// runClean executes one clean scenario and returns its events.
func runClean(sc *Scenario) ([]rec.Event, Result) {
	r := &Recorder{}
	st := Setup(sc, r)
	res := RunSession(sc, st, r, nil, nil)
	return r.Events(), res
}

type job struct {
	sc  *Scenario
	evs []rec.Event
	res Result
}

// parallel runs fn over scenarios with a worker pool, preserving order.
func parallel(scs []*Scenario, workers int, fn func(*Scenario) ([]rec.Event, Result)) []job {
	out := make([]job, len(scs))
	var wg sync.WaitGroup
	ch := make(chan int)
	for w := 0; w < workers; w++ {
		wg.Add(1)
		go func() {
			defer wg.Done()
			for i := range ch {
				evs, res := fn(scs[i])
				out[i] = job{scs[i], evs, res}
			}
		}()
	}
	for i := range scs {
		ch <- i
	}
	close(ch)
	wg.Wait()
	return out
}

func movedMessages(evs []rec.Event) int {
	n := 0
	for _, e := range evs {
		if e["op"] == "Store" {
			n++
		}
	}
	return n
}

// MainC01 is the "b2f-c01" subcommand: clean two-session exchanges.
func MainC01(args []string) int {
	fs := flag.NewFlagSet("b2f-c01", flag.ExitOnError)
	out := fs.String("out", "", "trace ndjson")
	scenOut := fs.String("scenarios", "", "write the executed scenarios (ndjson) here")
	scenIn := fs.String("scen", "", "scenarios (ndjson) generated from the specification")
	n := fs.Int("n", 200, "seeded scenarios")
	large := fs.Int("large", 4, "scenarios with large messages")
	workers := fs.Int("workers", 8, "parallel sessions")
	fs.Parse(args)
	rng := rand.New(rand.NewSource(rec.Seed()))
	var scs []*Scenario
	if *scenIn != "" {
		err := rec.ReadNDJSON(*scenIn, func(line []byte) error {
			sc := &Scenario{}
			if err := json.Unmarshal(line, sc); err != nil {
				return err
			}
			if sc.Seed == 0 {
				sc.Seed = rng.Int63()
			}
			scs = append(scs, sc)
			return nil
		})
		if err != nil {
			fmt.Fprintln(os.Stderr, err)
			return 2
		}
	}
	polW := map[string]int{"+": 6, "-": 2, "=": 2}
	// seed-independent core: block structure x roles x policies (0, 1, 5, 6, 11 messages a side)
	for _, c := range [][2]int{{0, 0}, {1, 0}, {0, 1}, {1, 1}, {5, 0}, {6, 0}, {0, 6}, {11, 2}, {6, 6}, {2, 11}, {13, 0}} {
		for _, master := range []string{"A", "B"} {
			for _, pw := range []map[string]int{{"+": 1}, polW} {
				sc := GenScenario(rng, 0, c[0], c[1], pw, false)
				sc.Master = master
				scs = append(scs, sc)
			}
		}
	}
	for i := 0; i < *n; i++ {
		scs = append(scs, GenScenario(rng, 0, -1, -1, polW, false))
	}
	for i := 0; i < *large; i++ {
		sc := GenScenario(rng, 0, 1+rng.Intn(2), rng.Intn(2), map[string]int{"+": 1}, true)
		sc.Msgs["A"][0].Size = "large"
		sc.Seg = []string{"all", "rand"}[i%2]
		scs = append(scs, sc)
	}
	for i, sc := range scs {
		sc.ID = i + 1
	}
	jobs := parallel(scs, *workers, runClean)
	w, err := rec.NewWriter(*out)
	if err != nil {
		fmt.Fprintln(os.Stderr, err)
		return 2
	}
	defer w.Close()
	var sw *rec.Writer
	if *scenOut != "" {
		sw, _ = rec.NewWriter(*scenOut)
		defer sw.Close()
	}
	keys := map[string]bool{}
	moved, nontrivial := 0, 0
	for _, j := range jobs {
		w.Write(map[string]interface{}{"scen": j.sc.ID}, j.evs)
		if sw != nil {
			b, _ := json.Marshal(j.sc)
			var m map[string]interface{}
			json.Unmarshal(b, &m)
			sw.Write(m, nil)
		}
		mv := movedMessages(j.evs)
		moved += mv
		if mv > 0 && !keys[j.sc.AbstractKey()] {
			nontrivial++
		}
		keys[j.sc.AbstractKey()] = true
	}
	fmt.Printf("{\"traces\":%d,\"distinct\":%d,\"nontrivial\":%d,\"moved\":%d}\n", len(jobs), len(keys), nontrivial, moved)
	return 0
}
