package b2f

import (
	"bufio"
	"bytes"
	"compress/gzip"
	"fmt"
	"io"
	"net"
	"sort"
	"strconv"
	"strings"
	"time"

	"github.com/la5nta/wl2k-go/lzhuf"

	"verifharness/internal/rec"
)

// The scripted peer is an independently written B2F endpoint (from docs/F6FBB-B2F/protocole.html and the Winlink
// B2F extension as described there) whose every free choice is dictated by a PeerScript. It validates what it
// receives with its own strict reader and reports what it did as monitor events of station "B".
//
// Not independent: the LZHUF codec (C07's subject) — the peer compresses and decompresses with the library's
// lzhuf package. Everything about lines, checksums, framing, turn-taking and answers is its own.

type PeerMsg struct {
	Spec   MsgSpec `json:"spec"`
	Chunks []int   `json:"chunks"` // data block sizes to cycle through (1..256)
	Dup    bool    `json:"dup"`    // propose this MID twice in the same block
	Code   string  `json:"code"`   // proposal code, default "C"; "B"/"A" = unsupported by the library
}

type PeerScript struct {
	Master        bool              `json:"master"`        // the peer initiates the handshake
	Sid           string            `json:"sid"`           // complete SID line without CR
	Motd          []string          `json:"motd"`          // free text before the handshake (master only)
	Comments      []string          `json:"comments"`      // comment lines (";...") placed inside the handshake
	Fw            string            `json:"fw"`            // complete ;FW line or ""
	PQ            string            `json:"pq"`            // secure login challenge ("" = none; master only)
	HasPQ         bool              `json:"haspq"`         // send ;PQ even when the challenge is empty
	PQFirst       bool              `json:"pqfirst"`       // the ;PQ line comes before the SID line (both orders occur among the handshake lines)
	Prompt        string            `json:"prompt"`        // the master's prompt line, must end in ">"
	Msgs          []PeerMsg         `json:"msgs"`          // what the peer has to send
	Answers       map[string]string `json:"answers"`       // library MID -> answer token: + Y y - N n R r = L l H h !0 A0 a0
	DefaultAns    string            `json:"defaultans"`    // answer token for MIDs not listed
	PreFS         []string          `json:"prefs"`         // comment / ;PM lines before each FS line
	PreProp       []string          `json:"preprop"`       // comment / ;PM lines before each proposal block
	HangUpAfterFQ bool              `json:"hangupafterfq"` // CMS habit: the connection is closed right after FQ was sent
	// CmsQuit: what Winlink's CMS does (fbb/wl2k_test.go): when its block has been answered and transferred and it has nothing
	// more to send, it does not wait for the other station's turn but says FQ and hangs up
	CmsQuit     bool `json:"cmsquit"`
	CmsLingerMs int  `json:"cmslingerms"` // the hang-up follows the FQ after this many milliseconds
	EarlyFQ     bool `json:"earlyfq"`     // CMS style: FQ instead of FF when nothing (more) to send, whatever the other side said
	TrailingLF  bool `json:"trailinglf"`  // terminate lines with CR LF instead of CR
	FFFirst     bool `json:"fffirst"`     // send FF in the first own turn although messages are pending (they "arrive later")
}

type peer struct {
	sc           *PeerScript
	conn         net.Conn
	rd           *bufio.Reader
	r            *Recorder
	expect       map[string][]byte // library MID -> queued serialisation
	raw          map[string][]byte // peer MID -> serialisation
	comp         map[string][]byte // peer MID -> compressed
	sent         map[string]bool
	defer_       map[string]bool
	libLastEmpty bool
	libHadTurn   bool
	hadTurn      bool
	stored       map[string]bool
	reqOff       map[string]int // offset the peer asked for in its accept ("!100", "A64"): a resumed transfer
	problems     []string
}

func (p *peer) ev(e rec.Event) { e["s"] = "B"; p.r.Add(e) }

func (p *peer) problem(format string, a ...interface{}) error {
	msg := fmt.Sprintf(format, a...)
	p.problems = append(p.problems, msg)
	p.ev(rec.Event{"op": "PeerReject", "why": msg})
	return fmt.Errorf("peer: %s", msg)
}

func (p *peer) send(line string) error {
	term := "\r"
	if p.sc.TrailingLF {
		term = "\r\n"
	}
	_, err := io.WriteString(p.conn, line+term)
	return err
}

// readLine returns the next non-empty line (CR terminated, LF ignored).
func (p *peer) readLine() (string, error) {
	for {
		s, err := p.rd.ReadString('\r')
		if err != nil {
			return "", err
		}
		s = strings.Trim(s, "\r\n")
		if s != "" {
			return s, nil
		}
	}
}

func compress(data []byte) []byte {
	var buf bytes.Buffer
	w := lzhuf.NewB2Writer(&buf)
	w.Write(data)
	w.Close()
	return buf.Bytes()
}

func decompress(data []byte) ([]byte, error) {
	r, err := lzhuf.NewB2Reader(bytes.NewReader(data))
	if err != nil {
		return nil, err
	}
	out, err := io.ReadAll(r)
	if err != nil {
		return nil, err
	}
	return out, r.Close()
}

func (p *peer) handshake() (firstCmd string, err error) {
	sc := p.sc
	if sc.Master {
		for _, l := range sc.Motd {
			if err = p.send(l); err != nil {
				return
			}
		}
		for i, c := range sc.Comments {
			if i%2 == 0 {
				p.send(c)
			}
		}
		if sc.Fw != "" {
			p.send(sc.Fw)
		}
		if sc.PQFirst && (sc.PQ != "" || sc.HasPQ) {
			p.send(";PQ: " + sc.PQ)
		}
		p.send(sc.Sid)
		if !sc.PQFirst && (sc.PQ != "" || sc.HasPQ) {
			p.send(";PQ: " + sc.PQ)
		}
		for i, c := range sc.Comments {
			if i%2 == 1 {
				p.send(c)
			}
		}
		if err = p.send(sc.Prompt); err != nil {
			return
		}
		// the library (slave) answers with its handshake lines and then its first command
		sawSID := false
		for {
			var line string
			if line, err = p.readLine(); err != nil {
				return
			}
			switch {
			case strings.HasPrefix(line, "["):
				sawSID = true
			case strings.HasPrefix(line, ";"):
			case strings.HasPrefix(line, "F"):
				if !sawSID {
					return "", p.problem("command %q before SID", line)
				}
				return line, nil
			case strings.HasPrefix(line, "***"):
				return "", fmt.Errorf("library reported: %s", line)
			default:
				return "", p.problem("unexpected handshake line %q", line)
			}
		}
	}
	// peer is slave: wait for the library's prompt
	for {
		var line string
		if line, err = p.readLine(); err != nil {
			return
		}
		if strings.HasSuffix(line, ">") {
			break
		}
	}
	if sc.Fw != "" {
		p.send(sc.Fw)
	}
	p.send(sc.Sid)
	for _, c := range sc.Comments {
		p.send(c)
	}
	return "", nil
}

func (p *peer) pending() []PeerMsg {
	var out []PeerMsg
	for _, m := range p.sc.Msgs {
		if !p.sent[m.Spec.MID] && !p.defer_[m.Spec.MID] {
			out = append(out, m)
		}
	}
	sort.SliceStable(out, func(i, j int) bool {
		if out[i].Spec.Prec != out[j].Spec.Prec {
			return out[i].Spec.Prec < out[j].Spec.Prec
		}
		return len(p.comp[out[i].Spec.MID]) < len(p.comp[out[j].Spec.MID])
	})
	return out
}

// myTurn sends one block (or FF/FQ). Returns quit=true when FQ was sent.
func (p *peer) myTurn() (quit bool, err error) {
	pend := p.pending()
	mids := []string{}
	for _, m := range p.sc.Msgs {
		if !p.sent[m.Spec.MID] && !p.defer_[m.Spec.MID] {
			mids = append(mids, m.Spec.MID)
		}
	}
	if p.sc.FFFirst && !p.hadTurn {
		p.hadTurn = true
		p.ev(rec.Event{"op": "Offer", "ms": []string{}, "fw": []string{}, "lib": false})
		return false, p.send("FF")
	}
	p.hadTurn = true
	p.ev(rec.Event{"op": "Offer", "ms": mids, "fw": []string{}, "lib": false})
	if len(pend) == 0 {
		if p.libLastEmpty || (p.sc.EarlyFQ && p.libHadTurn) {
			err := p.send("FQ")
			if p.sc.HangUpAfterFQ {
				p.conn.Close()
			}
			return true, err
		}
		return false, p.send("FF")
	}
	for _, l := range p.sc.PreProp {
		p.send(l)
	}
	var block []PeerMsg
	for _, m := range pend {
		if len(block) >= 5 {
			break
		}
		block = append(block, m)
		if m.Dup && len(block) < 5 {
			block = append(block, m)
		}
	}
	sum := 0
	for _, m := range block {
		code := m.Code
		if code == "" {
			code = "C"
		}
		line := fmt.Sprintf("F%s EM %s %d %d 0", code, m.Spec.MID, len(p.raw[m.Spec.MID]), len(p.comp[m.Spec.MID]))
		for _, c := range []byte(line) {
			sum += int(c)
		}
		sum += '\r'
		if err = p.send(line); err != nil {
			return
		}
	}
	if err = p.send(fmt.Sprintf("F> %02X", (-sum)&0xff)); err != nil {
		return
	}
	// answers
	var fsLine string
	for {
		if fsLine, err = p.readLine(); err != nil {
			return
		}
		if strings.HasPrefix(fsLine, ";") {
			continue
		}
		break
	}
	if !strings.HasPrefix(fsLine, "FS ") {
		return false, p.problem("expected FS, got %q", fsLine)
	}
	ans := fsLine[3:]
	if len(ans) != len(block) {
		return false, p.problem("FS carries %d answers for %d proposals", len(ans), len(block))
	}
	var transferred, rejected []string
	seen := map[string]bool{}
	for i, m := range block {
		mid := m.Spec.MID
		switch ans[i] {
		case '+':
			if seen[mid] {
				return false, p.problem("duplicate proposal %s accepted twice", mid)
			}
			seen[mid] = true
			if err = p.sendFrame(m); err != nil {
				return
			}
			transferred = append(transferred, mid)
		case '-':
			if !seen[mid] {
				seen[mid] = true
				rejected = append(rejected, mid)
			}
		case '=':
			if !seen[mid] { // not the second copy of a duplicate proposal that was already answered
				seen[mid] = true
				p.defer_[mid] = true
				p.ev(rec.Event{"op": "SetDeferred", "m": mid})
			}
		default:
			return false, p.problem("answer %q is not one of + - =", string(ans[i]))
		}
	}
	for _, mid := range rejected {
		if !p.sent[mid] {
			p.sent[mid] = true
			p.ev(rec.Event{"op": "SetSent", "m": mid, "rej": true})
		}
	}
	if p.sc.CmsQuit {
		more := false
		for _, m := range p.pending() {
			inBlock := false
			for _, b := range block {
				inBlock = inBlock || b.Spec.MID == m.Spec.MID
			}
			more = more || !inBlock
		}
		if !more {
			p.ev(rec.Event{"op": "CmsIntent"})
			err := p.send("FQ")
			if p.sc.CmsLingerMs > 0 {
				time.Sleep(time.Duration(p.sc.CmsLingerMs) * time.Millisecond)
			}
			p.conn.Close()
			return true, err
		}
	}
	// the block is confirmed by the first byte of the library's next turn
	b, err := p.rd.Peek(1)
	if err != nil {
		return false, err
	}
	if b[0] != 'F' && b[0] != ';' {
		line, _ := p.readLine()
		return false, fmt.Errorf("library reported: %s", line)
	}
	for _, mid := range transferred {
		p.sent[mid] = true
		p.ev(rec.Event{"op": "SetSent", "m": mid, "rej": false})
	}
	return false, nil
}

func containsStr(l []string, s string) bool {
	for _, x := range l {
		if x == s {
			return true
		}
	}
	return false
}

func (p *peer) sendFrame(m PeerMsg) error {
	mid := m.Spec.MID
	title := "Peer message " + mid
	var buf bytes.Buffer
	off := "0"
	buf.WriteByte(1)
	buf.WriteByte(byte(len(title) + len(off) + 2))
	buf.WriteString(title)
	buf.WriteByte(0)
	buf.WriteString(off)
	buf.WriteByte(0)
	data := p.comp[mid]
	sum := 0
	chunks := m.Chunks
	if len(chunks) == 0 {
		chunks = []int{250}
	}
	for i := 0; len(data) > 0; i++ {
		n := chunks[i%len(chunks)]
		if n < 1 {
			n = 1
		}
		if n > 256 {
			n = 256
		}
		if n > len(data) {
			n = len(data)
		}
		buf.WriteByte(2)
		buf.WriteByte(byte(n)) // 256 is written as 0
		buf.Write(data[:n])
		for _, c := range data[:n] {
			sum += int(c)
		}
		data = data[n:]
	}
	buf.WriteByte(4)
	buf.WriteByte(byte((-sum) & 0xff))
	_, err := p.conn.Write(buf.Bytes())
	return err
}

var answerClass = map[byte]string{'+': "+", 'Y': "+", 'y': "+", '-': "-", 'N': "-", 'n': "-", 'R': "-", 'r': "-",
	'=': "=", 'L': "=", 'l': "=", 'H': "=", 'h': "=", '!': "+", 'A': "+", 'a': "+"}

// theirTurn processes the library's turn starting with line (already read) or reads it.
func (p *peer) theirTurn(line string) (quit bool, err error) {
	type prop struct {
		mid         string
		size, csize int
	}
	var block []prop
	sum := 0
	for {
		if line == "" {
			if line, err = p.readLine(); err != nil {
				return
			}
		}
		switch {
		case strings.HasPrefix(line, ";"):
		case line == "FF":
			p.libLastEmpty = true
			return false, nil
		case line == "FQ":
			return true, nil
		case strings.HasPrefix(line, "FC ") || strings.HasPrefix(line, "FD "):
			f := strings.Split(line, " ")
			if len(f) != 6 {
				return false, p.problem("proposal %q does not have six fields", line)
			}
			size, e1 := strconv.Atoi(f[3])
			csize, e2 := strconv.Atoi(f[4])
			if e1 != nil || e2 != nil || f[5] != "0" || len(f[2]) < 1 || len(f[2]) > 12 {
				return false, p.problem("malformed proposal %q", line)
			}
			if len(block) >= 5 {
				return false, p.problem("more than five proposals in a block")
			}
			block = append(block, prop{f[2], size, csize})
			for _, c := range []byte(line) {
				sum += int(c)
			}
			sum += '\r'
		case strings.HasPrefix(line, "F> "):
			v, e := strconv.ParseInt(strings.TrimSpace(line[3:]), 16, 32)
			if e != nil || (sum+int(v))&0xff != 0 {
				return false, p.problem("block checksum %q does not match (sum %d)", line, sum&0xff)
			}
			if len(block) == 0 {
				return false, p.problem("F> without proposals")
			}
			p.libLastEmpty = false
			// answer
			var fs strings.Builder
			fs.WriteString("FS ")
			var accepted []prop
			for _, b := range block {
				tok := p.sc.Answers[b.mid]
				if tok == "" {
					tok = p.sc.DefaultAns
				}
				if tok == "" {
					tok = "+"
				}
				if strings.HasSuffix(tok, "END") {
					tok = fmt.Sprintf("%c%d", tok[0], b.csize) // resume at the very end: nothing is left to send
				}
				cls := answerClass[tok[0]]
				if cls == "+" && p.stored[b.mid] {
					tok, cls = "-", "-" // already received in this session (duplicate proposal)
				}
				if cls == "+" && len(tok) > 1 {
					off := 0
					fmt.Sscanf(tok[1:], "%d", &off)
					if p.reqOff == nil {
						p.reqOff = map[string]int{}
					}
					p.reqOff[b.mid] = off
				}
				p.ev(rec.Event{"op": "HAnswer", "m": b.mid, "a": cls, "size": b.size, "csize": b.csize, "token": tok})
				fs.WriteString(tok)
				if cls == "+" {
					accepted = append(accepted, b)
				}
			}
			for _, l := range p.sc.PreFS {
				p.send(l)
			}
			if err = p.send(fs.String()); err != nil {
				return
			}
			for _, a := range accepted {
				if err = p.recvFrame(a.mid, a.size, a.csize, line[1] == 'D'); err != nil {
					return
				}
			}
			return false, nil
		case strings.HasPrefix(line, "***"):
			return false, fmt.Errorf("library reported: %s", line)
		default:
			return false, p.problem("unexpected line %q in the library's turn", line)
		}
		line = ""
	}
}

func (p *peer) recvFrame(mid string, size, csize int, gz bool) error {
	rb := func() (byte, error) { return p.rd.ReadByte() }
	c, err := rb()
	if err != nil {
		return err
	}
	if c != 1 {
		return p.problem("transfer of %s starts with byte %d, not SOH", mid, c)
	}
	hl, err := rb()
	if err != nil {
		return err
	}
	hdr := make([]byte, int(hl))
	if _, err := io.ReadFull(p.rd, hdr); err != nil {
		return err
	}
	parts := bytes.Split(hdr, []byte{0})
	off := p.reqOff[mid]
	if len(parts) != 3 || len(parts[2]) != 0 || len(parts[0]) < 1 || string(parts[1]) != fmt.Sprint(off) {
		return p.problem("malformed transfer header %q (offset asked for: %d)", hdr, off)
	}
	var data []byte
	sum := 0
	for {
		c, err := rb()
		if err != nil {
			return err
		}
		switch c {
		case 2:
			n, err := rb()
			if err != nil {
				return err
			}
			ln := int(n)
			if ln == 0 {
				ln = 256
			}
			blk := make([]byte, ln)
			if _, err := io.ReadFull(p.rd, blk); err != nil {
				return err
			}
			for _, x := range blk {
				sum += int(x)
			}
			data = append(data, blk...)
		case 4:
			cs, err := rb()
			if err != nil {
				return err
			}
			if (sum+int(cs))&0xff != 0 {
				return p.problem("transfer checksum of %s wrong", mid)
			}
			if len(data) != csize-off {
				return p.problem("transfer of %s carries %d bytes, proposal said %d (offset %d)", mid, len(data), csize, off)
			}
			if off > 0 {
				// a resumed transfer: the peer has the first off bytes from an earlier attempt; the rest cannot be decoded alone
				p.stored[mid] = true
				p.ev(rec.Event{"op": "Store", "m": mid, "intact": true, "err": false, "resumedAt": off})
				return nil
			}
			var plain []byte
			var derr error
			if gz {
				plain, derr = gunzip(data)
			} else {
				plain, derr = decompress(data)
			}
			if derr != nil {
				return p.problem("payload of %s does not decode: %v", mid, derr)
			}
			if len(plain) != size {
				return p.problem("message %s has %d bytes, proposal said %d", mid, len(plain), size)
			}
			want, known := p.expect[mid]
			intact := known && bytes.Equal(plain, want)
			p.stored[mid] = true
			p.ev(rec.Event{"op": "Store", "m": mid, "intact": intact, "err": false})
			return nil
		default:
			return p.problem("byte %d inside the transfer of %s", c, mid)
		}
	}
}

// RunPeer plays the script on conn as station B and returns when the session is over.
func RunPeer(sc *PeerScript, conn net.Conn, r *Recorder, seed int64, expect map[string][]byte) (err error, problems []string) {
	p := &peer{sc: sc, conn: conn, rd: bufio.NewReader(conn), r: r, expect: expect, raw: map[string][]byte{}, comp: map[string][]byte{},
		sent: map[string]bool{}, defer_: map[string]bool{}, stored: map[string]bool{}}
	for _, m := range sc.Msgs {
		msg := BuildMessage(m.Spec, calls["B"], calls["A"], seed)
		b, e := msg.Bytes()
		if e != nil {
			panic(e)
		}
		p.raw[m.Spec.MID] = b
		p.comp[m.Spec.MID] = compress(b)
	}
	defer conn.Close()
	first, err := p.handshake()
	if err != nil {
		return err, p.problems
	}
	myTurn := !sc.Master // the slave has the first turn
	for {
		var quit bool
		if myTurn {
			quit, err = p.myTurn()
		} else {
			quit, err = p.theirTurn(first)
			first = ""
			p.libHadTurn = true
		}
		if err != nil || quit {
			return err, p.problems
		}
		myTurn = !myTurn
	}
}

// PeerRaw returns the serialisation of the peer's messages (what the library's handler must receive).
func PeerRaw(sc *PeerScript, seed int64) map[string][]byte {
	out := map[string][]byte{}
	for _, m := range sc.Msgs {
		b, _ := BuildMessage(m.Spec, calls["B"], calls["A"], seed).Bytes()
		out[m.Spec.MID] = b
	}
	return out
}

func gunzip(data []byte) ([]byte, error) {
	r, err := gzip.NewReader(bytes.NewReader(data))
	if err != nil {
		return nil, err
	}
	out, err := io.ReadAll(r)
	if err != nil {
		return nil, err
	}
	return out, r.Close()
}
