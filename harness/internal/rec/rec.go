// Package rec holds the trace recorder and small helpers shared by all harness subcommands.
package rec

import (
	"bufio"
	"bytes"
	"encoding/json"
	"os"
	"strconv"
	"sync"
)

// Event is one abstract event of a trace (a JSON object; "op" names the spec action).
type Event map[string]interface{}

// Trace is one line of the ndjson trace file.
type Trace struct {
	T    int                    `json:"t"`
	Meta map[string]interface{} `json:"-"`
	Ev   []Event                `json:"ev"`
}

// MarshalJSON flattens Meta into the object.
func (t Trace) MarshalJSON() ([]byte, error) {
	m := map[string]interface{}{"t": t.T, "ev": t.Ev}
	if t.Ev == nil {
		m["ev"] = []Event{}
	}
	for k, v := range t.Meta {
		m[k] = v
	}
	return json.Marshal(m)
}

// Writer writes traces as ndjson, numbering them 1..n in the order written.
type Writer struct {
	mu sync.Mutex
	f  *os.File
	w  *bufio.Writer
	n  int
}

func NewWriter(path string) (*Writer, error) {
	f, err := os.Create(path)
	if err != nil {
		return nil, err
	}
	return &Writer{f: f, w: bufio.NewWriterSize(f, 1<<20)}, nil
}

// Write appends the trace and returns its number.
func (w *Writer) Write(meta map[string]interface{}, ev []Event) int {
	w.mu.Lock()
	defer w.mu.Unlock()
	w.n++
	b, err := json.Marshal(Trace{T: w.n, Meta: meta, Ev: ev})
	if err != nil {
		panic(err)
	}
	if bytes.Contains(b, []byte("null")) {
		// TLC's JSON reader has no null: nil slices / maps / interfaces become empty strings
		var v interface{}
		if json.Unmarshal(b, &v) == nil {
			b, _ = json.Marshal(denull(v))
		}
	}
	w.w.Write(b)
	w.w.WriteByte('\n')
	return w.n
}

func (w *Writer) Count() int { w.mu.Lock(); defer w.mu.Unlock(); return w.n }

func (w *Writer) Close() error {
	w.w.Flush()
	return w.f.Close()
}

func denull(v interface{}) interface{} {
	switch x := v.(type) {
	case nil:
		return ""
	case map[string]interface{}:
		for k, e := range x {
			x[k] = denull(e)
		}
		return x
	case []interface{}:
		for i, e := range x {
			x[i] = denull(e)
		}
		return x
	}
	return v
}

// Seed returns VERIF_SEED (default 1).
func Seed() int64 {
	if s := os.Getenv("VERIF_SEED"); s != "" {
		if n, err := strconv.ParseInt(s, 10, 64); err == nil {
			return n
		}
	}
	return 1
}

// ReadNDJSON reads a file of JSON lines into out (a pointer to a slice is not needed: callback per line).
func ReadNDJSON(path string, fn func(line []byte) error) error {
	f, err := os.Open(path)
	if err != nil {
		return err
	}
	defer f.Close()
	sc := bufio.NewScanner(f)
	sc.Buffer(make([]byte, 1<<20), 1<<30)
	for sc.Scan() {
		if len(sc.Bytes()) == 0 {
			continue
		}
		b := make([]byte, len(sc.Bytes()))
		copy(b, sc.Bytes())
		if err := fn(b); err != nil {
			return err
		}
	}
	return sc.Err()
}

// WriteJSON writes v to path.
func WriteJSON(path string, v interface{}) error {
	b, err := json.MarshalIndent(v, "", " ")
	if err != nil {
		return err
	}
	return os.WriteFile(path, b, 0644)
}
