package ardoph

import (
	"bytes"
	"encoding/json"
	"flag"
	"fmt"
	"io"
	"log"
	"math/rand"
	"net"
	"os"
	"os/exec"
	"strings"
	"sync"
	"time"

	"github.com/la5nta/wl2k-go/transport/ardop"

	"verifharness/internal/rec"
)

type scen struct {
	Kind      string `json:"kind"` // outbound inbound listen malformed
	Writes    []int  `json:"writes"`
	Frames    []int  `json:"frames"` // ARQ frame payload sizes sent by the TNC
	ReadBuf   int    `json:"readbuf"`
	Noise     bool   `json:"noise"`     // other frame types and control events interleaved
	CRCFaults int    `json:"crcfaults"` // CRCFAULT answers to the first data frame
	Reply     string `json:"reply"`
	Malform   string `json:"malform"`
	Buffers   []int  `json:"buffers"` // BUFFER sequence after data (nil = len, 0)
	// CloseUnflushed: the TNC never reports an empty buffer, not even when the application closes: Close gives the flush its
	// 30 s and then disconnects all the same
	CloseUnflushed bool `json:"closeunflushed"`
	// LateReader: the application starts reading only when the remote has sent all its frames (more than the receive
	// queue holds: the stream is still all of them, in order)
	LateReader bool `json:"latereader"`
	// Commands: while the application writes, another goroutine asks the TNC for its version this many times (commands and
	// data share the serial line: every frame arrives whole, prefix to CRC)
	Commands int `json:"commands"`
	SlowLine bool `json:"slowline"`
	// IdleSeconds: ... and stays away for this long (the library gives a full receive queue one minute, then it
	// disconnects; whatever it does, the process survives)
	IdleSeconds int `json:"idleseconds"`
	// Script names a BUFFER / CRCFAULT interleaving with reports that crossed a data frame on the line:
	//  "stale-report-crcfault": the BUFFER 0 about frame 1 crosses frame 2; the TNC answers frame 2 with CRCFAULT.
	//  "stale-zero":      frame 1 -> BUFFER 5; a BUFFER 0 for frame 1 crosses frame 2; frame 2 -> BUFFER 5; Flush is called;
	//                     the TNC reports BUFFER 0 300 ms later.  Flush must not return before that report.
	Script string `json:"script"`
	// DiscAfter: the remote station disconnects (NEWSTATE DISC, DISCONNECTED) right after the last ARQ frame, and the
	// application starts reading only afterwards: it must still get every byte, then end-of-stream
	DiscAfter bool `json:"discafter"`
	// TNC behaviours: see Sim.DiscStyle, Sim.EarlyData (EarlyData = payload size, 0 = none), Sim.NoiseBeforeBuffer
	DiscStyle         string `json:"discstyle"`
	EarlyData         int    `json:"earlydata"`
	NoiseBeforeBuffer bool   `json:"noisebeforebuffer"`
	TrailingSpace     bool   `json:"trailingspace"`
	// StalledListener: the application has asked for state notifications (TNC.ListenEnabled) and never reads them
	StalledListener bool `json:"stalledlistener"`
}

func guard(f func()) (pan string) {
	defer func() {
		if p := recover(); p != nil {
			pan = fmt.Sprint(p)
		}
	}()
	f()
	return ""
}

type pttRec struct {
	mu    sync.Mutex
	calls []bool
}

func (p *pttRec) SetPTT(on bool) error {
	p.mu.Lock()
	p.calls = append(p.calls, on)
	p.mu.Unlock()
	return nil
}

func pattern(id, n int) []byte {
	b := make([]byte, n)
	for i := range b {
		b[i] = byte((id*17 + i*5) % 253)
	}
	return b
}

func within(d time.Duration, f func()) bool {
	done := make(chan struct{})
	go func() { defer close(done); f() }()
	select {
	case <-done:
		return true
	case <-time.After(d):
		return false
	}
}

// countingLog counts the lines of the library's debug log that say it evicted a receiver of control messages because it
// did not take a message within 500 ms ("Receiver timeout!").
type countingLog struct {
	mu sync.Mutex
	n  int
}

func (c *countingLog) Write(p []byte) (int, error) {
	if bytes.Contains(p, []byte("Receiver timeout!")) {
		c.mu.Lock()
		c.n++
		c.mu.Unlock()
	}
	return len(p), nil
}

// runScenario runs one schedule with the library's debug log watched: a receiver evicted although the schedule has no
// stalled receiver means that the process was starved of CPU for half a second - what follows says nothing about C14.
func runScenario(sc scen) []rec.Event {
	cl := &countingLog{}
	os.Setenv("ARDOP_DEBUG", "1")
	log.SetFlags(0)
	log.SetOutput(cl)
	evs := runScenarioWatched(sc)
	cl.mu.Lock()
	n := cl.n
	cl.mu.Unlock()
	return append(evs, rec.Event{"op": "Starved", "n": n})
}

func runScenarioWatched(sc scen) []rec.Event {
	var evs []rec.Event
	add := func(ev rec.Event) { evs = append(evs, ev) }
	sim, host := NewSerialSim()
	sim.mu.Lock()
	sim.SlowLine = sc.SlowLine
	sim.mu.Unlock()
	sim.ConnectReply = sc.Reply
	if sim.ConnectReply == "" {
		sim.ConnectReply = "ok"
	}
	sim.CRCFaults = 0
	sim.BufferAfter = sc.Buffers
	sim.DiscStyle, sim.NoiseBeforeBuffer, sim.TrailingSpace = sc.DiscStyle, sc.NoiseBeforeBuffer, sc.TrailingSpace
	if sc.EarlyData > 0 {
		sim.EarlyData = pattern(49, sc.EarlyData)
	}
	if sc.Script == "stale-report-crcfault" {
		// the BUFFER 0 about frame 1 crosses frame 2, which the TNC then answers with CRCFAULT (Ardop_stalefault.cfg)
		sim.BufferScript = map[int][]int{1: {50}}
		sim.StaleBefore = map[int][]string{2: {"BUFFER 0"}}
		sim.FaultFrames = map[int]bool{2: true}
	}
	if sc.Script == "stale-zero" {
		sim.BufferScript = map[int][]int{1: {5}, 2: {5}}
		sim.StaleBefore = map[int][]string{2: {"BUFFER 0"}}
	}
	var tnc *ardop.TNC
	var err error
	var pan string
	if !within(5*time.Second, func() { pan = guard(func() { tnc, err = ardop.Open(host, "LA1AAA", "JO29PJ") }) }) {
		return append(evs, rec.Event{"op": "Api", "call": "Open", "ok": false, "panic": "", "err": "Open did not return"})
	}
	add(rec.Event{"op": "Api", "call": "Open", "ok": err == nil && pan == "", "panic": pan, "err": fmt.Sprint(err)})
	if err != nil || pan != "" {
		return evs
	}
	ptt := &pttRec{}
	tnc.SetPTT(ptt)

	var conn net.Conn
	if sc.Kind == "listen" {
		var ln net.Listener
		pan = guard(func() { ln, err = tnc.Listen() })
		if err != nil || pan != "" {
			return append(evs, rec.Event{"op": "Api", "call": "Listen", "ok": false, "panic": pan, "err": fmt.Sprint(err)})
		}
		type acc struct {
			c   net.Conn
			err error
		}
		ch := make(chan acc, 1)
		go func() { c, err := ln.Accept(); ch <- acc{c, err} }()
		time.Sleep(20 * time.Millisecond)
		sim.SendCmd("PENDING")
		sim.SendCmd("TARGET LA1AAA")
		sim.SendCmd("NEWSTATE IRS")
		sim.SendCmd("CONNECTED LA2BBB 500")
		select {
		case a := <-ch:
			conn, err = a.c, a.err
		case <-time.After(3 * time.Second):
			err = fmt.Errorf("Accept did not return")
		}
		ok := err == nil && conn != nil && strings.HasPrefix(conn.RemoteAddr().String(), "LA2BBB")
		add(rec.Event{"op": "Api", "call": "Accept", "ok": ok, "panic": "", "err": fmt.Sprint(err)})
		if !ok {
			return evs
		}
	} else {
		if !within(5*time.Second, func() { pan = guard(func() { conn, err = tnc.Dial("LA2BBB") }) }) {
			return append(evs, rec.Event{"op": "Api", "call": "Dial", "ok": false, "panic": "", "err": "Dial did not return"})
		}
		wantOK := sim.ConnectReply == "ok"
		add(rec.Event{"op": "Api", "call": "Dial", "ok": pan == "" && (err == nil) == wantOK, "panic": pan, "err": fmt.Sprint(err)})
		if err != nil || pan != "" || conn == nil {
			return evs
		}
	}

	if sc.StalledListener {
		_ = tnc.ListenEnabled() // state notifications asked for after the connection is up; never drained, never closed
	}
	var accepted []byte
	if sc.Kind == "outbound" {
		sim.mu.Lock()
		sim.CRCFaults = sc.CRCFaults
		sim.mu.Unlock()
		cmdsDone := make(chan int, 1)
		if sc.Commands > 0 {
			go func() {
				okN := 0
				for c := 0; c < sc.Commands; c++ {
					if guard(func() {
						if _, err := tnc.Version(); err == nil {
							okN++
						}
					}) != "" {
						break
					}
				}
				cmdsDone <- okN
			}()
		}
		for i, n := range sc.Writes {
			p := pattern(i, n)
			var k int
			var werr error
			sim.Note("writeCall", n)
			if !within(10*time.Second, func() { pan = guard(func() { k, werr = conn.Write(p) }); sim.Note("writeRet", k) }) {
				add(rec.Event{"op": "Api", "call": "Write", "ok": false, "panic": "", "err": "Write did not return"})
				return evs
			}
			// Write returns the number of bytes it accepted, or an error
			expectFail := i == 0 && sc.CRCFaults >= 3
			ok := pan == "" && k >= 0 && k <= n && ((werr == nil && k > 0 && !expectFail) || (werr != nil && (expectFail || true)))
			add(rec.Event{"op": "Api", "call": "Write", "ok": ok, "panic": pan, "n": k, "want": n, "err": fmt.Sprint(werr)})
			if werr == nil && pan == "" {
				accepted = append(accepted, p[:k]...)
			} else {
				break
			}
		}
		if sc.Commands > 0 {
			select {
			case okN := <-cmdsDone:
				add(rec.Event{"op": "Api", "call": "Version (while writing)", "ok": okN == sc.Commands, "panic": "", "err": fmt.Sprintf("%d of %d answered", okN, sc.Commands)})
			case <-time.After(15 * time.Second):
				add(rec.Event{"op": "Api", "call": "Version (while writing)", "ok": false, "panic": "", "err": "did not return"})
			}
		}
		if sc.Script == "stale-report-crcfault" {
			time.Sleep(400 * time.Millisecond) // time for the CRCFAULT to be processed and the frame to be sent again
			sim.SendCmd("BUFFER 0")
		} else if f, ok := conn.(interface{ Flush() error }); ok && len(accepted) > 0 && sc.Script == "stale-zero" {
			time.Sleep(200 * time.Millisecond) // BUFFER 5 for frame 2 has been sent and processed
			var ferr error
			done := make(chan struct{})
			var at time.Time
			sim.Note("flushCall", 0)
			go func() {
				pan = guard(func() { ferr = f.Flush() })
				at = time.Now()
				sim.Note("flushRet", 0)
				close(done)
			}()
			early := false
			select {
			case <-done:
				early = true
			case <-time.After(300 * time.Millisecond):
			}
			sim.SendCmd("BUFFER 0")
			ret := early
			if !early {
				select {
				case <-done:
					ret = true
				case <-time.After(3 * time.Second):
				}
			}
			add(rec.Event{"op": "Api", "call": "Flush(stale BUFFER 0)", "ok": ret && !early && pan == "" && ferr == nil && sim.FlushSound(at), "panic": pan, "returned": ret,
				"err": fmt.Sprintf("returned before the TNC reported an empty buffer for the last frame: %v", early)})
		} else if f, ok := conn.(interface{ Flush() error }); ok && len(accepted) > 0 {
			var ferr error
			sim.Note("flushCall", 0)
			ret := within(5*time.Second, func() {
				pan = guard(func() { ferr = f.Flush() })
				if ferr == nil {
					sim.Note("flushRet", 0) // "everything is out"
				} else {
					sim.Note("flushErr", 0) // a Flush that gives up (the connection went away under it) claims nothing
				}
			})
			now := time.Now()
			if sc.Buffers != nil && sc.Buffers[len(sc.Buffers)-1] != 0 {
				// the TNC never reports an empty buffer: Flush must not return
				add(rec.Event{"op": "Api", "call": "Flush(no BUFFER 0)", "ok": !ret, "panic": ""})
				if !sc.CloseUnflushed {
					sim.SendCmd("BUFFER 0") // now let the connection be closed
				}
			} else {
				add(rec.Event{"op": "Api", "call": "Flush", "ok": ret && pan == "" && ferr == nil && sim.FlushSound(now), "panic": pan, "returned": ret})
			}
		}
	}
	if sc.Kind == "inbound" || sc.Kind == "listen" {
		var want []byte
		var got []byte
		var mu sync.Mutex
		readDone := make(chan struct{})
		var rpan string
		startRead := make(chan struct{})
		if !sc.DiscAfter && !sc.LateReader {
			close(startRead)
		}
		go func() {
			defer close(readDone)
			<-startRead
			rpan = guard(func() {
				buf := make([]byte, sc.ReadBuf)
				for {
					n, err := conn.Read(buf)
					mu.Lock()
					got = append(got, buf[:n]...)
					mu.Unlock()
					if err != nil {
						return
					}
				}
			})
		}()
		if sc.EarlyData > 0 && sc.Kind == "inbound" {
			want = append(want, pattern(49, sc.EarlyData)...)
		}
		for i, n := range sc.Frames {
			want = append(want, pattern(50+i, n)...)
		}
		sendAll := func() {
			for i, n := range sc.Frames {
				p := pattern(50+i, n)
				if sc.Noise {
					sim.SendData("FEC", []byte("fec data not for the connection"))
					sim.SendData("IDF", []byte("ID:LA9XYZ [JP20]:"))
					sim.SendCmd("BUSY TRUE")
					sim.SendData("ERR", []byte("garbled"))
					sim.SendCmd("NEWSTATE IRS")
					sim.SendCmd("PTT TRUE")
					sim.SendCmd("BUSY FALSE")
					sim.SendCmd("PTT FALSE")
					sim.SendCmd("INPUTPEAKS 123 456")
				}
				sim.SendData("ARQ", p)
			}
		}
		if sc.LateReader {
			// the TNC's line is a pipe: once the library stops taking frames the sender waits, so it gets its own goroutine
			sent := make(chan struct{})
			go func() { sendAll(); close(sent) }()
			if sc.IdleSeconds > 0 {
				time.Sleep(time.Duration(sc.IdleSeconds) * time.Second)
			} else {
				time.Sleep(700 * time.Millisecond)
			}
			close(startRead)
			select {
			case <-sent:
			case <-time.After(10 * time.Second):
			}
		} else {
			sendAll()
		}
		if sc.DiscAfter {
			sim.SendCmd("NEWSTATE DISC")
			sim.SendCmd("DISCONNECTED")
			time.Sleep(300 * time.Millisecond)
			close(startRead)
		}
		deadline := time.Now().Add(3 * time.Second)
		for time.Now().Before(deadline) {
			mu.Lock()
			l := len(got)
			mu.Unlock()
			if l >= len(want) {
				break
			}
			time.Sleep(10 * time.Millisecond)
		}
		time.Sleep(50 * time.Millisecond)
		mu.Lock()
		g := append([]byte(nil), got...)
		mu.Unlock()
		if sc.IdleSeconds > 0 {
			// after a minute of a full queue the library disconnects on its own account: what is judged is that the process is
			// still there and the reader is not served anything but the remote's bytes, in order
			add(rec.Event{"op": "Reads", "match": bytes.HasPrefix(want, g), "got": len(g), "want": len(want), "panic": rpan, "foreign": false})
		} else {
			add(rec.Event{"op": "Reads", "match": bytes.Equal(g, want), "got": len(g), "want": len(want), "panic": rpan,
				"foreign": bytes.Contains(g, []byte("fec data")) || bytes.Contains(g, []byte("LA9XYZ")) || bytes.Contains(g, []byte("garbled"))})
		}
		if sc.Noise {
			// PTT requests reach the controller in the TNC's order (after the two of the dial sequence)
			ptt.mu.Lock()
			calls := append([]bool(nil), ptt.calls...)
			ptt.mu.Unlock()
			want := []bool{}
			if sc.Kind != "listen" {
				want = append(want, true, false)
			}
			for range sc.Frames {
				want = append(want, true, false)
			}
			add(rec.Event{"op": "Ptt", "inOrder": fmt.Sprint(calls) == fmt.Sprint(want), "calls": fmt.Sprint(calls), "want": fmt.Sprint(want)})
		}
	}
	var cerr error
	sim.Note("closeCall", 0)
	closeWithin := 6 * time.Second
	if sc.CloseUnflushed {
		closeWithin = 45 * time.Second
	}
	ret := within(closeWithin, func() { pan = guard(func() { cerr = conn.Close() }); sim.Note("closeRet", 0) })
	add(rec.Event{"op": "Api", "call": "Close", "ok": ret && pan == "" && cerr == nil, "panic": pan, "err": fmt.Sprint(cerr)})
	if !sc.DiscAfter {
		add(rec.Event{"op": "CloseLog", "log": sim.LogSnapshot()})
	}
	time.Sleep(30 * time.Millisecond)
	// what the TNC received
	items := sim.Snapshot()
	wellformed := len(sim.Garbled) == 0
	var payload []byte
	var faulted [][]byte
	retransOK := true
	seenDisconnect, seenCall := false, false
	for _, it := range items {
		if !it.CRCOK && it.Kind != "garbled" {
			wellformed = false
		}
		switch it.Kind {
		case "data":
			if len(faulted) > 0 {
				// after CRCFAULT the same frame must come again, byte for byte
				for _, f := range faulted {
					if !bytes.Equal(f, it.Data) {
						retransOK = false
					}
				}
				faulted = nil
			}
			payload = append(payload, it.Data...)
		case "data-faulted":
			faulted = append(faulted, it.Data)
		case "cmd":
			if strings.HasPrefix(strings.ToUpper(it.Text), "DISCONNECT") {
				seenDisconnect = true
			}
			if strings.HasPrefix(strings.ToUpper(it.Text), "ARQCALL LA2BBB") {
				seenCall = true
			}
		}
	}
	if sc.Kind == "outbound" {
		add(rec.Event{"op": "TncLog", "log": sim.LogSnapshot()})
		add(rec.Event{"op": "TncFaults", "log": sim.LogSnapshot()})
		add(rec.Event{"op": "TncData", "wellformed": wellformed, "payloadOK": bytes.Equal(payload, accepted), "got": len(payload), "want": len(accepted)})
		if sc.CRCFaults > 0 {
			add(rec.Event{"op": "Retransmit", "identical": retransOK, "faults": sc.CRCFaults})
		}
	} else {
		add(rec.Event{"op": "TncData", "wellformed": wellformed, "payloadOK": true, "got": 0, "want": 0})
	}
	if sc.Kind != "listen" {
		add(rec.Event{"op": "Exchange", "name": "arqcall", "seen": seenCall})
	}
	add(rec.Event{"op": "Exchange", "name": "disconnect", "seen": seenDisconnect})
	guard(func() { within(3*time.Second, func() { tnc.Close() }) })
	return evs
}

type nopConn struct{ net.Conn }

func (nopConn) Read(b []byte) (int, error) { time.Sleep(100 * time.Millisecond); return 0, io.EOF }

// malformed input from the TNC, in a child process: the outcome to detect is a crash
func runMalformed(kind string) int {
	sim, host := NewSerialSim()
	tnc, err := ardop.Open(host, "LA1AAA", "JO29PJ")
	if err != nil {
		return 3
	}
	var conn net.Conn
	listening := strings.HasSuffix(kind, "@listen")
	kind = strings.TrimSuffix(kind, "@listen")
	if listening {
		// the malformed input arrives while the listener waits for an inbound connection
		ln, err := tnc.Listen()
		if err != nil {
			return 3
		}
		go func() {
			for {
				c, err := ln.Accept()
				if err != nil {
					return
				}
				go io.Copy(io.Discard, c)
			}
		}()
		time.Sleep(50 * time.Millisecond)
		conn = nopConn{}
	} else {
		conn, err = tnc.Dial("LA2BBB")
		if err != nil {
			return 3
		}
	}
	frame := func(body []byte) []byte {
		c := crc16(body)
		return append(append([]byte("d:"), body...), byte(c>>8), byte(c))
	}
	switch kind {
	case "ctrl-no-arg":
		for rep := 0; rep < 3; rep++ {
			for _, c := range []string{"BUFFER", "PTT", "NEWSTATE", "LISTEN", "BUSY", "STATE", "FAULT", "CONNECTED", "MYCALL", "ARQTIMEOUT", "CODEC", "TARGET", "STATUS",
				"PENDING", "CANCELPENDING", "DISCONNECTED", "CRCFAULT", "INPUTPEAKS", "VERSION", "ARQBW", "GRIDSQUARE"} {
				if listening {
					sim.SendCmd("TARGET LA1AAA") // an inbound call is being set up
				}
				sim.SendCmd(c)
			}
			time.Sleep(30 * time.Millisecond)
		}
	case "chatty-during-close":
		// valid control messages keep arriving while the application closes the connection and the TNC object
		stop := make(chan struct{})
		go func() {
			for i := 0; ; i++ {
				select {
				case <-stop:
					return
				default:
				}
				sim.SendCmd([]string{"BUFFER 0", "PTT FALSE", "BUSY FALSE", "INPUTPEAKS 1 2"}[i%4])
				time.Sleep(200 * time.Microsecond)
			}
		}()
		time.Sleep(50 * time.Millisecond)
		within(5*time.Second, func() { conn.Close() })
		within(5*time.Second, func() { tnc.Close() })
		time.Sleep(300 * time.Millisecond)
		close(stop)
		return 0
	case "ctrl-unknown":
		sim.SendCmd("FROBNICATE 1 2 3")
		sim.SendCmd("")
		sim.SendCmd("   ")
		sim.SendCmd("buffer abc")
		sim.SendCmd("NEWSTATE WHATEVER")
		sim.SendCmd("PTT maybe")
	case "bad-crc":
		b := []byte("c:BUFFER 10\r\x00\x00")
		sim.Raw(b)
		sim.Raw([]byte("d:\x00\x04ARQx\x12\x34"))
		sim.SendCmd("BUFFER 0")
	case "short-dframe":
		// data frames shorter than the three byte type
		sim.Raw(frame([]byte{0, 0}))
		sim.Raw(frame([]byte{0, 1, 'A'}))
		sim.Raw(frame([]byte{0, 2, 'A', 'R'}))
		sim.SendCmd("BUFFER 0")
	case "len-65535":
		for _, n := range []int{65532, 65533, 65534, 65535} {
			body := make([]byte, 2+n)
			body[0], body[1] = byte(n>>8), byte(n)
			copy(body[2:], "ARQ")
			sim.Raw(frame(body))
		}
		sim.SendCmd("BUFFER 0")
	case "truncated":
		sim.Raw([]byte("d:\x01\x00ARQ only a few bytes"))
		time.Sleep(100 * time.Millisecond)
		sim.Close()
	case "garbage":
		g := make([]byte, 3000)
		rand.New(rand.NewSource(5)).Read(g)
		sim.Raw(g)
		sim.SendCmd("BUFFER 0")
	case "unknown-prefix":
		sim.Raw([]byte("x:hello\r\x00\x00"))
		sim.Raw([]byte("C:BUFFER 1\r\x00\x00"))
		sim.SendCmd("BUFFER 0")
	}
	time.Sleep(250 * time.Millisecond)
	go func() {
		buf := make([]byte, 70000)
		conn.Read(buf)
	}()
	time.Sleep(150 * time.Millisecond)
	return 0
}

// TCP mode: the library opens a control and a data connection (port, port+1).
func runTCP() []rec.Event {
	var evs []rec.Event
	var l1, l2 net.Listener
	for try := 0; try < 50; try++ {
		a, err := net.Listen("tcp", "127.0.0.1:0")
		if err != nil {
			continue
		}
		port := a.Addr().(*net.TCPAddr).Port
		if port%10 == 9 {
			a.Close()
			continue
		}
		b, err := net.Listen("tcp", fmt.Sprintf("127.0.0.1:%d", port+1))
		if err != nil {
			a.Close()
			continue
		}
		l1, l2 = a, b
		break
	}
	if l1 == nil {
		return []rec.Event{{"op": "Infra", "err": "no consecutive ports"}}
	}
	defer l1.Close()
	defer l2.Close()
	var dataGot []byte
	var ctrlLines []string
	var mu sync.Mutex
	var ctrl, data net.Conn
	ready := make(chan struct{})
	go func() {
		c, err := l1.Accept()
		if err != nil {
			return
		}
		d, err := l2.Accept()
		if err != nil {
			return
		}
		ctrl, data = c, d
		close(ready)
		go func() {
			buf := make([]byte, 70000)
			faulted := false
			for {
				n, err := d.Read(buf)
				if err == nil && !faulted {
					// the TNC asks for the first data frame again (CRCFAULT exists on the TCP interface too): it must come again
					faulted = true
					c.Write([]byte("CRCFAULT\r"))
					continue
				}
				mu.Lock()
				dataGot = append(dataGot, buf[:n]...)
				mu.Unlock()
				if err != nil {
					return
				}
				c.Write([]byte(fmt.Sprintf("BUFFER %d\r", n)))
				time.Sleep(40 * time.Millisecond)
				c.Write([]byte("BUFFER 0\r"))
			}
		}()
		var line []byte
		one := make([]byte, 1)
		for {
			if _, err := c.Read(one); err != nil {
				return
			}
			if one[0] != '\r' {
				line = append(line, one[0])
				continue
			}
			cmd := string(line)
			line = nil
			mu.Lock()
			ctrlLines = append(ctrlLines, cmd)
			mu.Unlock()
			up := strings.ToUpper(cmd)
			f := strings.Fields(cmd)
			arg := strings.Join(f[1:], " ")
			switch {
			case up == "STATE":
				c.Write([]byte("STATE DISC\r"))
			case up == "MYCALL":
				c.Write([]byte("MYCALL LA1AAA\r"))
			case strings.HasPrefix(up, "ARQCALL"):
				c.Write([]byte("ARQCALL " + arg + "\rNEWSTATE ISS\rCONNECTED LA2BBB 500\r"))
			case up == "DISCONNECT":
				c.Write([]byte("DISCONNECT\rNEWSTATE DISC\rDISCONNECTED\r"))
			case len(f) > 1:
				c.Write([]byte(f[0] + " now " + arg + "\r"))
			default:
				c.Write([]byte(cmd + "\r"))
			}
		}
	}()
	var tnc *ardop.TNC
	var err error
	var pan string
	ok := within(5*time.Second, func() { pan = guard(func() { tnc, err = ardop.OpenTCP(l1.Addr().String(), "LA1AAA", "JO29PJ") }) })
	evs = append(evs, rec.Event{"op": "Api", "call": "OpenTCP", "ok": ok && err == nil && pan == "", "panic": pan, "err": fmt.Sprint(err)})
	if !ok || err != nil || pan != "" {
		return evs
	}
	<-ready
	var conn net.Conn
	ok = within(5*time.Second, func() { pan = guard(func() { conn, err = tnc.Dial("LA2BBB") }) })
	evs = append(evs, rec.Event{"op": "Api", "call": "Dial", "ok": ok && err == nil && pan == "", "panic": pan, "err": fmt.Sprint(err)})
	if !ok || err != nil || pan != "" {
		return evs
	}
	p1 := pattern(1, 300)
	var k int
	ok = within(5*time.Second, func() { pan = guard(func() { k, err = conn.Write(p1) }) })
	evs = append(evs, rec.Event{"op": "Api", "call": "Write", "ok": ok && err == nil && k == 300 && pan == "", "panic": pan, "err": fmt.Sprint(err)})
	// inbound: TCP data frames: len16, type, payload (no prefix, no CRC)
	p2 := pattern(2, 200)
	fr := []byte{0, byte(3 + len(p2))}
	fr = append(append(fr, "ARQ"...), p2...)
	data.Write(fr[:10])
	time.Sleep(20 * time.Millisecond)
	data.Write(fr[10:])
	buf := make([]byte, 4096)
	var got []byte
	within(3*time.Second, func() {
		for len(got) < len(p2) {
			n, err := conn.Read(buf)
			got = append(got, buf[:n]...)
			if err != nil {
				return
			}
		}
	})
	evs = append(evs, rec.Event{"op": "Reads", "match": bytes.Equal(got, p2), "got": len(got), "want": len(p2), "panic": "", "foreign": false})
	ok = within(6*time.Second, func() { pan = guard(func() { err = conn.Close() }) })
	evs = append(evs, rec.Event{"op": "Api", "call": "Close", "ok": ok && err == nil && pan == "", "panic": pan, "err": fmt.Sprint(err)})
	mu.Lock()
	// host->TNC data over TCP: two byte big-endian length and the data, nothing else
	want := append([]byte{byte(len(p1) >> 8), byte(len(p1))}, p1...)
	evs = append(evs, rec.Event{"op": "TncData", "wellformed": true, "payloadOK": bytes.Equal(dataGot, want), "got": len(dataGot), "want": len(want)})
	disc := false
	for _, l := range ctrlLines {
		if strings.ToUpper(l) == "DISCONNECT" {
			disc = true
		}
	}
	mu.Unlock()
	evs = append(evs, rec.Event{"op": "Exchange", "name": "disconnect", "seen": disc})
	_ = ctrl
	return evs
}

// Main is the "ardop" subcommand.
func Main(args []string) int {
	fs := flag.NewFlagSet("ardop", flag.ExitOnError)
	out := fs.String("out", "", "trace ndjson")
	n := fs.Int("n", 20, "seeded schedules")
	child := fs.String("child", "", "internal")
	one := fs.String("one", "", "internal")
	fs.Parse(args)
	if *child != "" {
		return runMalformed(*child)
	}
	if *one != "" {
		var evs []rec.Event
		if *one == "tcp" {
			evs = runTCP()
		} else {
			var sc scen
			if json.Unmarshal([]byte(*one), &sc) != nil {
				return 2
			}
			evs = runScenario(sc)
		}
		time.Sleep(100 * time.Millisecond)
		b, _ := json.Marshal(evs)
		fmt.Println("EVENTS " + string(b))
		return 0
	}
	rng := rand.New(rand.NewSource(rec.Seed()))
	var scs []scen
	base := scen{ReadBuf: 4096, Reply: "ok"}
	mk := func(f func(*scen)) { s := base; f(&s); scs = append(scs, s) }
	mk(func(s *scen) { s.Kind = "outbound"; s.Writes = []int{1, 100, 1000} })
	mk(func(s *scen) { s.Kind = "outbound"; s.Writes = []int{65535} })
	mk(func(s *scen) { s.Kind = "outbound"; s.Writes = []int{65536} })
	mk(func(s *scen) { s.Kind = "outbound"; s.Writes = []int{200000} })
	mk(func(s *scen) { s.Kind = "outbound"; s.Writes = []int{50, 60}; s.CRCFaults = 1 })
	mk(func(s *scen) { s.Kind = "outbound"; s.Writes = []int{500}; s.CRCFaults = 2 })
	mk(func(s *scen) { s.Kind = "outbound"; s.Writes = []int{70}; s.CRCFaults = 3 })
	mk(func(s *scen) { s.Kind = "outbound"; s.Writes = []int{70}; s.Buffers = []int{70, 35} })
	mk(func(s *scen) {
		s.Kind = "outbound"
		s.Writes = []int{70}
		s.Buffers = []int{70, 35}
		s.CloseUnflushed = true
	})
	mk(func(s *scen) { s.Kind = "outbound"; s.Writes = []int{3000, 3000, 3000, 50, 3000}; s.Commands = 60 })
	mk(func(s *scen) { s.Kind = "outbound"; s.Writes = []int{70000}; s.Commands = 200 })
	mk(func(s *scen) { s.Kind = "outbound"; s.Writes = []int{800, 800, 800, 800, 800, 800}; s.Commands = 150; s.SlowLine = true })
	mk(func(s *scen) {
		s.Kind = "inbound"
		s.Frames = make([]int, 4300)
		for i := range s.Frames {
			s.Frames[i] = 1 + i%3
		}
		s.LateReader = true
	})
	if *n >= 200 { // (thorough tier: takes more than a minute)
		mk(func(s *scen) {
			s.Kind = "inbound"
			s.Frames = make([]int, 4300)
			for i := range s.Frames {
				s.Frames[i] = 1 + i%3
			}
			s.LateReader = true
			s.IdleSeconds = 63
		})
	}
	mk(func(s *scen) { s.Kind = "outbound"; s.Writes = []int{70, 80}; s.Buffers = []int{150, 100, 20, 0} })
	mk(func(s *scen) { s.Kind = "outbound"; s.Writes = []int{50, 60}; s.Script = "stale-zero" })
	mk(func(s *scen) { s.Kind = "outbound"; s.Writes = []int{50, 60}; s.Script = "stale-report-crcfault" })
	mk(func(s *scen) { s.Kind = "outbound"; s.Reply = "fault" })
	mk(func(s *scen) { s.Kind = "outbound"; s.Reply = "timeout" })
	for _, rb := range []int{4096, 100, 1, 65536} {
		rb := rb
		mk(func(s *scen) { s.Kind = "inbound"; s.Frames = []int{1, 2, 100, 1000}; s.ReadBuf = rb })
		mk(func(s *scen) { s.Kind = "inbound"; s.Frames = []int{10, 20, 30}; s.ReadBuf = rb; s.Noise = true })
	}
	mk(func(s *scen) { s.Kind = "inbound"; s.Frames = []int{4095, 4096, 4097}; s.ReadBuf = 4096 })
	mk(func(s *scen) { s.Kind = "inbound"; s.Frames = []int{65529, 65530}; s.ReadBuf = 70000 })
	mk(func(s *scen) {
		s.Kind = "inbound"
		s.Frames = []int{28, 28, 28, 28, 28, 28, 28, 28}
		s.ReadBuf = 7
		s.DiscAfter = true
	})
	mk(func(s *scen) {
		s.Kind = "inbound"
		s.Frames = []int{100, 200, 300}
		s.ReadBuf = 512
		s.DiscAfter = true
	})
	mk(func(s *scen) { s.Kind = "outbound"; s.Writes = []int{30}; s.DiscStyle = "delayed" })
	mk(func(s *scen) { s.Kind = "outbound"; s.Writes = []int{30}; s.DiscStyle = "only-disconnected" })
	mk(func(s *scen) { s.Kind = "inbound"; s.Frames = []int{20, 30}; s.ReadBuf = 4096; s.DiscStyle = "delayed" })
	mk(func(s *scen) { s.Kind = "inbound"; s.Frames = []int{20, 30}; s.ReadBuf = 4096; s.EarlyData = 25 })
	mk(func(s *scen) { s.Kind = "inbound"; s.Frames = []int{7}; s.ReadBuf = 5; s.EarlyData = 300 })
	mk(func(s *scen) { s.Kind = "outbound"; s.Writes = []int{40, 50, 60}; s.NoiseBeforeBuffer = true })
	mk(func(s *scen) { s.Kind = "outbound"; s.Writes = []int{50, 60}; s.TrailingSpace = true })
	mk(func(s *scen) {
		s.Kind = "inbound"
		s.Frames = []int{10, 20}
		s.ReadBuf = 64
		s.Noise = true
		s.TrailingSpace = true
	})
	mk(func(s *scen) {
		s.Kind = "outbound"
		s.Writes = []int{50, 60}
		s.CRCFaults = 1
		s.StalledListener = true
	})
	mk(func(s *scen) {
		s.Kind = "outbound"
		s.Writes = []int{70}
		s.CRCFaults = 2
		s.StalledListener = true
		s.NoiseBeforeBuffer = true
	})
	mk(func(s *scen) { s.Kind = "listen"; s.Frames = []int{40, 400}; s.ReadBuf = 4096 })
	mk(func(s *scen) { s.Kind = "listen"; s.Frames = []int{40, 400}; s.ReadBuf = 64; s.Noise = true })
	for i := 0; i < *n; i++ {
		s := base
		if rng.Intn(2) == 0 {
			s.Kind = "outbound"
			for k := 1 + rng.Intn(3); k > 0; k-- {
				s.Writes = append(s.Writes, 1+rng.Intn(3000))
			}
			s.CRCFaults = []int{0, 0, 1, 2}[rng.Intn(4)]
		} else {
			s.Kind = []string{"inbound", "listen"}[rng.Intn(2)]
			for k := 1 + rng.Intn(5); k > 0; k-- {
				s.Frames = append(s.Frames, 1+rng.Intn(2000))
			}
			s.ReadBuf = []int{4096, 4096, 500, 33}[rng.Intn(4)]
			s.Noise = rng.Intn(2) == 0
		}
		scs = append(scs, s)
	}
	selfExe, _ := os.Executable()
	type job struct {
		arg  string
		desc interface{}
	}
	var jobs []job
	for _, s := range scs {
		b, _ := json.Marshal(s)
		jobs = append(jobs, job{string(b), s})
	}
	jobs = append(jobs, job{"tcp", map[string]string{"kind": "tcp"}})
	results := make([][]rec.Event, len(jobs))
	var wg sync.WaitGroup
	sem := make(chan struct{}, 10)
	for i := range jobs {
		wg.Add(1)
		sem <- struct{}{}
		go func(i int) {
			defer wg.Done()
			defer func() { <-sem }()
			results[i] = runChild(selfExe, []string{"ardop", "--one", jobs[i].arg}, 90*time.Second)
		}(i)
	}
	wg.Wait()
	w, err := rec.NewWriter(*out)
	if err != nil {
		fmt.Fprintln(os.Stderr, err)
		return 2
	}
	defer w.Close()
	for i, evs := range results {
		w.Write(map[string]interface{}{"scen": jobs[i].desc}, evs)
	}
	for _, k := range []string{"ctrl-no-arg", "ctrl-unknown", "bad-crc", "short-dframe", "len-65535", "truncated", "garbage", "unknown-prefix",
		"ctrl-no-arg@listen", "ctrl-unknown@listen", "bad-crc@listen", "short-dframe@listen", "garbage@listen", "unknown-prefix@listen", "chatty-during-close"} {
		evs := runChild(selfExe, []string{"ardop", "--child", k}, 30*time.Second)
		crashed, hung, site := false, false, ""
		if len(evs) == 1 && evs[0]["op"] == "Crash" {
			crashed, site = true, fmt.Sprint(evs[0]["site"], " in ", evs[0]["func"])
			hung, _ = evs[0]["hung"].(bool)
		}
		w.Write(map[string]interface{}{"scen": map[string]string{"kind": "malformed", "malform": k}},
			[]rec.Event{{"op": "Malformed", "case": k, "crashed": crashed && !hung, "hung": hung, "site": site}})
	}
	fmt.Printf("{\"traces\":%d,\"scenarios\":%d}\n", w.Count(), len(jobs))
	return 0
}

// runChild runs a scenario in a child process; returns its events, or a Crash event.
func runChild(self string, args []string, timeout time.Duration) []rec.Event {
	cmd := exec.Command(self, args...)
	var stdout, stderr bytes.Buffer
	cmd.Stdout, cmd.Stderr = &stdout, &stderr
	done := make(chan error, 1)
	go func() { done <- cmd.Run() }()
	var runErr error
	select {
	case runErr = <-done:
	case <-time.After(timeout):
		cmd.Process.Kill()
		return []rec.Event{{"op": "Crash", "site": "did not finish", "func": "", "hung": true}}
	}
	for _, l := range strings.Split(stdout.String(), "\n") {
		if strings.HasPrefix(l, "EVENTS ") {
			var evs []rec.Event
			if json.Unmarshal([]byte(l[7:]), &evs) == nil {
				return evs
			}
		}
	}
	if runErr == nil {
		return []rec.Event{} // malformed child: exit 0, nothing to report
	}
	if ee, ok := runErr.(*exec.ExitError); ok && ee.ExitCode() == 3 {
		return []rec.Event{{"op": "Infra", "err": "child could not set up the TNC"}}
	}
	site, fn := "", ""
	for _, l := range strings.Split(stderr.String(), "\n") {
		if site == "" && (strings.HasPrefix(l, "panic:") || strings.HasPrefix(l, "fatal error:")) {
			site = l
		}
		if fn == "" && strings.HasPrefix(l, "github.com/la5nta/wl2k-go/") {
			fn = strings.TrimPrefix(l, "github.com/la5nta/wl2k-go/")
			if j := strings.LastIndex(fn, "("); j > 0 {
				fn = fn[:j]
			}
		}
	}
	return []rec.Event{{"op": "Crash", "site": site, "func": fn, "hung": false}}
}
