// Package ardoph is a simulated ARDOP TNC (host interface over a CRC protected serial line or over TCP) and the
// schedules that drive transport/ardop (C14). Written from the ARDOP host interface specification in /repo/docs/ardop:
// host->TNC "C:"<command>CR<crc16> and "D:"<len16><data><crc16>; TNC->host "c:"<text>CR<crc16> and
// "d:"<len16><3 byte type><data><crc16>; the CRC is CRC-16 with polynomial 0x8810 and initial value 0xFFFF over the
// bytes after the two byte prefix; over TCP the prefixes and CRCs are omitted and data uses a second port.
package ardoph

import (
	"bufio"
	"bytes"
	"encoding/binary"
	"fmt"
	"io"
	"strings"
	"sync"
	"time"
)

// crc16 as specified for the ARDOP host interface (independent of transport/ardop/crc16.go).
func crc16(data []byte) uint16 {
	reg := 0xffff
	for _, b := range data {
		for mask := 0x80; mask > 0; mask >>= 1 {
			top := reg&0x8000 != 0
			reg = (reg << 1) & 0xffff
			if int(b)&mask != 0 {
				reg++
			}
			if top {
				reg ^= 0x8810
			}
		}
	}
	return uint16(reg)
}

// pipeEnd is one end of an in-memory serial line.
type pipeEnd struct {
	r *io.PipeReader
	w *io.PipeWriter
}

func (p pipeEnd) Read(b []byte) (int, error)  { return p.r.Read(b) }
func (p pipeEnd) Write(b []byte) (int, error) { return p.w.Write(b) }
func (p pipeEnd) Close() error                { p.r.Close(); return p.w.Close() }

func serialPair() (host, tnc pipeEnd) {
	r1, w1 := io.Pipe()
	r2, w2 := io.Pipe()
	return pipeEnd{r1, w2}, pipeEnd{r2, w1}
}

// Item is something the TNC received from the host.
type Item struct {
	Kind   string // "cmd" or "data"
	Text   string
	Data   []byte
	CRCOK  bool
	FormOK bool
	At     time.Time
}

type Sim struct {
	SlowLine bool // see slowReader
	line io.ReadWriteCloser
	mu   sync.Mutex
	wmu  sync.Mutex

	Received []Item
	MyCall   string
	State    string
	// behaviour
	CRCFaults    int   // answer the next n data frames with CRCFAULT (they do not count as received data)
	BufferAfter  []int // BUFFER values reported after a data frame arrives (default: the frame length, then 0)
	NoBuffer0    bool
	ConnectReply string // "ok", "fault", "timeout"
	// DiscStyle: how the TNC answers DISCONNECT: "" (echo, NEWSTATE DISC, DISCONNECTED at once), "delayed" (echo at once, the
	// two reports 300 ms later: the ARQ session takes time to end), "only-disconnected" (no echo, no NEWSTATE: DISCONNECTED only)
	DiscStyle string
	// EarlyData: an ARQ frame the TNC delivers right after CONNECTED, before the host has finished its dial sequence
	EarlyData []byte
	// TrailingSpace: BUFFER and PTT reports carry a trailing blank (as some TNC builds send them)
	TrailingSpace bool
	// NoiseBeforeBuffer: other control messages arrive between a data frame and its first BUFFER report
	NoiseBeforeBuffer bool
	// per data frame behaviour, keyed by the 1-based count of "D:" frames seen (retransmissions count)
	StaleBefore map[int][]string // control lines sent after the "D:" prefix was seen but before the frame is read: reports that
	// crossed the frame on the line (the TNC had not received it when it sent them)
	FaultFrames  map[int]bool  // answer this frame with CRCFAULT
	BufferScript map[int][]int // BUFFER values reported after this frame (overrides BufferAfter)
	nD           int
	Log          []LogItem
	bufferZeroAt []time.Time
	dataArrived  []time.Time
	done         chan struct{}
	Garbled      []string
}

// LogItem is one entry of the TNC side event log (one clock, one process): "data" (a data frame arrived and was accepted),
// "fault" (arrived, answered CRCFAULT), "buf" (a BUFFER report is about to be sent), "flushCall" / "flushRet" (noted by the driver).
type LogItem struct {
	K string `json:"k"`
	V int    `json:"v"`
}

func (s *Sim) Note(k string, v int) {
	s.mu.Lock()
	s.Log = append(s.Log, LogItem{k, v})
	s.mu.Unlock()
}

func (s *Sim) LogSnapshot() []LogItem {
	s.mu.Lock()
	defer s.mu.Unlock()
	return append([]LogItem(nil), s.Log...)
}

func NewSerialSim() (*Sim, io.ReadWriteCloser) {
	host, tnc := serialPair()
	s := &Sim{line: tnc, State: "DISC", ConnectReply: "ok", done: make(chan struct{})}
	go s.serve()
	return s, host
}

// SendCmd sends a control line to the host with serial framing.
func (s *Sim) SendCmd(text string) {
	if strings.HasPrefix(text, "BUFFER ") {
		v := -1
		fmt.Sscanf(text, "BUFFER %d", &v)
		s.mu.Lock()
		if v == 0 {
			s.bufferZeroAt = append(s.bufferZeroAt, time.Now())
		}
		s.Log = append(s.Log, LogItem{"buf", v})
		s.mu.Unlock()
	}
	if s.TrailingSpace && (strings.HasPrefix(text, "BUFFER ") || strings.HasPrefix(text, "PTT ")) {
		text += " "
	}
	payload := []byte(text + "\r")
	b := append([]byte("c:"), payload...)
	c := crc16(payload)
	b = append(b, byte(c>>8), byte(c))
	s.raw(b)
}

// SendData sends a data frame of the given type ("ARQ", "FEC", "ERR", "IDF").
func (s *Sim) SendData(typ string, data []byte) {
	body := make([]byte, 2, 2+3+len(data))
	binary.BigEndian.PutUint16(body, uint16(3+len(data)))
	body = append(body, typ...)
	body = append(body, data...)
	c := crc16(body)
	b := append([]byte("d:"), body...)
	b = append(b, byte(c>>8), byte(c))
	s.raw(b)
}

func (s *Sim) raw(b []byte) {
	s.wmu.Lock()
	defer s.wmu.Unlock()
	s.line.Write(b)
}

// Raw sends arbitrary bytes (malformed input).
func (s *Sim) Raw(b []byte) { s.raw(b) }

func (s *Sim) Close() { s.line.Close() }

// slowReader takes at most 16 bytes at a time from the line, 200 microseconds apart: a serial line on which a frame takes
// milliseconds, so that whoever else wants to write has queued up by the time a write ends.
type slowReader struct{ s *Sim }

func (r slowReader) Read(p []byte) (int, error) {
	r.s.mu.Lock()
	slow := r.s.SlowLine
	r.s.mu.Unlock()
	if slow {
		if len(p) > 16 {
			p = p[:16]
		}
		time.Sleep(200 * time.Microsecond)
	}
	return r.s.line.Read(p)
}

func (s *Sim) serve() {
	defer close(s.done)
	rd := bufio.NewReader(slowReader{s})
	for {
		p := make([]byte, 2)
		if _, err := io.ReadFull(rd, p); err != nil {
			return
		}
		switch string(p) {
		case "C:":
			line, err := rd.ReadBytes('\r')
			if err != nil {
				return
			}
			c := make([]byte, 2)
			if _, err := io.ReadFull(rd, c); err != nil {
				return
			}
			it := Item{Kind: "cmd", Text: strings.TrimSuffix(string(line), "\r"), CRCOK: crc16(line) == binary.BigEndian.Uint16(c), FormOK: true, At: time.Now()}
			s.mu.Lock()
			s.Received = append(s.Received, it)
			s.mu.Unlock()
			s.reply(it.Text)
		case "D:":
			s.mu.Lock()
			s.nD++
			nD := s.nD
			stale := s.StaleBefore[nD]
			s.mu.Unlock()
			if len(stale) > 0 {
				for _, c := range stale {
					s.SendCmd(c)
				}
				time.Sleep(80 * time.Millisecond)
			}
			l := make([]byte, 2)
			if _, err := io.ReadFull(rd, l); err != nil {
				return
			}
			n := int(binary.BigEndian.Uint16(l))
			data := make([]byte, n)
			if _, err := io.ReadFull(rd, data); err != nil {
				return
			}
			c := make([]byte, 2)
			if _, err := io.ReadFull(rd, c); err != nil {
				return
			}
			ok := crc16(append(append([]byte(nil), l...), data...)) == binary.BigEndian.Uint16(c)
			it := Item{Kind: "data", Data: data, CRCOK: ok, FormOK: true, At: time.Now()}
			s.mu.Lock()
			fault := s.CRCFaults > 0 || s.FaultFrames[nD]
			if fault {
				if s.CRCFaults > 0 {
					s.CRCFaults--
				}
				it.Kind = "data-faulted"
			}
			s.Received = append(s.Received, it)
			if !fault {
				s.dataArrived = append(s.dataArrived, time.Now())
				s.Log = append(s.Log, LogItem{"data", n})
			} else {
				s.Log = append(s.Log, LogItem{"fault", n})
			}
			bufs := s.BufferAfter
			if b, ok := s.BufferScript[nD]; ok {
				bufs = b
			}
			no0 := s.NoBuffer0
			s.mu.Unlock()
			if fault {
				if s.NoiseBeforeBuffer {
					s.SendCmd("NEWSTATE ISS") // a state report just before the fault report
				}
				s.SendCmd("CRCFAULT")
				continue
			}
			if bufs == nil {
				bufs = []int{n}
				if !no0 {
					bufs = append(bufs, 0)
				}
			}
			noise := s.NoiseBeforeBuffer
			go func() {
				if noise {
					s.SendCmd("PTT TRUE")
					s.SendCmd("NEWSTATE ISS")
					s.SendCmd("PTT FALSE")
				}
				for i, b := range bufs {
					if i > 0 {
						time.Sleep(60 * time.Millisecond)
					}
					s.SendCmd(fmt.Sprintf("BUFFER %d", b))
				}
			}()
		default:
			s.mu.Lock()
			s.Garbled = append(s.Garbled, fmt.Sprintf("%q", p))
			s.Received = append(s.Received, Item{Kind: "garbled", Text: fmt.Sprintf("%q", p), At: time.Now()})
			s.mu.Unlock()
		}
	}
}

func (s *Sim) reply(cmd string) {
	up := strings.ToUpper(cmd)
	f := strings.Fields(cmd)
	arg := ""
	if len(f) > 1 {
		arg = strings.Join(f[1:], " ")
	}
	switch {
	case up == "INITIALIZE":
		s.SendCmd("INITIALIZE")
	case up == "STATE":
		s.SendCmd("STATE " + s.State)
	case strings.HasPrefix(up, "CODEC"):
		s.SendCmd("CODEC now TRUE")
	case strings.HasPrefix(up, "PROTOCOLMODE"):
		s.SendCmd("PROTOCOLMODE now " + arg)
	case strings.HasPrefix(up, "ARQTIMEOUT"):
		s.SendCmd("ARQTIMEOUT now " + arg)
	case strings.HasPrefix(up, "LISTEN"):
		s.SendCmd("LISTEN now " + strings.ToUpper(arg))
	case strings.HasPrefix(up, "MYCALL"):
		if arg != "" {
			s.mu.Lock()
			s.MyCall = arg
			s.mu.Unlock()
			s.SendCmd("MYCALL now " + arg)
		} else {
			s.SendCmd("MYCALL " + s.MyCall)
		}
	case strings.HasPrefix(up, "GRIDSQUARE"):
		s.SendCmd("GRIDSQUARE now " + arg)
	case strings.HasPrefix(up, "ARQBW"):
		if arg != "" {
			s.SendCmd("ARQBW now " + arg)
		} else {
			s.SendCmd("ARQBW 500MAX")
		}
	case strings.HasPrefix(up, "VERSION"):
		s.SendCmd("VERSION ARDOPsim 1.0")
	case strings.HasPrefix(up, "ARQCALL"):
		s.SendCmd("ARQCALL " + arg)
		switch s.ConnectReply {
		case "ok":
			s.State = "ISS"
			s.SendCmd("NEWSTATE ISS")
			s.SendCmd("PTT TRUE")
			s.SendCmd("PTT FALSE")
			target := ""
			if len(f) > 1 {
				target = f[1]
			}
			s.SendCmd("CONNECTED " + target + " 500")
			if s.EarlyData != nil {
				s.SendData("ARQ", s.EarlyData)
			}
		case "fault":
			s.SendCmd("FAULT not from state")
		case "timeout":
			s.SendCmd("NEWSTATE ISS")
			s.State = "DISC"
			s.SendCmd("NEWSTATE DISC")
		}
	case up == "DISCONNECT":
		switch s.DiscStyle {
		case "delayed":
			s.SendCmd("DISCONNECT")
			go func() {
				time.Sleep(300 * time.Millisecond)
				s.State = "DISC"
				s.Note("disc", 0)
				s.SendCmd("NEWSTATE DISC")
				s.SendCmd("DISCONNECTED")
			}()
		case "only-disconnected":
			go func() {
				time.Sleep(100 * time.Millisecond)
				s.State = "DISC"
				s.Note("disc", 0)
				s.SendCmd("DISCONNECTED")
			}()
		default:
			s.SendCmd("DISCONNECT")
			s.State = "DISC"
			s.Note("disc", 0)
			s.SendCmd("NEWSTATE DISC")
			s.SendCmd("DISCONNECTED")
		}
	case up == "ABORT":
		s.SendCmd("ABORT")
	case up == "SENDID":
		s.SendCmd("SENDID")
	}
}

// Snapshot returns what the TNC has received.
func (s *Sim) Snapshot() []Item {
	s.mu.Lock()
	defer s.mu.Unlock()
	return append([]Item(nil), s.Received...)
}

// FlushSound reports whether a BUFFER 0 was sent after the last data frame arrived and before t.
func (s *Sim) FlushSound(t time.Time) bool {
	s.mu.Lock()
	defer s.mu.Unlock()
	if len(s.dataArrived) == 0 {
		return true
	}
	last := s.dataArrived[len(s.dataArrived)-1]
	for _, z := range s.bufferZeroAt {
		if z.After(last) && !z.After(t) {
			return true
		}
	}
	return false
}

var _ = bytes.Equal
