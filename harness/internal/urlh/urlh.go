// Package urlh drives transport.ParseURL on composed component tuples and raw strings, and the dialer
// registry under concurrent register/unregister/dial histories (C19).
package urlh

import (
	"encoding/json"
	"flag"
	"fmt"
	"math/rand"
	"net"
	"net/url"
	"os"
	"sort"
	"strings"
	"sync"
	"time"

	"github.com/la5nta/wl2k-go/transport"

	"verifharness/internal/rec"
)

type Vocab struct {
	Schemes    []string            `json:"schemes"`
	Users      [][]*string         `json:"users"`
	Hosts      []string            `json:"hosts"`
	HostParams []string            `json:"hostparams"`
	DigiVocab  []string            `json:"digivocab"`
	Targets    []string            `json:"targets"`
	Params     []map[string]string `json:"params"`
}

type tuple struct {
	Scheme    string            `json:"scheme"`
	HasUser   bool              `json:"hasuser"`
	User      string            `json:"user"`
	HasPass   bool              `json:"haspass"`
	Pass      string            `json:"pass"`
	Host      string            `json:"host"`
	HostParam string            `json:"hostparam"`
	Digis     []string          `json:"digis"`
	Target    string            `json:"target"`
	Params    map[string]string `json:"params"`
}

// compose builds the URL string by the documented grammar scheme://(user(:pass)@)(host)(/digi...)/target(?query).
func compose(c tuple) string {
	var sb strings.Builder
	sb.WriteString(c.Scheme + "://")
	if c.HasUser {
		if c.HasPass {
			sb.WriteString(url.UserPassword(c.User, c.Pass).String())
		} else {
			sb.WriteString(url.User(c.User).String())
		}
		sb.WriteString("@")
	}
	sb.WriteString(c.Host)
	for _, d := range c.Digis {
		sb.WriteString("/" + url.PathEscape(d))
	}
	sb.WriteString("/" + url.PathEscape(c.Target))
	q := url.Values{}
	for k, v := range c.Params {
		q.Set(k, v)
	}
	if c.HostParam != "" {
		q.Set("host", c.HostParam)
	}
	if len(q) > 0 {
		sb.WriteString("?" + q.Encode())
	}
	return sb.String()
}

func parse(raw string) (r map[string]interface{}, pan string) {
	defer func() {
		if p := recover(); p != nil {
			pan = fmt.Sprint(p)
		}
	}()
	u, err := transport.ParseURL(raw)
	r = map[string]interface{}{}
	switch {
	case err == transport.ErrInvalidTarget:
		r["err"] = "target"
	case err == transport.ErrDigisUnsupported:
		r["err"] = "digis"
	case err != nil:
		r["err"] = "other"
		r["errtext"] = err.Error()
	default:
		r["err"] = "none"
	}
	if u == nil {
		if err == nil {
			r["err"] = "nil-url-no-error"
		}
		return
	}
	r["scheme"] = u.Scheme
	r["host"] = u.Host
	r["hasuser"] = u.User != nil
	r["user"], r["haspass"], r["pass"] = "", false, ""
	if u.User != nil {
		r["user"] = u.User.Username()
		p, ok := u.User.Password()
		r["haspass"], r["pass"] = ok, p
	}
	r["target"] = u.Target
	digis := append([]string{}, u.Digis...)
	r["digis"] = digis
	params := map[string]string{}
	for k, v := range u.Params {
		if k == "host" {
			continue
		}
		params[k] = strings.Join(v, "\x00")
	}
	r["params"] = params
	// the result is the caller's: it is used the way applications use it (parameters added and overridden, the path
	// edited).  Every parse is independent of what was done to earlier results, so none of this may show in a later one.
	if u.Params != nil {
		u.Params.Set("host", "used.example:1")
		u.Params.Set("zz-used", "1")
	}
	for i := range u.Digis {
		u.Digis[i] = "USED"
	}
	u.Host, u.Target = "used", "USED"
	return
}

func parseEvents(v *Vocab, rng *rand.Rand, w *rec.Writer, sample int) int {
	n := 0
	emit := func(c tuple) {
		raw := compose(c)
		r, pan := parse(raw)
		if pan != "" {
			r = map[string]interface{}{"err": "panic", "panic": pan}
		}
		if c.Digis == nil {
			c.Digis = []string{}
		}
		if c.Params == nil {
			c.Params = map[string]string{}
		}
		w.Write(nil, []rec.Event{{"op": "Parse", "c": c, "r": r, "raw": raw}})
		n++
	}
	users := func(i int) (bool, string, bool, string) {
		u := v.Users[i]
		if u == nil {
			return false, "", false, ""
		}
		if u[1] == nil {
			return true, *u[0], false, ""
		}
		return true, *u[0], true, *u[1]
	}
	digiSeqs := [][]string{{}, {v.DigiVocab[0]}, {v.DigiVocab[1], v.DigiVocab[0]}, {v.DigiVocab[3], v.DigiVocab[2], v.DigiVocab[1]}}
	// eight digipeaters, in an order that is neither sorted nor reverse sorted
	eight := []string{}
	for i := 0; i < 8; i++ {
		eight = append(eight, v.DigiVocab[(i*3+1)%len(v.DigiVocab)])
	}
	digiSeqs = append(digiSeqs, eight)
	// exhaustive core: scheme x digis x target, with the other components cycling
	k := 0
	for _, s := range v.Schemes {
		for _, d := range digiSeqs {
			for _, t := range v.Targets {
				hu, u, hp, p := users(k % len(v.Users))
				emit(tuple{Scheme: s, HasUser: hu, User: u, HasPass: hp, Pass: p, Host: v.Hosts[k%len(v.Hosts)],
					HostParam: v.HostParams[(k/2)%len(v.HostParams)], Digis: d, Target: t, Params: v.Params[k%len(v.Params)]})
				k++
			}
		}
	}
	// exhaustive: user x host x hostparam x params on a fixed path
	for ui := range v.Users {
		for _, h := range v.Hosts {
			for _, hpar := range v.HostParams {
				for _, pr := range v.Params {
					hu, u, hp, p := users(ui)
					emit(tuple{Scheme: "ax25", HasUser: hu, User: u, HasPass: hp, Pass: p, Host: h, HostParam: hpar,
						Digis: digiSeqs[2], Target: v.Targets[1], Params: pr})
				}
			}
		}
	}
	// seeded sample of the full product with random digi sequences of length 0..8
	for i := 0; i < sample; i++ {
		nd := rng.Intn(9)
		ds := make([]string, nd)
		for j := range ds {
			ds[j] = v.DigiVocab[rng.Intn(len(v.DigiVocab))]
		}
		hu, u, hp, p := users(rng.Intn(len(v.Users)))
		emit(tuple{Scheme: v.Schemes[rng.Intn(len(v.Schemes))], HasUser: hu, User: u, HasPass: hp, Pass: p,
			Host: v.Hosts[rng.Intn(len(v.Hosts))], HostParam: v.HostParams[rng.Intn(len(v.HostParams))], Digis: ds,
			Target: v.Targets[rng.Intn(len(v.Targets))], Params: v.Params[rng.Intn(len(v.Params))]})
	}
	return n
}

func rawEvents(v *Vocab, rng *rand.Rand, w *rec.Writer, count int) int {
	seeds := []string{"ardop:///LA1B", "ax25://mycall@myaxport/LD5SK/LA1B-10", "ax25:///LA1B?host=ax0", "telnet://u:p@host:8772/wl2k",
		"", "://", "ax25://", "ax25:///", "%", "ax25://[::1/x", "ax25://h/%zz", "ax25://h/a%00b", "a\x00b://x/yyy", "ax25:///\xff\xfe\xfd",
		"?host=", "ax25://h/x/y/z/../..", "//LA1B", "ax25:LA1B", "ax25://u:p@/T?host=%", "ax25:///LA1B?%zz=1", "ax25:///LA1B?a=1;b=2"}
	alphabet := []byte("ax25:/?#@%&=+- .\x00\xffLA1B[]\\")
	n := 0
	emit := func(s string) {
		_, pan := parse(s)
		out := "url"
		r, _ := parse(s)
		if r != nil && r["err"] != "none" {
			out = "err"
		}
		if pan != "" {
			out = "panic"
		}
		w.Write(nil, []rec.Event{{"op": "Raw", "outcome": out, "raw": fmt.Sprintf("%q", s)}})
		n++
	}
	for _, s := range seeds {
		emit(s)
	}
	for i := 0; i < count; i++ {
		switch rng.Intn(3) {
		case 0: // random bytes from the alphabet
			b := make([]byte, rng.Intn(24))
			for j := range b {
				b[j] = alphabet[rng.Intn(len(alphabet))]
			}
			emit(string(b))
		case 1: // mutated seed
			b := []byte(seeds[rng.Intn(len(seeds))])
			for m := rng.Intn(4); m >= 0 && len(b) > 0; m-- {
				switch p := rng.Intn(len(b)); rng.Intn(3) {
				case 0:
					b[p] = alphabet[rng.Intn(len(alphabet))]
				case 1:
					b = append(b[:p], b[p+1:]...)
				default:
					b = append(b[:p], append([]byte{alphabet[rng.Intn(len(alphabet))]}, b[p:]...)...)
				}
			}
			emit(string(b))
		default: // arbitrary bytes
			b := make([]byte, rng.Intn(16))
			rng.Read(b)
			emit(string(b))
		}
	}
	return n
}

// ---- concurrent registry histories

type recDialer struct {
	id  int
	got *[]int
	mu  *sync.Mutex
}

func (d recDialer) DialURL(u *transport.URL) (net.Conn, error) {
	d.mu.Lock()
	*d.got = append(*d.got, d.id)
	d.mu.Unlock()
	return nil, fmt.Errorf("dialer %d", d.id)
}

var schemes = []string{"va", "Va", "vb"} // scheme names are compared as they are: "va" and "Va" are two schemes

func concurrentHistory(rng *rand.Rand, procs, opsPer int, hot bool) []rec.Event {
	for _, s := range schemes {
		transport.UnregisterDialer(s)
	}
	var mu sync.Mutex // the recorder lock: events are appended in a real happens-before order
	var evs []rec.Event
	nextID := 0
	var wg sync.WaitGroup
	type op struct {
		call string
		s    string
		d    int
	}
	plans := make([][]op, procs)
	for p := range plans {
		for i := 0; i < opsPer; i++ {
			s := schemes[rng.Intn(len(schemes))]
			if hot {
				s = schemes[0]
			}
			var o op
			switch k := rng.Intn(10); {
			case k < 3:
				nextID++
				o = op{"Register", s, (nextID-1)%64 + 1}
			case k < 5:
				o = op{"Unregister", s, 0}
			default:
				o = op{"Dial", s, 0}
			}
			if hot && p == 0 { // one process toggles registration as fast as it can
				if i%2 == 0 {
					nextID++
					o = op{"Register", s, (nextID-1)%64 + 1}
				} else {
					o = op{"Unregister", s, 0}
				}
			}
			plans[p] = append(plans[p], o)
		}
	}
	start := make(chan struct{})
	for p := 0; p < procs; p++ {
		wg.Add(1)
		go func(p int) {
			defer wg.Done()
			<-start
			for _, o := range plans[p] {
				mu.Lock()
				evs = append(evs, rec.Event{"op": "Call", "p": p + 1, "call": o.call, "s": o.s, "d": o.d})
				mu.Unlock()
				got := 0
				func() {
					defer func() {
						if r := recover(); r != nil {
							got = -2
						}
					}()
					switch o.call {
					case "Register":
						transport.RegisterDialer(o.s, recDialer{id: o.d, got: new([]int), mu: new(sync.Mutex)})
					case "Unregister":
						transport.UnregisterDialer(o.s)
					case "Dial":
						var calls []int
						var cm sync.Mutex
						_ = calls
						_, err := transport.DialURL(&transport.URL{Scheme: o.s, Target: "LA1B"})
						switch {
						case err == transport.ErrMissingDialer:
							got = 0
						case err != nil && strings.HasPrefix(err.Error(), "dialer "):
							fmt.Sscanf(err.Error(), "dialer %d", &got)
						default:
							got = -1
						}
						_ = cm
					}
				}()
				mu.Lock()
				evs = append(evs, rec.Event{"op": "Ret", "p": p + 1, "got": got})
				mu.Unlock()
			}
		}(p)
	}
	close(start)
	wg.Wait()
	for _, s := range schemes {
		transport.UnregisterDialer(s)
	}
	return evs
}

// blockDialer blocks until released; fwdDialer forwards the call to another scheme through the registry.
type blockDialer struct{ release chan struct{} }

func (d blockDialer) DialURL(u *transport.URL) (net.Conn, error) {
	<-d.release
	return nil, fmt.Errorf("released")
}

type fwdDialer struct{ to string }

func (d fwdDialer) DialURL(u *transport.URL) (net.Conn, error) {
	return transport.DialURL(&transport.URL{Scheme: d.to, Target: u.Target})
}

// progressEvent: while one dial is in progress (its dialer blocks), other register / unregister / dial calls complete, and
// a dialer may itself dial another scheme through the registry.
func progressEvent() rec.Event {
	for _, s := range []string{"pa", "pb", "pc", "pd"} {
		transport.UnregisterDialer(s)
	}
	rel := make(chan struct{})
	transport.RegisterDialer("pb", blockDialer{rel})
	blocked := make(chan struct{})
	go func() { transport.DialURL(&transport.URL{Scheme: "pb", Target: "LA1B"}); close(blocked) }()
	time.Sleep(50 * time.Millisecond)
	returned := make(chan bool, 1)
	go func() {
		ok := true
		transport.RegisterDialer("pa", recDialer{id: 7, got: new([]int), mu: new(sync.Mutex)})
		_, err := transport.DialURL(&transport.URL{Scheme: "pa", Target: "LA1B"})
		ok = ok && err != nil && err.Error() == "dialer 7"
		transport.UnregisterDialer("pa")
		_, err = transport.DialURL(&transport.URL{Scheme: "pa", Target: "LA1B"})
		ok = ok && err == transport.ErrMissingDialer
		returned <- ok
	}()
	ev := rec.Event{"op": "Progress", "returned": false, "forward": false}
	select {
	case ok := <-returned:
		ev["returned"] = ok
	case <-time.After(3 * time.Second):
	}
	fwd := make(chan bool, 1)
	go func() {
		transport.RegisterDialer("pc", recDialer{id: 9, got: new([]int), mu: new(sync.Mutex)})
		transport.RegisterDialer("pd", fwdDialer{"pc"})
		_, err := transport.DialURL(&transport.URL{Scheme: "pd", Target: "LA1B"})
		fwd <- err != nil && err.Error() == "dialer 9"
	}()
	select {
	case ok := <-fwd:
		ev["forward"] = ok
	case <-time.After(3 * time.Second):
	}
	close(rel)
	select {
	case <-blocked:
	case <-time.After(3 * time.Second):
	}
	return ev
}

func Main(args []string) int {
	fs := flag.NewFlagSet("url", flag.ExitOnError)
	vocab := fs.String("vocab", "", "vocabulary json")
	out := fs.String("out", "", "trace ndjson")
	mode := fs.String("mode", "parse", "parse | conc")
	sample := fs.Int("sample", 2000, "sampled tuples")
	raw := fs.Int("raw", 3000, "raw strings")
	hist := fs.Int("hist", 100, "concurrent histories")
	fs.Parse(args)
	var v Vocab
	b, err := os.ReadFile(*vocab)
	if err == nil {
		err = json.Unmarshal(b, &v)
	}
	if err != nil {
		fmt.Fprintln(os.Stderr, err)
		return 2
	}
	w, err := rec.NewWriter(*out)
	if err != nil {
		fmt.Fprintln(os.Stderr, err)
		return 2
	}
	defer w.Close()
	rng := rand.New(rand.NewSource(rec.Seed()))
	stats := map[string]int{}
	if *mode == "parse" {
		stats["parse"] = parseEvents(&v, rng, w, *sample)
		stats["raw"] = rawEvents(&v, rng, w, *raw)
	} else {
		for i := 0; i < *hist; i++ {
			procs := 2 + rng.Intn(3)
			hot := i%2 == 1
			ops := 3 + rng.Intn(4)
			if hot {
				ops = 40
			}
			evs := concurrentHistory(rng, procs, ops, hot)
			w.Write(map[string]interface{}{"procs": procs, "hot": hot}, evs)
			stats["conc_events"] += len(evs)
		}
		w.Write(map[string]interface{}{"procs": 0, "hot": false}, []rec.Event{progressEvent()})
		stats["conc"] = *hist
	}
	stats["traces"] = w.Count()
	keys := make([]string, 0)
	for k := range stats {
		keys = append(keys, k)
	}
	sort.Strings(keys)
	jb, _ := json.Marshal(stats)
	fmt.Println(string(jb))
	return 0
}
