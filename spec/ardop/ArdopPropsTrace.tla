--------------------------- MODULE ArdopPropsTrace ---------------------------
(* C14 monitor on real executions of transport/ardop against the simulated     *)
(* ARDOP TNC (CRC-protected serial host interface, and TCP): byte streams per   *)
(* connection, lexed host frames, required exchanges, API call/return records.  *)
EXTENDS Naturals, FiniteSets, TraceLib
VARIABLE dummy
TraceInit == TraceInitTL /\ dummy = 0

TApi == IsEvent("Api") /\ Ev.ok /\ Ev.panic = "" /\ UNCHANGED dummy /\ Consume
(* ReadIsConcatenation: exactly the concatenated ARQ payloads, in order; FEC / IDF / ERR frames are not delivered *)
TReads == IsEvent("Reads") /\ Ev.match /\ ~Ev.foreign /\ Ev.panic = "" /\ UNCHANGED dummy /\ Consume
(* TncReceivesWellFormed + WritePayloadsConcat: prefix, big-endian length, CRC-16; payloads concatenate to the accepted writes *)
TTncData == IsEvent("TncData") /\ Ev.wellformed /\ Ev.payloadOK /\ UNCHANGED dummy /\ Consume
(* RetransmitOnCrcFault: a CRCFAULT is followed by a byte-identical retransmission *)
TRetransmit == IsEvent("Retransmit") /\ Ev.identical /\ UNCHANGED dummy /\ Consume
(* PTTInOrder *)
TPtt == IsEvent("Ptt") /\ Ev.inOrder /\ UNCHANGED dummy /\ Consume
(* dialling and closing perform ARQCALL and DISCONNECT *)
TExchange == IsEvent("Exchange") /\ Ev.seen /\ UNCHANGED dummy /\ Consume
TMalformed == IsEvent("Malformed") /\ ~Ev.crashed /\ ~Ev.hung /\ UNCHANGED dummy /\ Consume
TCrash == IsEvent("Crash") /\ FALSE
(* FlushAfterBufferZero on the TNC side event log (one clock): whenever Flush has returned, the TNC had sent a BUFFER 0   *)
(* report after the last data frame it accepted before that return (a BUFFER 0 that crossed a data frame on the line is   *)
(* not a report about that frame); and every CRCFAULT is followed by another arrival of a data frame.                    *)
FlushSound(log) == \A i \in 1..Len(log) : log[i].k = "flushRet" =>
                      \E j \in 1..(i - 1) : /\ log[j].k = "buf" /\ log[j].v = 0
                                            /\ \A d \in 1..(i - 1) : log[d].k = "data" => d < j
FaultsRetried(log) == \A i \in 1..Len(log) : log[i].k = "fault" =>
                      (\E j \in (i + 1)..Len(log) : log[j].k \in {"data", "fault"}) \/ Cardinality({f \in 1..i : log[f].k = "fault"}) >= 3
(* Close disconnects: when Close has returned, the TNC had reported the end of the ARQ session (NEWSTATE DISC /      *)
(* DISCONNECTED; "disc" in the log) - an echo of the DISCONNECT command alone is not the end of the session          *)
CloseAfterDisc(log) == \A i \in 1..Len(log) : log[i].k = "closeRet" => \E j \in 1..(i - 1) : log[j].k = "disc"
TCloseLog == IsEvent("CloseLog") /\ CloseAfterDisc(Ev.log) /\ UNCHANGED dummy /\ Consume
(* receivers the library evicted for not taking a control message within 500 ms (its own debug log) *)
TStarved == IsEvent("Starved") /\ UNCHANGED dummy /\ Consume
TTncLog == IsEvent("TncLog") /\ FlushSound(Ev.log) /\ UNCHANGED dummy /\ Consume
TTncFaults == IsEvent("TncFaults") /\ FaultsRetried(Ev.log) /\ UNCHANGED dummy /\ Consume

TraceNext == TApi \/ TReads \/ TTncData \/ TRetransmit \/ TPtt \/ TExchange \/ TMalformed \/ TCrash \/ TStarved \/ TTncLog \/ TTncFaults \/ TCloseLog
TraceSpec == TraceInit /\ [][TraceNext]_<<dummy, tvars>>
=============================================================================
