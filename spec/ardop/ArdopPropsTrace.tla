--------------------------- MODULE ArdopPropsTrace ---------------------------
(* C14 monitor on real executions of transport/ardop against the simulated     *)
(* ARDOP TNC (CRC-protected serial host interface, and TCP): byte streams per   *)
(* connection, lexed host frames, required exchanges, API call/return records.  *)
EXTENDS Naturals, TraceLib
VARIABLE dummy
TraceInit == TraceInitTL /\ dummy = 0

TApi == IsEvent("Api") /\ Ev.ok /\ Ev.panic = "" /\ UNCHANGED dummy /\ Consume
(* ReadIsConcatenation: exactly the concatenated ARQ payloads, in order; FEC / IDF / ERR frames are not delivered *)
TReads == IsEvent("Reads") /\ Ev.match /\ ~Ev.foreign /\ Ev.panic = "" /\ UNCHANGED dummy /\ Consume
(* TncReceivesWellFormed + WritePayloadsConcat: prefix, big-endian length, CRC-16; payloads concatenate to the accepted writes *)
TTncData == IsEvent("TncData") /\ Ev.wellformed /\ Ev.payloadOK /\ UNCHANGED dummy /\ Consume
(* RetransmitOnCrcFault: a CRCFAULT is followed by a byte-identical retransmission *)
TRetransmit == IsEvent("Retransmit") /\ Ev.identical /\ UNCHANGED dummy /\ Consume
(* PTTInOrder *)
TPtt == IsEvent("Ptt") /\ Ev.inOrder /\ UNCHANGED dummy /\ Consume
(* dialling and closing perform ARQCALL and DISCONNECT *)
TExchange == IsEvent("Exchange") /\ Ev.seen /\ UNCHANGED dummy /\ Consume
TMalformed == IsEvent("Malformed") /\ ~Ev.crashed /\ ~Ev.hung /\ UNCHANGED dummy /\ Consume
TCrash == IsEvent("Crash") /\ FALSE

TraceNext == TApi \/ TReads \/ TTncData \/ TRetransmit \/ TPtt \/ TExchange \/ TMalformed \/ TCrash
TraceSpec == TraceInit /\ [][TraceNext]_<<dummy, tvars>>
=============================================================================
