SPECIFICATION Spec
CONSTANTS NWrites = 2 MaxFaults = 1 ProgressReports = 0 LockOnlyIfPositive = FALSE
INVARIANTS RetransmitOnCrcFault
CHECK_DEADLOCK FALSE
