SPECIFICATION TraceSpec
CONSTANTS NWrites = 20 MaxFaults = 100 ProgressReports = 1000 LockOnlyIfPositive = FALSE
POSTCONDITION TraceAccepted
CHECK_DEADLOCK FALSE
