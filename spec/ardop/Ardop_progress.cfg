SPECIFICATION Spec
CONSTANTS NWrites = 2 MaxFaults = 0 ProgressReports = 1 LockOnlyIfPositive = FALSE
INVARIANTS FlushAfterBufferZero
CHECK_DEADLOCK FALSE
