SPECIFICATION Spec
CONSTANTS NWrites = 2 MaxFaults = 0 ProgressReports = 0 LockOnlyIfPositive = FALSE
INVARIANTS NoAcceptedWriteLost RetransmitOnCrcFault FlushAfterBufferZero AtMostThreeAttempts
CHECK_DEADLOCK FALSE
