SPECIFICATION Spec
CONSTANTS NWrites = 2 MaxFaults = 0 ProgressReports = 0 LockOnlyIfPositive = TRUE
INVARIANTS FlushAfterBufferZero
CHECK_DEADLOCK FALSE
