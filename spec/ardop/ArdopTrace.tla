------------------------------ MODULE ArdopTrace ------------------------------
(* Mechanism trace validation of Ardop.tla: the transmit side of real          *)
(* executions of transport/ardop against the simulated TNC.  The TNC side      *)
(* event log (one clock, one process; ArdopPropsTrace.tla judges C14 on it)    *)
(* gives, in order:                                                            *)
(*   writeCall / writeRet ok   the application's Write call and its return     *)
(*   data / fault              a data frame arrived at the TNC and was         *)
(*                             accepted / answered with CRCFAULT               *)
(*   buf v                     the TNC sends BUFFER v                           *)
(*   flushCall / flushRet      the application's Flush                          *)
(* What the library does in between - handing the frame to the line, the       *)
(* control loop processing a message and broadcasting it, Write's listener      *)
(* taking it, taking the flush lock - is inferred by TLC as silent steps.       *)
(* The first BUFFER v > 0 after an accepted frame is the TNC's report for that  *)
(* frame (TncAccept), further ones are progress reports, BUFFER 0 is the        *)
(* drained report (or an idle repetition).                                      *)
EXTENDS Ardop, TraceLib

VARIABLE owed          \* accepted frames whose first BUFFER report has not been sent yet
tv == <<owed>>

TraceInit == /\ TraceInitTL /\ Init /\ nw = Traces[t].nw /\ owed = 0

(* the TNC accepts a frame: in the model the acceptance and its BUFFER report are one step; here the frame's arrival *)
(* is noted and the step is taken when the report is sent                                                           *)
TData  == IsEvent("data") /\ Len(toTnc) > owed /\ owed' = owed + 1 /\ UNCHANGED vars /\ Consume
TFault == IsEvent("fault") /\ owed = 0 /\ TncFault /\ UNCHANGED tv /\ Consume
TBuf   == /\ IsEvent("buf")
          /\ IF Ev.v > 0
               THEN IF owed > 0 THEN TncAccept /\ owed' = owed - 1 ELSE TncProgress /\ UNCHANGED tv
               ELSE (TncDrained \/ TncIdleZero) /\ UNCHANGED tv
          /\ Consume
TWriteCall == /\ IsEvent("writeCall")
              /\ IF wr = 1 /\ pc = "write" /\ attempt = 0 THEN UNCHANGED vars ELSE NextWrite
              /\ UNCHANGED tv /\ Consume
TWriteRet  == /\ IsEvent("writeRet")
              /\ IF Ev.v > 0 THEN TakeLock ELSE GiveUp            \* (n, nil) / an error after three CRCFAULTs
              /\ UNCHANGED tv /\ Consume
TFlushCall == IsEvent("flushCall") /\ StartFlush /\ UNCHANGED tv /\ Consume
TFlushRet  == IsEvent("flushRet") /\ FlushReturns /\ UNCHANGED tv /\ Consume
TQuiet     == (Send \/ Await \/ Ctrl) /\ UNCHANGED tv /\ Silent

TraceNext == TData \/ TFault \/ TBuf \/ TWriteCall \/ TWriteRet \/ TFlushCall \/ TFlushRet \/ TQuiet
TraceSpec == TraceInit /\ [][TraceNext]_<<vars, tv, tvars>>
=============================================================================
