SPECIFICATION FairSpec
CONSTANT MaxFaults = 1
PROPERTY FlushEventuallyReturns
CHECK_DEADLOCK FALSE
