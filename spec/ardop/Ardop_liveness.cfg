SPECIFICATION FairSpec
CONSTANTS NWrites = 1 MaxFaults = 1 ProgressReports = 0 LockOnlyIfPositive = FALSE
PROPERTY FlushEventuallyReturns
CHECK_DEADLOCK FALSE
