SPECIFICATION Spec
CONSTANT MaxFaults = 3
INVARIANTS WriteCountHonest RetransmitOnCrcFault FlushAfterBufferZero AtMostThreeAttempts
CHECK_DEADLOCK FALSE
