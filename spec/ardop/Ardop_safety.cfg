SPECIFICATION Spec
CONSTANTS NWrites = 1 MaxFaults = 3 ProgressReports = 1 LockOnlyIfPositive = FALSE
INVARIANTS WriteCountHonest NoAcceptedWriteLost RetransmitOnCrcFault FlushAfterBufferZero AtMostThreeAttempts
CHECK_DEADLOCK FALSE
