-------------------------------- MODULE Ardop --------------------------------
(* Mechanism model of the transmit side of transport/ardop (conn.go, tnc.go):  *)
(* Conn.Write hands a data frame to the TNC and waits, on a listener it opens  *)
(* for this call, for the next BUFFER report (or re-sends on CRCFAULT, three    *)
(* attempts), then takes the flush lock; the control loop processes the TNC's   *)
(* messages in order, releases the flush lock when it sees BUFFER 0 and then    *)
(* broadcasts the message; Flush waits for the lock to be free.                 *)
(*                                                                           *)
(* Processes: App (NWrites calls of Write, then Flush), CtrlLoop, TNC           *)
(* (environment: answers a data frame with CRCFAULT, or accepts it and reports  *)
(* BUFFER n; reports BUFFER 0 when its queue has drained - possibly while the   *)
(* next frame is still on the line, so that the report is about earlier data;   *)
(* optionally reports progress, BUFFER n' > 0, while it transmits).             *)
(*                                                                           *)
(* The host interface used by the library has no acknowledgement that names a   *)
(* frame: Write takes the first BUFFER report it sees as the answer to its own   *)
(* frame.  The configurations separate what follows from that:                  *)
(*   Ardop_safety      one Write, up to 3 CRCFAULTs: all invariants hold.        *)
(*   Ardop_twowrites   two Writes, no faults: Flush still waits for a BUFFER 0   *)
(*                     sent after the last frame was accepted.                   *)
(*   Ardop_lockpositive  named deviation LockOnlyIfPositive (do not take the     *)
(*                     lock when released by BUFFER 0): FlushAfterBufferZero     *)
(*                     fails - a BUFFER 0 about the first frame releases the     *)
(*                     second Write and Flush returns at once.                   *)
(*   Ardop_stalefault  two Writes, one CRCFAULT: NoAcceptedWriteLost fails in    *)
(*                     the mechanism as implemented (finding: a report about     *)
(*                     earlier data releases Write, the CRCFAULT for its own     *)
(*                     frame arrives afterwards and nobody re-sends).            *)
(*   Ardop_progress    two Writes, one progress report: FlushAfterBufferZero     *)
(*                     fails (observation: progress report releases the second   *)
(*                     Write, the BUFFER 0 about the first frame frees the lock). *)
(*   Ardop_liveness    observation: a schedule on which Flush never returns.     *)
EXTENDS Naturals, Sequences, FiniteSets, TLC

CONSTANTS NWrites,              \* at most this many calls of Write before Flush (every count 1..NWrites is explored)
          MaxFaults,            \* CRCFAULT answers the TNC may give
          ProgressReports,      \* extra BUFFER n > 0 reports the TNC may send while data is queued
          LockOnlyIfPositive    \* named deviation

VARIABLES nw,          \* calls of Write the application makes before Flush (chosen initially, constant afterwards)
          pc,          \* App: "write", "await", "lock", "written", "flushing", "flushed", "failed"
          wr,          \* number of the Write call in progress (its frame carries this number)
          attempt,     \* transmissions of the current frame so far
          rel,         \* kind of the report that released the current Write
          returned,    \* Write calls that returned (n, nil)
          toTnc,       \* frames on the line to the TNC, in order
          tncGot,      \* frames the TNC accepted
          lost,        \* frames the TNC answered with CRCFAULT and has not accepted since
          faults,      \* CRCFAULTs given
          q,           \* accepted frames the TNC has not yet reported as drained
          extra,       \* progress reports sent
          fromTnc,     \* control messages on the line to the host, in order: [k, got]
          inbox,       \* messages broadcast to the current Write's listener
          locked,      \* flush lock
          zeroGot,     \* the largest "got" of a BUFFER 0 the control loop has processed
          idle         \* BUFFER 0 reports the TNC has repeated while its queue was empty

vars == <<nw, idle, pc, wr, attempt, rel, returned, toTnc, tncGot, lost, faults, q, extra, fromTnc, inbox, locked, zeroGot>>
app  == <<nw, pc, wr, attempt, rel, returned>>
tnc  == <<tncGot, lost, faults, q, extra, idle>>

Msg(k) == [k |-> k, got |-> Cardinality(tncGot)]

Init == /\ nw \in 1..NWrites /\ idle = 0
        /\ pc = "write" /\ wr = 1 /\ attempt = 0 /\ rel = "" /\ returned = {}
        /\ toTnc = <<>> /\ tncGot = {} /\ lost = {} /\ faults = 0 /\ q = 0 /\ extra = 0
        /\ fromTnc = <<>> /\ inbox = <<>> /\ locked = FALSE /\ zeroGot = 0

(* App: send the frame (first time or after CRCFAULT) *)
Send == /\ pc = "write" /\ attempt < 3
        /\ toTnc' = Append(toTnc, wr) /\ attempt' = attempt + 1 /\ pc' = "await"
        /\ UNCHANGED <<nw, wr, rel, returned, tnc, fromTnc, inbox, locked, zeroGot>>
GiveUp == /\ pc = "write" /\ attempt = 3 /\ pc' = "failed"
          /\ UNCHANGED <<nw, wr, attempt, rel, returned, toTnc, tnc, fromTnc, inbox, locked, zeroGot>>

(* App: a broadcast message arrives at Write's listener *)
Await == /\ pc = "await" /\ inbox # <<>>
         /\ inbox' = Tail(inbox)
         /\ LET m == Head(inbox) IN
            /\ pc' = CASE m.k = "CRCFAULT" -> "write"
                       [] m.k \in {"BUFFER", "BUFFER0"} -> "lock"     \* any BUFFER report is taken as: the frame was accepted
                       [] OTHER -> "await"
            /\ rel' = m.k
         /\ UNCHANGED <<nw, wr, attempt, returned, toTnc, tnc, fromTnc, locked, zeroGot>>
TakeLock == /\ pc = "lock"
            /\ locked' = IF LockOnlyIfPositive /\ rel = "BUFFER0" THEN locked ELSE TRUE
            /\ returned' = returned \cup {wr} /\ pc' = "written"
            /\ UNCHANGED <<nw, wr, attempt, rel, toTnc, tnc, fromTnc, inbox, zeroGot>>
(* the next Write opens a new listener: earlier broadcasts are not seen *)
NextWrite == /\ pc = "written" /\ wr < nw
             /\ wr' = wr + 1 /\ attempt' = 0 /\ inbox' = <<>> /\ pc' = "write"
             /\ UNCHANGED <<nw, rel, returned, toTnc, tnc, fromTnc, locked, zeroGot>>
StartFlush == /\ pc = "written" /\ wr = nw /\ pc' = "flushing"
              /\ UNCHANGED <<nw, wr, attempt, rel, returned, toTnc, tnc, fromTnc, inbox, locked, zeroGot>>
FlushReturns == /\ pc = "flushing" /\ ~locked /\ pc' = "flushed"
                /\ UNCHANGED <<nw, wr, attempt, rel, returned, toTnc, tnc, fromTnc, inbox, locked, zeroGot>>

(* TNC: a frame arrives; it is faulted or accepted *)
TncFault == /\ toTnc # <<>> /\ faults < MaxFaults
            /\ toTnc' = Tail(toTnc) /\ faults' = faults + 1 /\ lost' = lost \cup {Head(toTnc)}
            /\ fromTnc' = Append(fromTnc, Msg("CRCFAULT"))
            /\ UNCHANGED <<app, tncGot, q, extra, idle, inbox, locked, zeroGot>>
TncAccept == /\ toTnc # <<>>
             /\ toTnc' = Tail(toTnc) /\ tncGot' = tncGot \cup {Head(toTnc)} /\ lost' = lost \ {Head(toTnc)} /\ q' = q + 1
             /\ fromTnc' = Append(fromTnc, [k |-> "BUFFER", got |-> Cardinality(tncGot')])
             /\ UNCHANGED <<app, faults, extra, idle, inbox, locked, zeroGot>>
TncProgress == /\ q > 0 /\ extra < ProgressReports
               /\ extra' = extra + 1 /\ fromTnc' = Append(fromTnc, Msg("BUFFER"))
               /\ UNCHANGED <<app, toTnc, tncGot, lost, faults, q, idle, inbox, locked, zeroGot>>
TncDrained == /\ q > 0
              /\ q' = 0 /\ fromTnc' = Append(fromTnc, Msg("BUFFER0"))
              /\ UNCHANGED <<app, toTnc, tncGot, lost, faults, extra, idle, inbox, locked, zeroGot>>
(* an idle TNC may repeat BUFFER 0 (bounded like the progress reports) *)
TncIdleZero == /\ q = 0 /\ tncGot # {} /\ idle < ProgressReports
               /\ idle' = idle + 1 /\ fromTnc' = Append(fromTnc, Msg("BUFFER0"))
               /\ UNCHANGED <<app, toTnc, tncGot, lost, faults, q, extra, inbox, locked, zeroGot>>

(* Control loop: take the next message; BUFFER 0 releases the flush lock; then broadcast *)
Ctrl == /\ fromTnc # <<>>
        /\ LET m == Head(fromTnc) IN
           /\ locked' = IF m.k = "BUFFER0" THEN FALSE ELSE locked
           /\ zeroGot' = IF m.k = "BUFFER0" /\ m.got > zeroGot THEN m.got ELSE zeroGot
           /\ inbox' = Append(inbox, m)
        /\ fromTnc' = Tail(fromTnc)
        /\ UNCHANGED <<app, toTnc, tnc>>

Next == Send \/ GiveUp \/ Await \/ TakeLock \/ NextWrite \/ StartFlush \/ FlushReturns
        \/ TncFault \/ TncAccept \/ TncProgress \/ TncDrained \/ TncIdleZero \/ Ctrl
Spec == Init /\ [][Next]_vars /\ WF_vars(Next)
FairSpec == Init /\ [][Next]_vars /\ WF_vars(Send) /\ WF_vars(Await) /\ WF_vars(TakeLock) /\ WF_vars(NextWrite) /\ WF_vars(StartFlush)
                 /\ WF_vars(FlushReturns) /\ WF_vars(TncAccept) /\ WF_vars(TncDrained) /\ WF_vars(Ctrl) /\ WF_vars(GiveUp)

InFlight(w) == \E i \in 1..Len(toTnc) : toTnc[i] = w
(* safety of C14 *)
WriteCountHonest == nw = 1 /\ pc \in {"written", "flushing", "flushed"} => 1 \in tncGot  \* (n, nil) only if the TNC has the bytes
NoAcceptedWriteLost == \A w \in returned : w \in tncGot \/ InFlight(w)                       \* generalisation to several writes
RetransmitOnCrcFault == \A w \in lost : InFlight(w) \/ (wr = w /\ pc \in {"await", "write", "failed"})  \* the Write that owns a faulted frame is still retrying
FlushAfterBufferZero == pc = "flushed" => zeroGot = nw      \* a BUFFER 0 sent after the last frame was accepted has been processed
AtMostThreeAttempts == attempt <= 3
(* liveness that the mechanism does NOT have (observation, outside C14's safety wording): if the control loop processes *)
(* BUFFER n and BUFFER 0 before Write takes the lock, nobody releases it                                               *)
FlushEventuallyReturns == (pc = "flushing") ~> (pc = "flushed")
=============================================================================
