-------------------------------- MODULE Ardop --------------------------------
(* Mechanism model of the transmit side of transport/ardop (conn.go, tnc.go):  *)
(* Conn.Write hands a data frame to the TNC and waits for a BUFFER report (or   *)
(* re-sends on CRCFAULT, three attempts), then takes the flush lock; the        *)
(* control loop processes the TNC's messages in order and releases the flush    *)
(* lock when it sees BUFFER 0; Flush waits for the lock to be free.             *)
(*                                                                           *)
(* Processes: App (Write then Flush), CtrlLoop (one message at a time: update   *)
(* the connection's buffer count / flush lock, then broadcast to listeners),    *)
(* TNC (environment: answers a data frame with CRCFAULT, or with BUFFER len     *)
(* followed later by BUFFER 0).                                                 *)
EXTENDS Naturals, Sequences, TLC

CONSTANTS MaxFaults       \* CRCFAULT answers the TNC may give

VARIABLES pc,          \* App: "write", "await", "lock", "written", "flushing", "flushed", "failed"
          attempt,     \* transmissions of the frame so far
          toTnc,       \* frames in flight to the TNC
          tncGot,      \* frames the TNC accepted (not faulted)
          faults,      \* CRCFAULTs given
          fromTnc,     \* control messages in flight to the host, in order
          pending0,    \* the TNC still owes a BUFFER 0
          inbox,       \* messages broadcast to Write's listener, in order
          locked,      \* flush lock
          sawZeroAfterData  \* the control loop processed a BUFFER 0 that the TNC sent after the data arrived

vars == <<pc, attempt, toTnc, tncGot, faults, fromTnc, pending0, inbox, locked, sawZeroAfterData>>

Init == /\ pc = "write" /\ attempt = 0 /\ toTnc = 0 /\ tncGot = 0 /\ faults = 0 /\ fromTnc = <<>> /\ pending0 = FALSE
        /\ inbox = <<>> /\ locked = FALSE /\ sawZeroAfterData = FALSE

(* App: send the frame (first time or after CRCFAULT) *)
Send == /\ pc = "write" /\ attempt < 3
        /\ toTnc' = toTnc + 1 /\ attempt' = attempt + 1 /\ pc' = "await"
        /\ UNCHANGED <<tncGot, faults, fromTnc, pending0, inbox, locked, sawZeroAfterData>>
GiveUp == /\ pc = "write" /\ attempt = 3 /\ pc' = "failed"
          /\ UNCHANGED <<attempt, toTnc, tncGot, faults, fromTnc, pending0, inbox, locked, sawZeroAfterData>>

(* App: a broadcast message arrives at Write's listener *)
Await == /\ pc = "await" /\ inbox # <<>>
         /\ inbox' = Tail(inbox)
         /\ pc' = CASE Head(inbox) = "CRCFAULT" -> "write"
                    [] Head(inbox) \in {"BUFFER", "BUFFER0"} -> "lock"     \* any BUFFER report: the frame was accepted
                    [] OTHER -> "await"
         /\ UNCHANGED <<attempt, toTnc, tncGot, faults, fromTnc, pending0, locked, sawZeroAfterData>>
TakeLock == /\ pc = "lock" /\ locked' = TRUE /\ pc' = "written"
            /\ UNCHANGED <<attempt, toTnc, tncGot, faults, fromTnc, pending0, inbox, sawZeroAfterData>>
StartFlush == /\ pc = "written" /\ pc' = "flushing"
              /\ UNCHANGED <<attempt, toTnc, tncGot, faults, fromTnc, pending0, inbox, locked, sawZeroAfterData>>
FlushReturns == /\ pc = "flushing" /\ ~locked /\ pc' = "flushed"
                /\ UNCHANGED <<attempt, toTnc, tncGot, faults, fromTnc, pending0, inbox, locked, sawZeroAfterData>>

(* TNC: a frame arrives; it is faulted or accepted *)
TncFault == /\ toTnc > 0 /\ faults < MaxFaults
            /\ toTnc' = toTnc - 1 /\ faults' = faults + 1 /\ fromTnc' = Append(fromTnc, "CRCFAULT")
            /\ UNCHANGED <<pc, attempt, tncGot, pending0, inbox, locked, sawZeroAfterData>>
TncAccept == /\ toTnc > 0
             /\ toTnc' = toTnc - 1 /\ tncGot' = tncGot + 1 /\ fromTnc' = Append(fromTnc, "BUFFER") /\ pending0' = TRUE
             /\ UNCHANGED <<pc, attempt, faults, inbox, locked, sawZeroAfterData>>
TncDrained == /\ pending0 /\ toTnc = 0
              /\ fromTnc' = Append(fromTnc, "BUFFER0") /\ pending0' = FALSE
              /\ UNCHANGED <<pc, attempt, toTnc, tncGot, faults, inbox, locked, sawZeroAfterData>>

(* Control loop: take the next message; BUFFER 0 releases the flush lock; then broadcast *)
Ctrl == /\ fromTnc # <<>>
        /\ LET m == Head(fromTnc) IN
           /\ locked' = IF m = "BUFFER0" THEN FALSE ELSE locked
           /\ sawZeroAfterData' = (sawZeroAfterData \/ (m = "BUFFER0" /\ tncGot > 0))
           /\ inbox' = Append(inbox, m)
        /\ fromTnc' = Tail(fromTnc)
        /\ UNCHANGED <<pc, attempt, toTnc, tncGot, faults, pending0>>

Next == Send \/ GiveUp \/ Await \/ TakeLock \/ StartFlush \/ FlushReturns \/ TncFault \/ TncAccept \/ TncDrained \/ Ctrl
Spec == Init /\ [][Next]_vars /\ WF_vars(Next)
FairSpec == Init /\ [][Next]_vars /\ WF_vars(Send) /\ WF_vars(Await) /\ WF_vars(TakeLock) /\ WF_vars(StartFlush) /\ WF_vars(FlushReturns)
                 /\ WF_vars(TncAccept) /\ WF_vars(TncDrained) /\ WF_vars(Ctrl) /\ WF_vars(GiveUp)

(* safety of C14 *)
WriteCountHonest == pc \in {"written", "flushing", "flushed"} => tncGot >= 1     \* (n, nil) only if the TNC has the bytes
RetransmitOnCrcFault == attempt <= faults + 1 \/ pc = "failed"                    \* one transmission per fault, plus the first
FlushAfterBufferZero == pc = "flushed" => sawZeroAfterData
AtMostThreeAttempts == attempt <= 3
(* liveness that the mechanism does NOT have (observation, outside C14's safety wording): if the control loop processes *)
(* BUFFER n and BUFFER 0 before Write takes the lock, nobody releases it                                               *)
FlushEventuallyReturns == (pc = "flushing") ~> (pc = "flushed")
=============================================================================
