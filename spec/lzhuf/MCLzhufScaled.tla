---- MODULE MCLzhufScaled ----
EXTENDS LzhufScaled
ScaledProfile == << <<1, 1>>, <<2, 1>>, <<3, 2>> >>
====
