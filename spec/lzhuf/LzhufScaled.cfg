SPECIFICATION Spec
CONSTANTS N = 8  F = 4  THRESHOLD = 2  NSYM = 2  MAXFREQ = 8  LOWBITS = 1  SPACE = 0  MaxLen = 8
          Profile <- ScaledProfile
INVARIANTS Lossless PrefixCorrect BitsConsumed TreeOrdered
CHECK_DEADLOCK FALSE
