-------------------------------- MODULE Lzhuf --------------------------------
(* An executable specification of the canonical LZHUF format (Okumura /      *)
(* Yoshizaki, as used by FBB and Winlink B2F), written from the published     *)
(* algorithm and docs/F6FBB-B2F - not from lzhuf/*.go.  TLC evaluates it: it  *)
(* is the independent codec of C07 (and the reference of C06 / C08).          *)
(*                                                                           *)
(*   - sliding window of N bytes, initially N-F spaces, write cursor at N-F;  *)
(*   - lookahead F; a match has length THRESHOLD+1..F and distance 1..N;      *)
(*   - symbols: NSYM literals, then one symbol per match length;              *)
(*   - adaptive Huffman code over the NCHAR symbols (FGK style with the       *)
(*     rebuild "reconst" when the root frequency reaches MAXFREQ);            *)
(*   - a match position is sent as a prefix code for its upper bits           *)
(*     (canonical code derived from the length profile Profile) followed by   *)
(*     its LOWBITS low bits verbatim;                                         *)
(*   - bits are packed MSB first, the last byte is zero padded.               *)
(* All of N, F, THRESHOLD, NSYM, MAXFREQ, LOWBITS, Profile are constants, so  *)
(* that a scaled configuration can be checked exhaustively by TLC             *)
(* (Decode(Encode(x)) = x for every x and every encoder choice) while the     *)
(* canonical configuration produces and consumes real streams.                *)
EXTENDS Integers, Sequences, FiniteSets, TLC

CONSTANTS N, F, THRESHOLD, NSYM, MAXFREQ, LOWBITS,
          Profile,      \* sequence of <<code length, number of codes>>, lengths ascending
          SPACE         \* the byte the window is primed with (32)

NCHAR == NSYM - THRESHOLD + F        \* number of symbols
T     == 2 * NCHAR - 1               \* tree nodes
R     == T - 1                       \* root
LOW   == 2 ^ LOWBITS

-----------------------------------------------------------------------------
(* Position prefix code, canonical: codes of each length are consecutive,     *)
(* lengths ascending.  PFirst(i) = first code value of Profile[i],            *)
(* POff(i) = number of upper values coded by shorter lengths.                 *)
RECURSIVE PFirst(_), POff(_)
PFirst(i) == IF i = 1 THEN 0
             ELSE (PFirst(i - 1) + Profile[i - 1][2]) * 2 ^ (Profile[i][1] - Profile[i - 1][1])
POff(i)   == IF i = 1 THEN 0 ELSE POff(i - 1) + Profile[i - 1][2]
NUpper    == POff(Len(Profile)) + Profile[Len(Profile)][2]
ASSUME NUpper * LOW >= N                  \* the code covers the window positions (FBB: the 4096 code with a 2048 window)

(* index of the profile entry that codes upper value u *)
PIndex(u) == CHOOSE i \in 1..Len(Profile) : POff(i) <= u /\ u < POff(i) + Profile[i][2]
PCodeLen(u) == Profile[PIndex(u)][1]
PCodeVal(u) == PFirst(PIndex(u)) + (u - POff(PIndex(u)))

RECURSIVE BitsOf(_, _)
BitsOf(v, n) == IF n = 0 THEN <<>> ELSE Append(BitsOf(v \div 2, n - 1), v % 2)    \* n bits of v, MSB first

-----------------------------------------------------------------------------
(* The adaptive Huffman model: freq 0..T (freq[T] is a sentinel), prnt         *)
(* 0..T+NCHAR-1 (the upper NCHAR entries map symbols to leaves), son 0..T-1.   *)
Sentinel == 65535

StartHuff ==
    LET leafF == [i \in 0..(NCHAR - 1) |-> 1]
        RECURSIVE Sum(_)
        (* frequency of internal node j (NCHAR <= j <= R): sum of its two children 2*(j-NCHAR), +1 *)
        Sum(j) == IF j < NCHAR THEN 1 ELSE Sum(2 * (j - NCHAR)) + Sum(2 * (j - NCHAR) + 1)
    IN [ f |-> [i \in 0..T |-> IF i = T THEN Sentinel ELSE Sum(i)],
         s |-> [i \in 0..(T - 1) |-> IF i < NCHAR THEN i + T ELSE 2 * (i - NCHAR)],
         p |-> [i \in 0..(T + NCHAR - 1) |->
                   IF i >= T THEN i - T                      \* symbol -> its leaf
                   ELSE IF i = R THEN 0
                   ELSE NCHAR + (i \div 2)] ]               \* children 2k, 2k+1 hang under NCHAR + k

(* reconst: halve the leaf frequencies and rebuild the tree *)
RECURSIVE Leaves(_, _), Build(_, _, _, _)
Leaves(s, i) == IF i = T THEN <<>> ELSE (IF s[i] >= T THEN <<i>> ELSE <<>>) \o Leaves(s, i + 1)

(* insert internal node j = parent of (i, i+1) at its sorted position k <= j *)
Build(f, s, i, j) ==
    IF j = T THEN [f |-> f, s |-> s]
    ELSE LET fs == f[i] + f[i + 1]
             RECURSIVE Down(_)
             Down(k) == IF k >= 0 /\ fs < f[k] THEN Down(k - 1) ELSE k + 1
             k == Down(j - 1)
             (* TLCEval: TLC builds functions lazily; without forcing them here every access would re-evaluate the *)
             (* chain of all earlier insertions                                                                   *)
             f2 == TLCEval([m \in DOMAIN f |-> IF m < k \/ m > j THEN f[m] ELSE IF m = k THEN fs ELSE f[m - 1]])
             s2 == TLCEval([m \in DOMAIN s |-> IF m < k \/ m > j THEN s[m] ELSE IF m = k THEN i ELSE s[m - 1]])
         IN Build(f2, s2, i + 2, j + 1)

Reconst(m) ==
    LET lv == Leaves(m.s, 0)
        f1 == TLCEval([i \in 0..T |-> IF i < NCHAR THEN (m.f[lv[i + 1]] + 1) \div 2 ELSE m.f[i]])
        s1 == TLCEval([i \in 0..(T - 1) |-> IF i < NCHAR THEN m.s[lv[i + 1]] ELSE m.s[i]])
        b  == Build(f1, s1, 0, NCHAR)
        (* connect parents *)
        p1 == TLCEval([i \in 0..(T + NCHAR - 1) |->
                  IF i = R THEN 0
                  ELSE LET par == CHOOSE q \in 0..(T - 1) : b.s[q] = i \/ (b.s[q] < T /\ b.s[q] + 1 = i) IN par])
    IN [f |-> b.f, s |-> b.s, p |-> p1]

(* update: increment the frequencies on the path from the symbol's leaf to the root, exchanging nodes to keep the     *)
(* frequency order                                                                                                     *)
RECURSIVE UpdLoop(_, _, _, _), FindL(_, _, _)
FindL(f, k, l) == IF k > f[l + 1] THEN FindL(f, k, l + 1) ELSE l       \* last node whose frequency is below k

UpdLoop(f, p, s, c) ==
    LET k  == f[c] + 1
        f1 == [f EXCEPT ![c] = k]
    IN IF k > f1[c + 1]
         THEN LET l  == FindL(f1, k, c + 1)
                  f2 == [f1 EXCEPT ![c] = f1[l], ![l] = k]
                  i  == s[c]
                  j  == s[l]
                  p1 == IF i < T THEN [p EXCEPT ![i] = l, ![i + 1] = l] ELSE [p EXCEPT ![i] = l]
                  p2 == IF j < T THEN [p1 EXCEPT ![j] = c, ![j + 1] = c] ELSE [p1 EXCEPT ![j] = c]
                  s1 == [s EXCEPT ![l] = i, ![c] = j]
                  nc == p2[l]
              IN IF nc = 0 THEN [f |-> f2, p |-> p2, s |-> s1] ELSE UpdLoop(f2, p2, s1, nc)
         ELSE LET nc == p[c] IN IF nc = 0 THEN [f |-> f1, p |-> p, s |-> s] ELSE UpdLoop(f1, p, s, nc)

Update(m, sym) ==
    LET m1 == IF m.f[R] = MAXFREQ THEN Reconst(m) ELSE m
    IN UpdLoop(m1.f, m1.p, m1.s, m1.p[sym + T])

(* the code of a symbol: bits from the root down to its leaf (odd node index = 1) *)
RECURSIVE CodeUp(_, _, _)
CodeUp(m, k, acc) == LET acc2 == <<k % 2>> \o acc IN IF m.p[k] = R THEN acc2 ELSE CodeUp(m, m.p[k], acc2)
SymCode(m, sym) == CodeUp(m, m.p[sym + T], <<>>)

-----------------------------------------------------------------------------
(* Window semantics in terms of the output produced so far: the byte at distance d (1..N) back from the write cursor  *)
(* when the output is o.  Before the start of the output the window holds N-F spaces, and - as in the original        *)
(* program, whose buffer is zero-initialised - zero bytes in the F positions in front of the cursor.                  *)
WinAt(o, j) == IF j >= 1 THEN o[j] ELSE IF N - F + j - 1 >= 0 THEN SPACE ELSE 0
RECURSIVE CopyMatch(_, _, _)
CopyMatch(o, d, n) == IF n = 0 THEN o ELSE CopyMatch(Append(o, WinAt(o, Len(o) - d + 1)), d, n - 1)   \* may overlap itself

MatchLen(sym) == sym - NSYM + 1 + THRESHOLD          \* symbol NSYM codes length THRESHOLD+1
MatchSym(len) == len + NSYM - 1 - THRESHOLD

-----------------------------------------------------------------------------
(* DECODER: a pure function of (bits, declared size), evaluated step by step.  Bits beyond the end read as zero.      *)
(* A bit source is either a sequence of bits or a sequence of bytes (MSB first), so that long streams need not be      *)
(* unpacked: [packed |-> FALSE, b |-> bits] or [packed |-> TRUE, b |-> bytes].  k is 1-based.                          *)
FromBits(bits)   == [packed |-> FALSE, b |-> bits]
FromBytes(bytes) == [packed |-> TRUE, b |-> bytes]
BitAt(src, k) ==
    IF src.packed
      THEN LET i == (k - 1) \div 8 IN
           IF i + 1 > Len(src.b) THEN 0 ELSE (src.b[i + 1] \div (2 ^ (7 - ((k - 1) % 8)))) % 2
      ELSE IF k <= Len(src.b) THEN src.b[k] ELSE 0

RECURSIVE WalkDown(_, _, _, _)
(* from node c follow input bits to a leaf: returns <<symbol, next bit index>> *)
WalkDown(m, bits, c, k) == IF c >= T THEN <<c - T, k>> ELSE WalkDown(m, bits, m.s[c + BitAt(bits, k)], k + 1)

RECURSIVE ReadPrefix(_, _, _, _)
(* read a position prefix code starting at bit k: returns <<upper value, next bit index>> *)
ReadPrefix(bits, k, v, l) ==
    LET hit == {i \in 1..Len(Profile) : Profile[i][1] = l /\ v >= PFirst(i) /\ v - PFirst(i) < Profile[i][2]}
    IN IF hit # {} THEN LET i == CHOOSE x \in hit : TRUE IN <<POff(i) + v - PFirst(i), k>>
       ELSE ReadPrefix(bits, k + 1, 2 * v + BitAt(bits, k), l + 1)

RECURSIVE ReadBits(_, _, _, _)
ReadBits(bits, k, n, v) == IF n = 0 THEN <<v, k>> ELSE ReadBits(bits, k + 1, n - 1, 2 * v + BitAt(bits, k))

(* one decoding step: state [m, k, o] -> next state *)
DecodeStep(st, bits) ==
    LET w   == WalkDown(st.m, bits, st.m.s[R], st.k)
        sym == w[1]
        m2  == Update(st.m, sym)
    IN IF sym < NSYM
         THEN [m |-> m2, k |-> w[2], o |-> Append(st.o, sym)]
         ELSE LET up  == ReadPrefix(bits, w[2], 0, 0)
                  lo  == ReadBits(bits, up[2], LOWBITS, 0)
                  pos == up[1] * LOW + lo[1]
              IN [m |-> m2, k |-> lo[2], o |-> CopyMatch(st.o, (pos % N) + 1, MatchLen(sym))]   \* the window is a ring of N

DecInit == [m |-> StartHuff, k |-> 1, o |-> <<>>]

RECURSIVE DecodeAll(_, _, _)
(* decode until size bytes have been produced (the canonical program's loop) *)
DecodeAll(st, bits, size) == IF Len(st.o) >= size THEN st ELSE DecodeAll(DecodeStep(st, bits), bits, size)

-----------------------------------------------------------------------------
(* ENCODER: every valid LZHUF coding of an input.  At position i (bytes inp[1..i-1] are coded) emit a literal or any   *)
(* match of length THRESHOLD+1..F whose source bytes (window semantics above, overlap allowed) equal the input.        *)
Matches(inp, i, d, len) ==
    /\ i + len - 1 <= Len(inp)
    /\ LET o == CopyMatch(SubSeq(inp, 1, i - 1), d, len) IN SubSeq(o, i, i + len - 1) = SubSeq(inp, i, i + len - 1)

EncLiteral(st, c) ==   \* st = [m, bits, i]
    [m |-> Update(st.m, c), bits |-> st.bits \o SymCode(st.m, c), i |-> st.i + 1]

EncMatch(st, d, len) ==
    LET sym == MatchSym(len)
        pos == d - 1
        u   == pos \div LOW
    IN [m |-> Update(st.m, sym),
        bits |-> st.bits \o SymCode(st.m, sym) \o BitsOf(PCodeVal(u), PCodeLen(u)) \o BitsOf(pos % LOW, LOWBITS),
        i |-> st.i + len]

EncInit == [m |-> StartHuff, bits |-> <<>>, i |-> 1]

(* bit <-> byte packing *)
RECURSIVE PackBits(_), UnpackBytes(_)
PackBits(b) == IF b = <<>> THEN <<>>
               ELSE LET n == IF Len(b) >= 8 THEN 8 ELSE Len(b)
                        RECURSIVE Val(_, _)
                        Val(q, acc) == IF q = <<>> THEN acc ELSE Val(Tail(q), 2 * acc + Head(q))
                        v == Val(SubSeq(b, 1, n), 0) * 2 ^ (8 - n)
                    IN <<v>> \o PackBits(SubSeq(b, n + 1, Len(b)))
UnpackBytes(bs) == IF bs = <<>> THEN <<>> ELSE BitsOf(Head(bs), 8) \o UnpackBytes(Tail(bs))
=============================================================================
