----------------------------- MODULE LzhufStream -----------------------------
(* The LZHUF codec as a stream object at its public API (C06, C08).           *)
(*                                                                           *)
(* Writer: Write(c) appends c; Close emits Header \o Compress(written); the    *)
(* output is a function of the written bytes only, not of how they were split. *)
(* Reader over a stream that is the canonical coding of `plain` with declared  *)
(* size decl: Read(k) returns between 1 and k further bytes of plain while     *)
(* any remain, then end-of-stream; never more than decl bytes in total; Close  *)
(* succeeds iff the header checks hold and everything was read.                *)
(* Reader over arbitrary bytes (valid = FALSE): every Read makes progress or   *)
(* fails - (0, nil) is not a behaviour -, errors are sticky, never more than   *)
(* the declared size is returned, and Close succeeds only if the CRC and size  *)
(* hold and the bytes read are the canonical decoding (canonOK, computed by    *)
(* Lzhuf.tla for exactly those cases).                                         *)
EXTENDS Integers, Sequences, TLC

VARIABLES
    wlen,       \* bytes written to the Writer
    wclosed,
    valid,      \* the Reader's input is a canonical stream of a known plaintext
    plen,       \* length of that plaintext (valid) / declared size (otherwise; may be negative)
    hdrOK,      \* CRC (if present) and declared size agree with the stream (independent judgement)
    pos,        \* bytes returned by the Reader so far
    rstate,     \* "none", "open", "eof", "failed", "closed"
    zero        \* consecutive (0, nil) reads

vars == <<wlen, wclosed, valid, plen, hdrOK, pos, rstate, zero>>

Init == /\ wlen = 0 /\ wclosed = FALSE /\ valid = FALSE /\ plen = 0 /\ hdrOK = FALSE
        /\ pos = 0 /\ rstate = "none" /\ zero = 0

Write(n) == /\ ~wclosed /\ n >= 0 /\ wlen' = wlen + n
            /\ UNCHANGED <<wclosed, valid, plen, hdrOK, pos, rstate, zero>>

(* same: the compressed bytes equal those of the single-Write reference for the same input *)
WClose(ok, same) == /\ ~wclosed /\ ok /\ same /\ wclosed' = TRUE
                    /\ UNCHANGED <<wlen, valid, plen, hdrOK, pos, rstate, zero>>

Open(v, n, h, err) ==
    /\ rstate = "none"
    /\ v => ~err /\ h                            \* a canonical stream always opens
    /\ valid' = v /\ plen' = n /\ hdrOK' = h
    /\ rstate' = (IF err THEN "failed" ELSE "open") /\ pos' = 0 /\ zero' = 0
    /\ UNCHANGED <<wlen, wclosed>>

(* k = buffer size, n = bytes returned, err \in {"nil","eof","other"}, match = the bytes are the next bytes of the plaintext *)
Read(k, n, err, match) ==
    /\ rstate \in {"open", "eof", "failed"}
    /\ n >= 0 /\ n <= k
    /\ pos + n <= (IF plen < 0 THEN 0 ELSE plen)                 \* never more than the declared size
    /\ rstate = "failed" => n = 0 /\ err = "other"              \* errors are sticky
    /\ rstate = "eof" => n = 0 /\ err = "eof"
    /\ valid => /\ match /\ err # "other"
                /\ pos < plen => n >= 1                          \* progress while data remains
                /\ err = "eof" => pos + n = plen                 \* end-of-stream exactly at the end
                /\ (pos = plen /\ k > 0) => err = "eof"
    /\ ~(n = 0 /\ err = "nil" /\ k > 0 /\ zero >= 1)             \* (0, nil) twice in a row: the Reader spins
    /\ zero' = IF n = 0 /\ err = "nil" THEN zero + 1 ELSE 0
    /\ pos' = pos + n
    /\ rstate' = CASE err = "eof" -> "eof" [] err = "other" -> "failed" [] OTHER -> rstate
    /\ UNCHANGED <<wlen, wclosed, valid, plen, hdrOK>>

(* canonOK: the bytes read are the canonical decoding of the stream (Lzhuf.tla); only consulted when Close = nil *)
Close(err, canonOK) ==
    /\ rstate \in {"open", "eof", "failed"}
    /\ (valid /\ rstate = "eof") => err = "nil"                  \* a fully read canonical stream closes cleanly
    /\ err = "nil" => hdrOK /\ pos = plen /\ canonOK /\ rstate # "failed"
    /\ rstate' = "closed"
    /\ UNCHANGED <<wlen, wclosed, valid, plen, hdrOK, pos, zero>>

AtMostDeclared == pos <= (IF plen < 0 THEN 0 ELSE plen)
=============================================================================
