------------------------------ MODULE LzhufBatch ------------------------------
(* Batch evaluation of the canonical codec by TLC (one behaviour per job):     *)
(*   dec  decode a payload (the bytes after the B2 header) to its declared     *)
(*        size and compare with the expected plaintext;                         *)
(*   enc  code an input along a given parse (sequence of literal / match        *)
(*        tokens chosen by the harness), after checking that every token is a   *)
(*        valid step of the nondeterministic encoder, and emit the bytes.       *)
(* Jobs come from the ndjson file named by the environment variable JOBS.       *)
EXTENDS Lzhuf, Json, IOUtils

Jobs  == ndJsonDeserialize(IOEnv.JOBS)
NJobs == Len(Jobs)

(* Long decodes: the decoder only ever looks back N bytes, so the output is kept as a sliding suffix.  Whenever it has   *)
(* grown to KEEP + SLACK bytes, all but the last KEEP (>= N + F) are compared with the expected plaintext and dropped;    *)
(* base counts the dropped bytes, ok says that every dropped byte was the expected one.  (Before the first drop the       *)
(* output is complete, so the initial-window rule of WinAt, which depends on absolute positions, is unaffected; after it  *)
(* more than N bytes precede the cursor and the rule can no longer apply.)  This makes a decode linear in its length.     *)
KEEP  == 4096
SLACK == 4096
ASSUME KEEP >= N + F

VARIABLES j, dst, base, ok, est, tk, fin
vars == <<j, dst, base, ok, est, tk, fin>>

Init == /\ j \in 1..NJobs /\ dst = DecInit /\ base = 0 /\ ok = TRUE /\ est = EncInit /\ tk = 1 /\ fin = FALSE

Bits(job) == FromBytes(job.payload)
OutLen == base + Len(dst.o)

DecStep ==
    /\ ~fin /\ Jobs[j].kind = "dec"
    /\ OutLen < Jobs[j].size /\ OutLen < Jobs[j].limit
    /\ LET nd == DecodeStep(dst, Bits(Jobs[j])) IN
       IF Len(nd.o) >= KEEP + SLACK
         THEN LET drop == Len(nd.o) - KEEP
                  exp  == Jobs[j].expect
              IN /\ ok' = (ok /\ base + drop <= Len(exp) /\ SubSeq(nd.o, 1, drop) = SubSeq(exp, base + 1, base + drop))
                 /\ dst' = [nd EXCEPT !.o = SubSeq(nd.o, drop + 1, Len(nd.o))]
                 /\ base' = base + drop
         ELSE dst' = nd /\ UNCHANGED <<base, ok>>
    /\ UNCHANGED <<j, est, tk, fin>>

DecDone ==
    /\ ~fin /\ Jobs[j].kind = "dec"
    /\ ~(OutLen < Jobs[j].size /\ OutLen < Jobs[j].limit)
    /\ fin' = TRUE /\ UNCHANGED <<j, dst, base, ok, est, tk>>

Tok(job, n) == job.tokens[n]      \* <<0, c>> literal c | <<1, d, len>> match

EncStep ==
    /\ ~fin /\ Jobs[j].kind = "enc" /\ tk <= Len(Jobs[j].tokens)
    /\ LET t == Tok(Jobs[j], tk) inp == Jobs[j].input IN
       IF t[1] = 0
         THEN /\ est.i <= Len(inp) /\ inp[est.i] = t[2]               \* a literal must be the next input byte
              /\ est' = EncLiteral(est, t[2])
         ELSE /\ t[3] \in (THRESHOLD + 1)..F /\ t[2] \in 1..N
              /\ Matches(inp, est.i, t[2], t[3])                       \* the match must reproduce the input
              /\ est' = EncMatch(est, t[2], t[3])
    /\ tk' = tk + 1 /\ UNCHANGED <<j, dst, base, ok, fin>>

EncDone ==
    /\ ~fin /\ Jobs[j].kind = "enc" /\ tk > Len(Jobs[j].tokens)
    /\ fin' = TRUE /\ UNCHANGED <<j, dst, base, ok, est, tk>>

Next == DecStep \/ DecDone \/ EncStep \/ EncDone
Spec == Init /\ [][Next]_vars

(* results, one line per finished job *)
Emit ==
    fin => IF Jobs[j].kind = "dec"
             THEN PrintT(ToJson([result |-> Jobs[j].id,
                                 equal  |-> (/\ ok /\ OutLen = Len(Jobs[j].expect)
                                             /\ dst.o = SubSeq(Jobs[j].expect, base + 1, Len(Jobs[j].expect))),
                                 outlen |-> OutLen,
                                 bits   |-> dst.k - 1,
                                 nbits  |-> 8 * Len(Jobs[j].payload)]))
             ELSE PrintT(ToJson([result |-> Jobs[j].id,
                                 complete |-> (est.i = Len(Jobs[j].input) + 1),
                                 bytes  |-> PackBits(est.bits)]))
=============================================================================
