------------------------------ MODULE LzhufBatch ------------------------------
(* Batch evaluation of the canonical codec by TLC (one behaviour per job):     *)
(*   dec  decode a payload (the bytes after the B2 header) to its declared     *)
(*        size and compare with the expected plaintext;                         *)
(*   enc  code an input along a given parse (sequence of literal / match        *)
(*        tokens chosen by the harness), after checking that every token is a   *)
(*        valid step of the nondeterministic encoder, and emit the bytes.       *)
(* Jobs come from the ndjson file named by the environment variable JOBS.       *)
EXTENDS Lzhuf, Json, IOUtils

Jobs  == ndJsonDeserialize(IOEnv.JOBS)
NJobs == Len(Jobs)

VARIABLES j, dst, est, tk, fin
vars == <<j, dst, est, tk, fin>>

Init == /\ j \in 1..NJobs /\ dst = DecInit /\ est = EncInit /\ tk = 1 /\ fin = FALSE

Bits(job) == FromBytes(job.payload)

DecStep ==
    /\ ~fin /\ Jobs[j].kind = "dec"
    /\ Len(dst.o) < Jobs[j].size /\ Len(dst.o) < Jobs[j].limit
    /\ dst' = DecodeStep(dst, Bits(Jobs[j]))
    /\ UNCHANGED <<j, est, tk, fin>>

DecDone ==
    /\ ~fin /\ Jobs[j].kind = "dec"
    /\ ~(Len(dst.o) < Jobs[j].size /\ Len(dst.o) < Jobs[j].limit)
    /\ fin' = TRUE /\ UNCHANGED <<j, dst, est, tk>>

Tok(job, n) == job.tokens[n]      \* <<0, c>> literal c | <<1, d, len>> match

EncStep ==
    /\ ~fin /\ Jobs[j].kind = "enc" /\ tk <= Len(Jobs[j].tokens)
    /\ LET t == Tok(Jobs[j], tk) inp == Jobs[j].input IN
       IF t[1] = 0
         THEN /\ est.i <= Len(inp) /\ inp[est.i] = t[2]               \* a literal must be the next input byte
              /\ est' = EncLiteral(est, t[2])
         ELSE /\ t[3] \in (THRESHOLD + 1)..F /\ t[2] \in 1..N
              /\ Matches(inp, est.i, t[2], t[3])                       \* the match must reproduce the input
              /\ est' = EncMatch(est, t[2], t[3])
    /\ tk' = tk + 1 /\ UNCHANGED <<j, dst, fin>>

EncDone ==
    /\ ~fin /\ Jobs[j].kind = "enc" /\ tk > Len(Jobs[j].tokens)
    /\ fin' = TRUE /\ UNCHANGED <<j, dst, est, tk>>

Next == DecStep \/ DecDone \/ EncStep \/ EncDone
Spec == Init /\ [][Next]_vars

(* results, one line per finished job *)
Emit ==
    fin => IF Jobs[j].kind = "dec"
             THEN PrintT(ToJson([result |-> Jobs[j].id,
                                 equal  |-> (dst.o = Jobs[j].expect),
                                 outlen |-> Len(dst.o),
                                 bits   |-> dst.k - 1,
                                 nbits  |-> 8 * Len(Jobs[j].payload)]))
             ELSE PrintT(ToJson([result |-> Jobs[j].id,
                                 complete |-> (est.i = Len(Jobs[j].input) + 1),
                                 bytes  |-> PackBits(est.bits)]))
=============================================================================
