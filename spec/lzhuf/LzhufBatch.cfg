SPECIFICATION Spec
CONSTANTS N = 2048  F = 60  THRESHOLD = 2  NSYM = 256  MAXFREQ = 32768  LOWBITS = 6  SPACE = 32
          Profile <- CanonProfile
INVARIANT Emit
CHECK_DEADLOCK FALSE
