--------------------------- MODULE LzhufStreamTrace ---------------------------
EXTENDS LzhufStream, TraceLib
TraceInit == TraceInitTL /\ Init
TWrite  == IsEvent("Write") /\ Write(Ev.n) /\ Consume
TWClose == IsEvent("WClose") /\ WClose(Ev.ok, Ev.same) /\ Consume
TOpen   == IsEvent("Open") /\ Open(Ev.valid, Ev.plen, Ev.hdrOK, Ev.err) /\ Consume
TRead   == IsEvent("Read") /\ Read(Ev.k, Ev.n, Ev.err, Ev.match) /\ Consume
TClose  == IsEvent("Close") /\ Close(Ev.err, Ev.canonOK) /\ Consume
(* Panic, Spin (read budget exhausted) and Hang events match no action *)
TraceNext == TWrite \/ TWClose \/ TOpen \/ TRead \/ TClose
TraceSpec == TraceInit /\ [][TraceNext]_<<vars, tvars>>
=============================================================================
