--------------------------- MODULE LzhufStreamTrace ---------------------------
EXTENDS LzhufStream, TraceLib
TraceInit == TraceInitTL /\ Init
TWrite  == IsEvent("Write") /\ Write(Ev.n) /\ Consume
TWClose == IsEvent("WClose") /\ WClose(Ev.ok, Ev.same) /\ Consume
TOpen   == IsEvent("Open") /\ Open(Ev.valid, Ev.plen, Ev.hdrOK, Ev.err) /\ Consume
TRead   == IsEvent("Read") /\ Read(Ev.k, Ev.n, Ev.err, Ev.match) /\ Consume
TClose  == IsEvent("Close") /\ Close(Ev.err, Ev.canonOK) /\ Consume
(* Panic, Spin (read budget exhausted) and Hang events match no action *)
(* C07: the reference codec (Lzhuf.tla evaluated by TLC) decoded a stream the library produced: its output must be   *)
(* the input, it must have used the stream's bits up to the padding, and the B2 header must be as specified          *)
TRefDecode == IsEvent("RefDecode") /\ Ev.equal /\ Ev.padOK /\ Ev.hdrOK /\ UNCHANGED vars /\ Consume
TraceNext == TRefDecode \/ TWrite \/ TWClose \/ TOpen \/ TRead \/ TClose
TraceSpec == TraceInit /\ [][TraceNext]_<<vars, tvars>>
=============================================================================
