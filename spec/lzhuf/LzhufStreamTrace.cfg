SPECIFICATION TraceSpec
INVARIANT AtMostDeclared
POSTCONDITION TraceAccepted
CHECK_DEADLOCK FALSE
