---- MODULE MCLzhufBatch ----
EXTENDS LzhufBatch
CanonProfile == << <<3, 1>>, <<4, 3>>, <<5, 8>>, <<6, 12>>, <<7, 24>>, <<8, 16>> >>
====
