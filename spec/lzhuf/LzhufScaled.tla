----------------------------- MODULE LzhufScaled -----------------------------
(* Exhaustive check of the format on a scaled configuration: for every input  *)
(* up to MaxLen over NSYM symbols and EVERY valid coding the nondeterministic  *)
(* encoder can choose (literals, any match length and distance, overlapping    *)
(* matches, matches into the initial window), the decoder returns the input.   *)
(* The scaled constants make window wrap-around and the tree rebuild reachable.*)
EXTENDS Lzhuf

CONSTANT MaxLen

VARIABLES inp, est, dst, phase
vars == <<inp, est, dst, phase>>

RECURSIVE Strings(_)
Strings(n) == IF n = 0 THEN {<<>>} ELSE Strings(n - 1) \cup {Append(q, c) : q \in {x \in Strings(n - 1) : Len(x) = n - 1}, c \in 0..(NSYM - 1)}

Init == /\ inp \in Strings(MaxLen) /\ est = EncInit /\ dst = DecInit /\ phase = "enc"

Encode ==
    /\ phase = "enc" /\ est.i <= Len(inp)
    /\ \/ est' = EncLiteral(est, inp[est.i])
       \/ \E d \in 1..N, len \in (THRESHOLD + 1)..F : Matches(inp, est.i, d, len) /\ est' = EncMatch(est, d, len)
    /\ UNCHANGED <<inp, dst, phase>>

Flush ==
    /\ phase = "enc" /\ est.i > Len(inp)
    /\ phase' = "dec"
    /\ UNCHANGED <<inp, est, dst>>

Stream == FromBytes(PackBits(est.bits))          \* what the decoder sees: whole bytes, zero padded

Decode ==
    /\ phase = "dec" /\ Len(dst.o) < Len(inp)
    /\ dst' = DecodeStep(dst, Stream)
    /\ UNCHANGED <<inp, est, phase>>

Done == phase = "dec" /\ Len(dst.o) >= Len(inp) /\ phase' = "done" /\ UNCHANGED <<inp, est, dst>>

Next == Encode \/ Flush \/ Decode \/ Done
Spec == Init /\ [][Next]_vars

Lossless      == phase = "done" => dst.o = inp
PrefixCorrect == phase \in {"dec", "done"} => \A i \in 1..Len(dst.o) : i <= Len(inp) /\ dst.o[i] = inp[i]
BitsConsumed  == phase = "done" => dst.k - 1 = Len(est.bits)         \* the decoder used exactly the bits the encoder produced
TreeOrdered   == \A i \in 0..(T - 2) : est.m.f[i] <= est.m.f[i + 1]   \* sibling property: frequencies stay sorted
=============================================================================
