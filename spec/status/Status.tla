------------------------------- MODULE Status -------------------------------
(* C17: transfer progress reporting.                                         *)
(*                                                                           *)
(* Two goroutines per transfer: the session goroutine, which fills (receive) *)
(* or drains (send) the transfer buffer chunk by chunk, and a reporter       *)
(* goroutine, which tells the StatusUpdater how far the transfer is.         *)
(* Happens-before is modelled with vector clocks: channel send/receive and   *)
(* close are the only synchronisation edges.  Two designs are described:     *)
(*   "shared"       the reporter reads the length of the shared buffer        *)
(*                  (what fbb/b2f.go did): TLC finds the data race;           *)
(*   "communicated" the session passes the count to the reporter through the  *)
(*                  synchronisation itself (channel value / atomic counter).  *)
(* The transfer's result (the received data, stored in the reported           *)
(* proposal) is what the consumer of the Done report looks at                  *)
(* (Proposal.DataIsComplete): StoreWhen = "beforeClose" is the code - the      *)
(* store happens before the close that releases the final report -,            *)
(* "afterClose" the deviation (a deferred store that runs after the deferred   *)
(* close): the final report may miss the result, and the two accesses race.    *)
EXTENDS Naturals, Sequences, TLC

CONSTANTS Chunks,       \* chunks per transfer
          Ticks,        \* reporter wake-ups that may fall inside the transfer
          Design,       \* "shared" or "communicated"
          StoreWhen     \* "beforeClose" or "afterClose"

Proc == {"S", "R"}                      \* session, reporter
VC   == [Proc -> Nat]
Zero == [p \in Proc |-> 0]
Leq(a, b)  == \A p \in Proc : a[p] <= b[p]
Join(a, b) == [p \in Proc |-> IF a[p] >= b[p] THEN a[p] ELSE b[p]]
Tick(v, p) == [v EXCEPT ![p] = @ + 1]

VARIABLES done,        \* chunks moved by the session goroutine
          vc,          \* [Proc -> VC]
          lastW,       \* vector clock of the last write to the buffer
          lastR,       \* vector clock of the last read of the buffer by the reporter
          chanVC,      \* clock carried by the last notification / counter update, and its value
          chanVal,
          ticks,       \* reporter wake-ups so far
          closed,      \* the session closed the notification channel (transfer over)
          reports,     \* sequence of reported counts
          finished,    \* the reporter delivered the Done report
          race,        \* a pair of conflicting accesses unordered by happens-before occurred
          stored,      \* the session has stored the transfer's result in the reported object
          resW, resR,  \* vector clocks of that write and of the final report's read of it (Zero: has not happened)
          sawResult    \* what the consumer of the Done report found

vars == <<done, vc, lastW, lastR, chanVC, chanVal, ticks, closed, reports, finished, race, stored, resW, resR, sawResult>>
rvars == <<stored, resW, resR, sawResult>>

Init == /\ done = 0 /\ vc = [p \in Proc |-> Zero] /\ lastW = Zero /\ lastR = Zero
        /\ chanVC = Zero /\ chanVal = 0 /\ ticks = 0 /\ closed = FALSE
        /\ reports = <<>> /\ finished = FALSE /\ race = FALSE
        /\ stored = FALSE /\ resW = Zero /\ resR = Zero /\ sawResult = FALSE

(* the session goroutine moves one chunk: a write access to the buffer *)
MoveChunk ==
    /\ done < Chunks /\ ~closed
    /\ LET v == Tick(vc["S"], "S") IN
       /\ vc' = [vc EXCEPT !["S"] = v]
       /\ race' = (race \/ ~Leq(lastR, v))          \* conflicts with a reporter read not ordered before it
       /\ lastW' = v
       /\ done' = done + 1
       (* "communicated": the new count is published with the clock (atomic store / channel value) *)
       /\ IF Design = "communicated" THEN chanVC' = v /\ chanVal' = done + 1 ELSE UNCHANGED <<chanVC, chanVal>>
    /\ UNCHANGED <<lastR, ticks, closed, reports, finished, rvars>>

(* the transfer is complete: the session stores the result in the object the reports carry *)
StoreResult ==
    /\ done = Chunks /\ ~stored
    /\ IF StoreWhen = "beforeClose" THEN ~closed ELSE closed
    /\ LET v == Tick(vc["S"], "S") IN
       /\ vc' = [vc EXCEPT !["S"] = v]
       /\ race' = (race \/ (resR # Zero /\ ~Leq(resR, v)))     \* conflicts with the final report's read not ordered before it
       /\ resW' = v
    /\ stored' = TRUE
    /\ UNCHANGED <<done, lastW, lastR, chanVC, chanVal, ticks, closed, reports, finished, resR, sawResult>>

(* the reporter wakes up (ticker / notification) and reports progress *)
Report ==
    /\ ticks < Ticks /\ ~finished
    /\ ticks' = ticks + 1
    /\ IF Design = "shared"
         THEN LET v == Tick(vc["R"], "R") IN             \* reads the shared buffer's length: no synchronisation
              /\ vc' = [vc EXCEPT !["R"] = v]
              /\ race' = (race \/ ~Leq(lastW, v))
              /\ lastR' = v
              /\ reports' = reports \o <<done>>
         ELSE LET v == Tick(Join(vc["R"], chanVC), "R") IN  \* acquires the published count
              /\ vc' = [vc EXCEPT !["R"] = v]
              /\ reports' = reports \o <<chanVal>>
              /\ UNCHANGED <<race, lastR>>
    /\ UNCHANGED <<done, lastW, chanVC, chanVal, closed, finished, rvars>>

(* the transfer is over: the session closes the channel (a release) *)
Close ==
    /\ done = Chunks /\ ~closed
    /\ StoreWhen = "beforeClose" => stored
    /\ closed' = TRUE
    /\ chanVC' = vc["S"] /\ chanVal' = done
    /\ UNCHANGED <<done, vc, lastW, lastR, ticks, reports, finished, race, rvars>>

(* the reporter sees the close (an acquire) and delivers the final report, then exits *)
Final ==
    /\ closed /\ ~finished
    /\ LET v == Tick(Join(vc["R"], chanVC), "R") IN
       /\ vc' = [vc EXCEPT !["R"] = v]
       /\ race' = (race \/ (Design = "shared" /\ ~Leq(lastW, v))   \* reading the buffer after the close is ordered
                         \/ (stored /\ ~Leq(resW, v)))              \* the consumer looks at the result
       /\ lastR' = IF Design = "shared" THEN v ELSE lastR
       /\ resR' = v
    /\ sawResult' = stored
    /\ reports' = reports \o <<done>>
    /\ finished' = TRUE
    /\ UNCHANGED <<done, lastW, chanVC, chanVal, ticks, closed, stored, resW>>

Next == MoveChunk \/ StoreResult \/ Report \/ Close \/ Final
Spec == Init /\ [][Next]_vars /\ WF_vars(Next)

NoRace == ~race
ReportsInRange == \A i \in DOMAIN reports : reports[i] <= Chunks
FinalIsTotal == finished => reports[Len(reports)] = Chunks
ExactlyOneFinal == [][finished => finished']_vars        \* nothing is reported after the Done report (Report needs ~finished)
FinalSeesResult == finished => sawResult               \* the Done report of a completed transfer shows a complete message
Termination == <>finished
=============================================================================
