SPECIFICATION Spec
CONSTANTS Chunks = 3  Ticks = 3  Design = "communicated"  StoreWhen = "beforeClose"
INVARIANTS NoRace ReportsInRange FinalIsTotal FinalSeesResult
PROPERTIES ExactlyOneFinal Termination
CHECK_DEADLOCK FALSE
