SPECIFICATION Spec
CONSTANTS Chunks = 3  Ticks = 3  Design = "communicated"
INVARIANTS NoRace ReportsInRange FinalIsTotal
PROPERTIES ExactlyOneFinal Termination
CHECK_DEADLOCK FALSE
