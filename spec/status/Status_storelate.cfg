SPECIFICATION Spec
CONSTANTS Chunks = 2  Ticks = 1  Design = "communicated"  StoreWhen = "afterClose"
INVARIANTS NoRace
CHECK_DEADLOCK FALSE
