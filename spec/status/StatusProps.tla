----------------------------- MODULE StatusProps -----------------------------
(* C17 monitor: what a StatusUpdater may observe for the transfers of one     *)
(* exchange, and what the race detector may report (nothing).                 *)
EXTENDS Naturals, Sequences, FiniteSets, TLC

VARIABLES fin,       \* set of <<side, direction, mid>> whose Done report was delivered
          seen,      \* set of <<side, direction, mid>> with at least one report
          finc       \* ... whose Done report showed a complete message (Proposal.DataIsComplete, read by the consumer)

vars == <<fin, seen, finc>>
Init == fin = {} /\ seen = {} /\ finc = {}

(* one call of UpdateStatus *)
Status(side, dir, mid, transferred, total, isdone, csize, complete) ==
    LET k == <<side, dir, mid>> IN
    /\ k \notin fin                         \* no report after the final one
    /\ transferred >= 0 /\ transferred <= total
    /\ total = csize                        \* the total is the compressed size of that proposal
    /\ seen' = seen \cup {k}
    /\ fin' = IF isdone THEN fin \cup {k} ELSE fin
    /\ finc' = IF isdone /\ complete THEN finc \cup {k} ELSE finc

(* end of the exchange (after a grace period for the asynchronous final reports): *)
(* exactly one Done report per transferred message and side                       *)
End(sent, received) ==      \* sets of <<side, mid>>
    /\ \A x \in sent : <<x[1], "send", x[2]>> \in fin
    /\ \A x \in received : <<x[1], "recv", x[2]>> \in fin
    /\ \A x \in received : <<x[1], "recv", x[2]>> \in finc      \* the final report of a received message shows it complete
                                                               \* (Status.tla: FinalSeesResult)
    /\ \A k \in fin : (k[2] = "send" => <<k[1], k[3]>> \in sent) /\ (k[2] = "recv" => <<k[1], k[3]>> \in received)
    /\ UNCHANGED vars

(* A data race reported by the race detector is not a behaviour: there is no action for it. *)
=============================================================================
