SPECIFICATION Spec
CONSTANTS Chunks = 3  Ticks = 3  Design = "shared"
INVARIANTS NoRace
CHECK_DEADLOCK FALSE
