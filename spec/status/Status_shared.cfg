SPECIFICATION Spec
CONSTANTS Chunks = 3  Ticks = 3  Design = "shared"  StoreWhen = "beforeClose"
INVARIANTS NoRace
CHECK_DEADLOCK FALSE
