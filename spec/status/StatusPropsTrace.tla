-------------------------- MODULE StatusPropsTrace --------------------------
EXTENDS StatusProps, TraceLib

TraceInit == TraceInitTL /\ Init
Pairs(q) == {<<q[i][1], q[i][2]>> : i \in 1..Len(q)}

TStatus == /\ IsEvent("Status")
           /\ Status(Ev.side, Ev.dir, Ev.mid, Ev.transferred, Ev.total, Ev.done, Ev.csize, Ev.complete)
           /\ Consume
TEnd    == IsEvent("End") /\ End(Pairs(Ev.sent), Pairs(Ev.received)) /\ Consume
TRace   == IsEvent("Race") /\ FALSE

TraceNext == TStatus \/ TEnd \/ TRace
TraceSpec == TraceInit /\ [][TraceNext]_<<vars, tvars>>
=============================================================================
