SPECIFICATION PathSpec
CONSTANTS Seg = {"n", "..", ".", "", "m", "b"}  MaxSegs = 4  MaxLen = 1  Protocol = "WriteInPlace"
INVARIANTS SingleSegmentConfined EmitPaths
CHECK_DEADLOCK FALSE
