------------------------------ MODULE Mailbox ------------------------------
(* Reference model of the directory mailbox (mailbox/syncdir.go) as a       *)
(* sequential object: C10.  Monitor and mechanism coincide here: the model  *)
(* *is* the property ("every observable result equals that of a reference   *)
(* model ...").  The abstract state is folder membership by MID; message    *)
(* content is abstracted to "intact" booleans computed by the harness.      *)
EXTENDS Naturals, FiniteSets, TLC

CONSTANTS
    MID,        \* the universe of message identifiers
    Sole,       \* [MID -> STRING]  normalised sole receiver (To+Cc has exactly one entry), "none" otherwise
    P2POnly,    \* [MID -> BOOLEAN] message carries the application's X-P2POnly marker
    FW          \* [name -> SUBSET STRING]  forwarder lists a remote may announce; {} = CMS (no ;FW addresses)

VARIABLES
    dirs,       \* the four folders exist on disk (persistent)
    outbox,     \* SUBSET MID  (persistent)
    sent,       \* SUBSET MID  (persistent)
    inbox,      \* SUBSET MID  (persistent)
    unread,     \* SUBSET inbox (persistent X-Unread flag)
    deferred,   \* SUBSET MID  (volatile, per handler instance, reset by Prepare)
    prepared,   \* Prepare was called on this handler instance
    sendOnly,   \* mode of this handler instance
    last        \* the operation that led here (makes graph nodes carry their edge)

vars == <<dirs, outbox, sent, inbox, unread, deferred, prepared, sendOnly, last>>

None == [op |-> "Init", m |-> "", flag |-> FALSE]

TypeOK ==
    /\ dirs \in BOOLEAN /\ prepared \in BOOLEAN /\ sendOnly \in BOOLEAN
    /\ outbox \subseteq MID /\ sent \subseteq MID /\ inbox \subseteq MID
    /\ unread \subseteq inbox /\ deferred \subseteq MID

Init ==
    /\ dirs = FALSE /\ outbox = {} /\ sent = {} /\ inbox = {} /\ unread = {}
    /\ deferred = {} /\ prepared = FALSE /\ sendOnly \in BOOLEAN
    /\ last = None

-----------------------------------------------------------------------------
(* Observations: what every query of the public API must return in a state. *)

Eligible(m, fw) ==
    /\ m \in outbox
    /\ m \notin deferred
    /\ IF fw = {} THEN ~P2POnly[m]          \* CMS: everything not marked P2P-only
                  ELSE Sole[m] \in fw       \* P2P: sole receiver is one of the forwarders

Answer(m) == IF sendOnly THEN "=" ELSE IF m \in inbox THEN "-" ELSE "+"

Folders ==
    [ out  |-> [m \in MID |-> IF m \in outbox /\ m \in sent THEN "both"
                               ELSE IF m \in outbox THEN "out"
                               ELSE IF m \in sent THEN "sent" ELSE "none"],
      inb  |-> [m \in MID |-> IF m \notin inbox THEN "none"
                               ELSE IF m \in unread THEN "unread" ELSE "read"],
      nin  |-> Cardinality(inbox),
      nout |-> Cardinality(outbox),
      nsent |-> Cardinality(sent),
      narch |-> 0 ]

Session ==     \* only meaningful on a prepared handler
    [ ans  |-> [m \in MID |-> Answer(m)],
      elig |-> [f \in DOMAIN FW |-> [m \in MID |-> Eligible(m, FW[f])]] ]

-----------------------------------------------------------------------------
(* Operations.  Enabling conditions that are *contract preconditions* of    *)
(* the API (not behaviour of the code) are marked CONTRACT.                  *)

Prepare ==
    /\ dirs' = TRUE /\ prepared' = TRUE /\ deferred' = {}
    /\ last' = [op |-> "Prepare", m |-> "", flag |-> FALSE]
    /\ UNCHANGED <<outbox, sent, inbox, unread, sendOnly>>

Restart(so) ==                       \* a fresh DirHandler on the same directory
    /\ dirs
    /\ prepared' = FALSE /\ deferred' = {} /\ sendOnly' = so
    /\ last' = [op |-> "Restart", m |-> "", flag |-> so]
    /\ UNCHANGED <<dirs, outbox, sent, inbox, unread>>

AddOut(m) ==
    /\ dirs                                  \* CONTRACT: mailbox directory initialised
    /\ m \notin outbox \cup sent             \* CONTRACT: MIDs of new messages are fresh
    /\ outbox' = outbox \cup {m}
    /\ last' = [op |-> "AddOut", m |-> m, flag |-> FALSE]
    /\ UNCHANGED <<dirs, sent, inbox, unread, deferred, prepared, sendOnly>>

SetSent(m, rej) ==
    /\ prepared                              \* CONTRACT: session operations follow Prepare
    /\ m \in outbox                          \* CONTRACT: only offered messages are reported
    /\ outbox' = outbox \ {m} /\ sent' = sent \cup {m}
    /\ last' = [op |-> "SetSent", m |-> m, flag |-> rej]
    /\ UNCHANGED <<dirs, inbox, unread, deferred, prepared, sendOnly>>

SetDeferred(m) ==
    /\ prepared                              \* CONTRACT
    /\ m \in outbox                          \* CONTRACT
    /\ deferred' = deferred \cup {m}
    /\ last' = [op |-> "SetDeferred", m |-> m, flag |-> FALSE]
    /\ UNCHANGED <<dirs, outbox, sent, inbox, unread, prepared, sendOnly>>

ProcessInbound(m) ==
    /\ prepared                              \* CONTRACT
    /\ inbox' = inbox \cup {m} /\ unread' = unread \cup {m}
    /\ last' = [op |-> "ProcessInbound", m |-> m, flag |-> FALSE]
    /\ UNCHANGED <<dirs, outbox, sent, deferred, prepared, sendOnly>>

SetUnread(m, u) ==
    /\ m \in inbox                           \* CONTRACT: the message was loaded from the inbox
    /\ unread' = IF u THEN unread \cup {m} ELSE unread \ {m}
    /\ last' = [op |-> "SetUnread", m |-> m, flag |-> u]
    /\ UNCHANGED <<dirs, outbox, sent, inbox, deferred, prepared, sendOnly>>

(* The read/unread marker may be applied to any loaded message; on an       *)
(* outbound message it is private bookkeeping that must never be offered.   *)
SetUnreadOut(m, u) ==
    /\ m \in outbox                          \* CONTRACT: the message was loaded from the outbox
    /\ last' = [op |-> "SetUnreadOut", m |-> m, flag |-> u]
    /\ UNCHANGED <<dirs, outbox, sent, inbox, unread, deferred, prepared, sendOnly>>

Next ==
    \/ Prepare
    \/ \E so \in BOOLEAN : Restart(so)
    \/ \E m \in MID :
         \/ AddOut(m)
         \/ \E rej \in BOOLEAN : SetSent(m, rej)
         \/ SetDeferred(m)
         \/ ProcessInbound(m)
         \/ \E u \in BOOLEAN : SetUnread(m, u) \/ SetUnreadOut(m, u)

Spec == Init /\ [][Next]_vars

-----------------------------------------------------------------------------
(* Design properties of the reference model (checked exhaustively).         *)

OutXorSent   == outbox \cap sent = {}                  \* exactly one of outbox or sent
DeferralVolatile == ~prepared => deferred = {}         \* a deferral lasts one session
NoDeferredOffered == \A f \in DOMAIN FW, m \in deferred : ~Eligible(m, FW[f])
RejectIffInbox == \A m \in MID : (Answer(m) = "-") <=> (~sendOnly /\ m \in inbox)
SendOnlyDefers == sendOnly => \A m \in MID : Answer(m) = "="
CmsGetsNonP2P == \A m \in outbox \ deferred : Eligible(m, {}) <=> ~P2POnly[m]

(* Action properties *)
OutboundNeverLost ==      \* an outbound message only ever moves outbox -> sent
    [][ /\ sent \subseteq sent'
        /\ outbox \subseteq outbox' \cup sent' ]_vars
InboxOnlyGrows == [][inbox \subseteq inbox']_vars
=============================================================================
