---------------------------- MODULE MailboxFSSeq ----------------------------
(* Part 3 of the mailbox's file-system model: a SEQUENCE of store / rewrite      *)
(* operations on one message file with crashes and restarts in between           *)
(* (mailbox/syncdir.go: writeFile is used by ProcessInbound, AddOut and           *)
(* SetUnread alike).  Names and files are kept apart (a name refers to an         *)
(* inode), because what a later operation does to a leftover of an earlier,       *)
(* interrupted one matters: ioutil.WriteFile opens the temporary name with        *)
(* O_CREAT|O_TRUNC, i.e. it truncates whatever file that name still refers to.    *)
(*                                                                              *)
(* Protocol "WriteTempThenRename" is the code's: write ".<name>.tmp", rename it   *)
(* over the message.  "LinkThenUnlink" is the maildir-style publication (link     *)
(* the temporary file to the final name, unlink the temporary name; rename when   *)
(* the final name exists): between link and unlink both names refer to the same   *)
(* file, and after a crash there the next rewrite truncates the message in        *)
(* place - the named deviation that must violate StaysComplete.                   *)
EXTENDS Naturals, FiniteSets

CONSTANTS MaxLen,        \* message length in write units
          MaxOps,        \* operations started (the first stores the message, the others rewrite it)
          MaxCrashes,
          Protocol       \* "WriteTempThenRename" or "LinkThenUnlink"

VARIABLES names,         \* [name -> inode]: "msg" (listed) and "tmp" (a dot-file, not listed)
          inodes,        \* [inode -> [len, want]]
          step,          \* 0 = between operations, 1 = open the temporary name, 2 = write, 3 = publish, 4 = unlink the temporary name
          ops, crashes,
          wasComplete    \* history: the message was listed and complete at some earlier point

vars == <<names, inodes, step, ops, crashes, wasComplete>>

Put(f, k, v) == [x \in DOMAIN f \cup {k} |-> IF x = k THEN v ELSE f[x]]
Del(f, k)    == [x \in DOMAIN f \ {k} |-> f[x]]
Complete(i)  == inodes[i].len = inodes[i].want
MsgComplete  == "msg" \in DOMAIN names /\ Complete(names["msg"])

Init == /\ names = [n \in {} |-> 0] /\ inodes = [i \in {} |-> [len |-> 0, want |-> 0]]
        /\ step = 0 /\ ops = 0 /\ crashes = 0 /\ wasComplete = FALSE

Note == wasComplete' = (wasComplete \/ MsgComplete)

Start == /\ step = 0 /\ ops < MaxOps /\ ops' = ops + 1 /\ step' = 1 /\ Note /\ UNCHANGED <<names, inodes, crashes>>

Open ==         \* open(tmp, O_CREAT|O_TRUNC): a new file, or the file the name still refers to, emptied
    /\ step = 1
    /\ IF "tmp" \in DOMAIN names
         THEN /\ inodes' = [inodes EXCEPT ![names["tmp"]] = [len |-> 0, want |-> MaxLen]] /\ UNCHANGED names
         ELSE LET i == Cardinality(DOMAIN inodes) + 1 IN
              /\ inodes' = Put(inodes, i, [len |-> 0, want |-> MaxLen]) /\ names' = Put(names, "tmp", i)
    /\ step' = 2 /\ Note /\ UNCHANGED <<ops, crashes>>

Write ==        \* any prefix may have reached the file when the process dies
    /\ step = 2
    /\ \E k \in (inodes[names["tmp"]].len + 1)..MaxLen :
          /\ inodes' = [inodes EXCEPT ![names["tmp"]].len = k]
          /\ step' = IF k = MaxLen THEN 3 ELSE 2
    /\ Note /\ UNCHANGED <<names, ops, crashes>>

Publish ==
    /\ step = 3
    /\ IF Protocol = "LinkThenUnlink" /\ "msg" \notin DOMAIN names
         THEN /\ names' = Put(names, "msg", names["tmp"]) /\ step' = 4                  \* link: two names, one file
         ELSE /\ names' = Put(Del(names, "tmp"), "msg", names["tmp"]) /\ step' = 0      \* rename is atomic
    /\ Note /\ UNCHANGED <<inodes, ops, crashes>>

Unlink == /\ step = 4 /\ names' = Del(names, "tmp") /\ step' = 0 /\ Note /\ UNCHANGED <<inodes, ops, crashes>>

Crash ==        \* the process dies inside an operation and is restarted: the operation is forgotten, the files stay
    /\ step # 0 /\ crashes < MaxCrashes
    /\ crashes' = crashes + 1 /\ step' = 0 /\ Note /\ UNCHANGED <<names, inodes, ops>>

Next == Start \/ Open \/ Write \/ Publish \/ Unlink \/ Crash
Spec == Init /\ [][Next]_vars

(* every listed file parses; "already received" is answered only for a complete copy *)
FoldersLoad == "msg" \in DOMAIN names => Complete(names["msg"])
(* a message that was once listed complete stays so: no later operation, however it is interrupted, damages it *)
StaysComplete == wasComplete => MsgComplete
=============================================================================
