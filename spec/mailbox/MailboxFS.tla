----------------------------- MODULE MailboxFS -----------------------------
(* The directory mailbox on a file system (mailbox/syncdir.go): C11 (crash   *)
(* consistency) and C12 (confinement).                                       *)
(*                                                                           *)
(* Part 1 - paths (C12).  A message identifier chosen by a remote station is  *)
(* a sequence of path segments; the file the mailbox touches for it is the    *)
(* lexically cleaned join of a folder and MID.b2f (what path.Join does).      *)
(* Confined: that file lies below the mailbox root.                           *)
(*                                                                           *)
(* Part 2 - crash points (C11).  Every mutating operation is a sequence of    *)
(* file-system steps (create/truncate, write a prefix, close, rename); a      *)
(* Crash may occur between any two steps and inside a write.  Two store       *)
(* protocols are described: WriteInPlace (write the final name directly) and  *)
(* WriteTempThenRename.  The recovery invariants are what C11 states.         *)
EXTENDS Naturals, Sequences, FiniteSets, TLC, Json

-----------------------------------------------------------------------------
(* Part 1: lexical path resolution *)

CONSTANTS Seg,          \* segment alphabet, e.g. {"n", "..", ".", "", "long"}
          MaxSegs       \* longest MID in segments

RECURSIVE SegSeqs(_)
SegSeqs(n) == IF n = 0 THEN {<<>>} ELSE SegSeqs(n - 1) \cup {Append(q, s) : q \in {x \in SegSeqs(n - 1) : Len(x) = n - 1}, s \in Seg}
MIDs == {m \in SegSeqs(MaxSegs) : Len(m) >= 1}

(* path.Clean on a relative path given as segments below a base of depth d: returns the depth reached below the base *)
(* (negative = above the base) after applying "." / "" (skip) and ".." (up).  The last segment carries the ".b2f"    *)
(* suffix, so it is a name even if it is ".." or "." or empty ("..b2f", ".b2f").                                     *)
RECURSIVE Walk(_, _, _)
Walk(segs, depth, low) ==
    IF segs = <<>> THEN <<depth, low>>
    ELSE LET s == Head(segs)
             last == Len(segs) = 1
             d2 == IF last THEN depth + 1
                   ELSE IF s \in {".", ""} THEN depth
                   ELSE IF s = ".." THEN depth - 1
                   ELSE depth + 1
         IN Walk(Tail(segs), d2, IF d2 < low THEN d2 ELSE low)

(* the folder is one level below the mailbox root: root/in/<MID>.b2f *)
FinalDepth(mid) == Walk(mid, 1, 1)[1]           \* depth of the file below the root (root = 0)
Confined(mid)   == Walk(mid, 1, 1)[2] >= 0 /\ FinalDepth(mid) >= 1
    \* never climbs above the root on the way, and ends at or below the root's level + 1
    \* (lexical cleaning cancels "x/.." pairs, so only the lowest point matters)
SingleSegment(mid) == Len(mid) = 1

(* design fact checked by TLC: single-segment MIDs are always confined; the others may not be *)
SingleSegmentConfined == \A m \in MIDs : SingleSegment(m) => Confined(m)
Escaping == {m \in MIDs : ~Confined(m)}

-----------------------------------------------------------------------------
(* Part 2: crash points of a store operation *)

CONSTANTS MaxLen,        \* message length in write units
          Protocol       \* "WriteInPlace" or "WriteTempThenRename"

VARIABLES files,         \* [name -> [len, want]]: visible files of one folder; name "tmp" is a dot-file (not listed)
          step,          \* next file-system step of the operation in flight (0 = none)
          want,          \* length of the message being stored
          crashed,
          older          \* a message stored completely before the operation started

fsvars == <<files, step, want, crashed, older>>

Complete(f) == f.len = f.want
Listed(n)   == n # "tmp"                       \* LoadMessageDir skips dot-files

FSInit == /\ want \in 1..MaxLen
          /\ older \in BOOLEAN
          /\ files = IF older THEN [n \in {"old"} |-> [len |-> 1, want |-> 1]] ELSE [n \in {} |-> [len |-> 0, want |-> 0]]
          /\ step = 1 /\ crashed = FALSE

Target == IF Protocol = "WriteInPlace" THEN "msg" ELSE "tmp"

Put(f, k, v) == [x \in DOMAIN f \cup {k} |-> IF x = k THEN v ELSE f[x]]
Del(f, k)    == [x \in DOMAIN f \ {k} |-> f[x]]

Create ==       \* open(O_CREAT|O_TRUNC)
    /\ step = 1 /\ ~crashed
    /\ files' = Put(files, Target, [len |-> 0, want |-> want]) /\ step' = 2
    /\ UNCHANGED <<want, crashed, older>>

WritePrefix ==  \* a write may be applied for any prefix before the process dies; complete writes move on
    /\ step = 2 /\ ~crashed
    /\ \E k \in (files[Target].len + 1)..want :
          /\ files' = [files EXCEPT ![Target].len = k]
          /\ step' = IF k = want THEN 3 ELSE 2
    /\ UNCHANGED <<want, crashed, older>>

CloseOrRename ==
    /\ step = 3 /\ ~crashed
    /\ IF Protocol = "WriteTempThenRename"
         THEN files' = Put(Del(files, "tmp"), "msg", files["tmp"])      \* rename is atomic
         ELSE UNCHANGED files
    /\ step' = 0 /\ UNCHANGED <<want, crashed, older>>

Crash == /\ ~crashed /\ step # 0 /\ crashed' = TRUE /\ UNCHANGED <<files, step, want, older>>

FSNext == Create \/ WritePrefix \/ CloseOrRename \/ Crash
FSSpec == FSInit /\ [][FSNext]_fsvars

(* Recovery obligations, evaluated after a crash (and after normal completion) *)
Recovered == crashed \/ step = 0
FoldersLoad == Recovered => \A n \in DOMAIN files : Listed(n) => Complete(files[n])   \* every listed file parses
DedupSound  == Recovered => ("msg" \in DOMAIN files => Complete(files["msg"]))        \* "already received" only for a complete copy
OldIntact   == Recovered /\ older => "old" \in DOMAIN files /\ Complete(files["old"])

(* single-state specification used to evaluate Part 1 and emit the C12 test plan *)
PathSpec == (FSInit /\ want = 1 /\ older = FALSE) /\ [][FALSE]_fsvars
EmitPaths == \A m \in MIDs : PrintT(ToJson([mid |-> m, confined |-> Confined(m)]))
=============================================================================
