--------------------------- MODULE MailboxFSTrace ---------------------------
(* Verdicts of C12 (confinement) and C11 (recovery after a crash) on real     *)
(* executions of mailbox.DirHandler against a real file system.               *)
EXTENDS MailboxFS, TraceLib

TraceInit == TraceInitTL /\ FSInit /\ want = 1 /\ older = FALSE

(* C12: whatever the identifier, nothing outside the mailbox directory is created, modified, renamed or removed *)
TFsOp == /\ IsEvent("FsOp")
         /\ ~Ev.touchedOutside
         /\ ~Ev.panic
         /\ UNCHANGED fsvars /\ Consume

(* C11: the state left by a crash (process killed before a system call, or a write torn after k bytes) recovers *)
TRecovery ==
    /\ IsEvent("Recovery")
    /\ Ev.foldersLoad                       \* every folder lists without error
    /\ Ev.oldIntact                         \* every message stored before the interrupted operation is intact
    /\ Ev.outXorSent                        \* an outbound message is still in out or sent (an interrupted AddOut of a new one may leave it absent)
    /\ Ev.rejectedImpliesComplete           \* "already received" only if a complete copy is in the inbox
    /\ ~Ev.panic
    /\ UNCHANGED fsvars /\ Consume

TraceNext == TFsOp \/ TRecovery
TraceSpec == TraceInit /\ [][TraceNext]_<<fsvars, tvars>>
=============================================================================
