SPECIFICATION TraceSpec
CONSTANTS
  MID <- U_MID
  Sole <- U_Sole
  P2POnly <- U_P2POnly
  FW <- U_FW
INVARIANTS TypeOK OutXorSent DeferralVolatile NoDeferredOffered RejectIffInbox SendOnlyDefers
POSTCONDITION TraceAccepted
CHECK_DEADLOCK FALSE
