SPECIFICATION TraceSpec
CONSTANTS Seg = {"n"}  MaxSegs = 1  MaxLen = 1  Protocol = "WriteInPlace"
POSTCONDITION TraceAccepted
CHECK_DEADLOCK FALSE
