SPECIFICATION Spec
CONSTANTS MaxLen = 3  MaxOps = 4  MaxCrashes = 3  Protocol = "WriteTempThenRename"
INVARIANTS FoldersLoad StaysComplete
CHECK_DEADLOCK FALSE
