SPECIFICATION FSSpec
CONSTANTS Seg = {"n"}  MaxSegs = 1  MaxLen = 4  Protocol = "WriteInPlace"
INVARIANTS FoldersLoad DedupSound OldIntact
CHECK_DEADLOCK FALSE
