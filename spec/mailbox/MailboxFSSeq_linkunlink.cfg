SPECIFICATION Spec
CONSTANTS MaxLen = 3  MaxOps = 4  MaxCrashes = 3  Protocol = "LinkThenUnlink"
INVARIANTS StaysComplete
CHECK_DEADLOCK FALSE
