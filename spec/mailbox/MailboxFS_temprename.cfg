SPECIFICATION FSSpec
CONSTANTS Seg = {"n"}  MaxSegs = 1  MaxLen = 4  Protocol = "WriteTempThenRename"
INVARIANTS FoldersLoad DedupSound OldIntact
CHECK_DEADLOCK FALSE
