--------------------------- MODULE MailboxTrace ---------------------------
(* Code -> spec binding for C10: every operation the harness performed on a *)
(* real mailbox.DirHandler must be an enabled action of Mailbox.tla and the  *)
(* complete observation taken after it must equal the model's.              *)
EXTENDS Mailbox, TraceLib

TraceInit == TraceInitTL /\ Init /\ sendOnly = Traces[t].so

(* the observation logged after the operation equals the model's post-state *)
ObsOK(e) ==
    /\ e.err = FALSE                         \* no operation of the model ever fails
    /\ e.obs.f = Folders'
    /\ prepared' => e.obs.s = Session'
    /\ e.obs.priv = FALSE                    \* no mailbox-private header on any returned message
    /\ \A m \in MID : e.obs.intact[m]        \* stored content equals what was stored

TPrepare   == IsEvent("Prepare") /\ Prepare /\ ObsOK(Ev) /\ Consume
TRestart   == IsEvent("Restart") /\ Restart(Ev.flag) /\ ObsOK(Ev) /\ Consume
TAddOut    == IsEvent("AddOut") /\ AddOut(Ev.m) /\ ObsOK(Ev) /\ Consume
TSetSent   == IsEvent("SetSent") /\ SetSent(Ev.m, Ev.flag) /\ ObsOK(Ev) /\ Consume
TSetDef    == IsEvent("SetDeferred") /\ SetDeferred(Ev.m) /\ ObsOK(Ev) /\ Consume
TProcess   == IsEvent("ProcessInbound") /\ ProcessInbound(Ev.m) /\ ObsOK(Ev) /\ Consume
TSetUnread == IsEvent("SetUnread") /\ SetUnread(Ev.m, Ev.flag) /\ ObsOK(Ev) /\ Consume

TSetUnreadOut == IsEvent("SetUnreadOut") /\ SetUnreadOut(Ev.m, Ev.flag) /\ ObsOK(Ev) /\ Consume

TraceNext == TSetUnreadOut \/ TPrepare \/ TRestart \/ TAddOut \/ TSetSent \/ TSetDef \/ TProcess \/ TSetUnread

TraceSpec == TraceInit /\ [][TraceNext]_<<vars, tvars>>
=============================================================================
