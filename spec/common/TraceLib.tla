----------------------------- MODULE TraceLib -----------------------------
(* Shared plumbing of all trace specifications (DESIGN.md 2.4).            *)
(* The harness writes one JSON object per line: {"t":n,"ev":[e1,e2,...]}.   *)
(* Every trace is its own initial state; `l` is the cursor.  Acceptance is *)
(* a per-trace high-water mark kept in TLC registers (run with -workers 1),*)
(* so that trace specs with silent/inferred steps are judged correctly.    *)
EXTENDS Naturals, Sequences, TLC, Json, IOUtils

Traces   == ndJsonDeserialize(IOEnv.TRACES)
NTraces  == Len(Traces)

VARIABLES t, l
tvars == <<t, l>>

TMax(a, b) == IF a > b THEN a ELSE b

TraceLen(k) == Len(Traces[k].ev)
Ev          == Traces[t].ev[l]          \* the event under the cursor
HasEvent    == l <= TraceLen(t)
IsEvent(op) == HasEvent /\ Ev.op = op

TraceInitTL == /\ t \in 1..NTraces
               /\ l = 1
               /\ TLCSet(t, 1)

(* consume the event under the cursor *)
Consume == /\ l' = l + 1
           /\ t' = t
           /\ TLCSet(t, TMax(TLCGet(t), l + 1))

(* a silent step of the module between two events *)
Silent  == /\ l' = l /\ t' = t

Rejected == {k \in 1..NTraces : TLCGet(k) # TraceLen(k) + 1}

TraceAccepted ==
    \/ Rejected = {}
    \/ /\ \A k \in Rejected : PrintT(<<"REJECT", k, TLCGet(k)>>)
       /\ FALSE
=============================================================================
