------------------------------ MODULE Dialers ------------------------------
(* C19, second half: the dialer registry (transport/dial.go) as a           *)
(* linearisable object.  Each API call is a Call event, an internal          *)
(* linearisation step that reads or updates the registry atomically (the     *)
(* critical section under the mutex), and a Return event.  The dialer found  *)
(* at the linearisation point is the one that must receive the call.         *)
EXTENDS Integers, FiniteSets, TLC

CONSTANTS Proc, Scheme, Dialer     \* Dialer: identities of registered dialers; 0 = none

VARIABLES reg,       \* [Scheme -> Dialer \cup {0}]
          pc,        \* [Proc -> {"idle", "called", "done"}]
          cur,       \* [Proc -> [op, s, d]]  operation in flight
          res        \* [Proc -> Dialer \cup {0, -1}]  result fixed at the linearisation point (-1: n/a)

vars == <<reg, pc, cur, res>>

NoOp == [op |-> "none", s |-> "", d |-> 0]

Init == /\ reg = [s \in Scheme |-> 0]
        /\ pc = [p \in Proc |-> "idle"]
        /\ cur = [p \in Proc |-> NoOp]
        /\ res = [p \in Proc |-> -1]

Call(p, op, s, d) ==
    /\ pc[p] = "idle"
    /\ pc' = [pc EXCEPT ![p] = "called"]
    /\ cur' = [cur EXCEPT ![p] = [op |-> op, s |-> s, d |-> d]]
    /\ UNCHANGED <<reg, res>>

Lin(p) ==                       \* the critical section
    /\ pc[p] = "called"
    /\ pc' = [pc EXCEPT ![p] = "done"]
    /\ CASE cur[p].op = "Register"   -> reg' = [reg EXCEPT ![cur[p].s] = cur[p].d] /\ res' = [res EXCEPT ![p] = -1]
         [] cur[p].op = "Unregister" -> reg' = [reg EXCEPT ![cur[p].s] = 0] /\ res' = [res EXCEPT ![p] = -1]
         [] cur[p].op = "Dial"       -> reg' = reg /\ res' = [res EXCEPT ![p] = reg[cur[p].s]]
    /\ UNCHANGED cur

(* got = identity of the dialer that received the call, 0 = ErrMissingDialer *)
Return(p, got) ==
    /\ pc[p] = "done"
    /\ cur[p].op = "Dial" => got = res[p]
    /\ pc' = [pc EXCEPT ![p] = "idle"]
    /\ cur' = [cur EXCEPT ![p] = NoOp]
    /\ res' = [res EXCEPT ![p] = -1]
    /\ UNCHANGED reg

Next == \E p \in Proc :
          \/ \E s \in Scheme, d \in Dialer : Call(p, "Register", s, d)
          \/ \E s \in Scheme : Call(p, "Unregister", s, 0) \/ Call(p, "Dial", s, 0)
          \/ Lin(p)
          \/ \E got \in Dialer \cup {0} : Return(p, got)

Spec == Init /\ [][Next]_vars

TypeOK == /\ reg \in [Scheme -> Dialer \cup {0}]
          /\ pc \in [Proc -> {"idle", "called", "done"}]
(* a dial is only ever dispatched to a dialer that some Register call supplied for that scheme *)
DispatchSound == \A p \in Proc : pc[p] = "done" /\ cur[p].op = "Dial" => res[p] \in Dialer \cup {0}
(* with a single process the registry is a plain map: dial returns the last registration *)
=============================================================================
