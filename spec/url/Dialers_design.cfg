SPECIFICATION Spec
CONSTANTS Proc = {1, 2}  Scheme = {"a", "b"}  Dialer = {1, 2}
INVARIANTS TypeOK DispatchSound
CHECK_DEADLOCK FALSE
