-------------------------------- MODULE Url --------------------------------
(* C19, first half: connect URLs.  A URL is *composed* from a component     *)
(* tuple by the documented grammar                                           *)
(*     scheme://(user(:pass)@)(host)(/digi1/...)/target(?k=v&...)            *)
(* (the harness does the string composition with net/url escaping) and the   *)
(* specification says what ParseURL must return for the tuple.               *)
(* Strings are opaque to TLA+, so upper-casing is a table over the finite    *)
(* vocabulary the tuples are drawn from (generated with the vocabulary).     *)
EXTENDS Naturals, Sequences, TLC

CONSTANTS Upper        \* [STRING -> STRING] over the vocabulary of digis and targets

NoDigiSchemes == {"ardop", "telnet"}       \* schemes that cannot use a digipeater path

Expected(c) ==
    IF Len(Upper[c.target]) < 3          \* the resulting (upper-cased) target has fewer than three characters
      THEN [err |-> "target"]
    ELSE IF Len(c.digis) > 0 /\ c.scheme \in NoDigiSchemes
      THEN [err |-> "digis"]
    ELSE [ err     |-> "none",
           scheme  |-> c.scheme,
           host    |-> IF c.hostparam # "" THEN c.hostparam ELSE c.host,
           hasuser |-> c.hasuser,
           user    |-> c.user,
           haspass |-> c.haspass,
           pass    |-> c.pass,
           target  |-> Upper[c.target],
           digis   |-> [i \in 1..Len(c.digis) |-> Upper[c.digis[i]]],
           params  |-> c.params ]

(* r is what the real ParseURL returned, projected by the harness *)
ParseOK(c, r) ==
    LET e == Expected(c) IN
    /\ r.err = e.err
    /\ e.err = "none" =>
         /\ r.scheme = e.scheme /\ r.host = e.host
         /\ r.hasuser = e.hasuser /\ r.user = e.user
         /\ r.haspass = e.haspass /\ r.pass = e.pass
         /\ r.target = e.target
         /\ r.digis = e.digis
         /\ r.params = e.params

(* any string at all yields a URL or an error *)
RawOutcomes == {"url", "err"}
=============================================================================
