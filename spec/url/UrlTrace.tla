------------------------------ MODULE UrlTrace ------------------------------
(* Trace specification for C19: Parse / Raw events against Url.tla, and      *)
(* concurrent registry histories against Dialers.tla with the linearisation  *)
(* steps inferred by TLC.                                                    *)
EXTENDS Url, Dialers, TraceLib

V_Proc == 1..8
V_Scheme == {"va", "Va", "vb"}       \* scheme names are compared as they are
V_Dialer == 1..64

TraceInit == TraceInitTL /\ Init

TParse == IsEvent("Parse") /\ ParseOK(Ev.c, Ev.r) /\ UNCHANGED vars /\ Consume
TRaw   == IsEvent("Raw") /\ Ev.outcome \in RawOutcomes /\ UNCHANGED vars /\ Consume
TCall  == IsEvent("Call") /\ Call(Ev.p, Ev.call, Ev.s, Ev.d) /\ Consume
TRet   == IsEvent("Ret") /\ Return(Ev.p, Ev.got) /\ Consume
TRace  == IsEvent("Race") /\ FALSE          \* a data race reported by the race detector is not a behaviour
TLin   == HasEvent /\ Ev.op \in {"Call", "Ret"} /\ (\E p \in Proc : Lin(p)) /\ Silent

(* while a dial is in progress other registry calls complete, and a dialer may dial through the registry itself *)
TProgress == IsEvent("Progress") /\ Ev.returned /\ Ev.forward /\ UNCHANGED vars /\ Consume
TraceNext == TProgress \/ TParse \/ TRaw \/ TCall \/ TRet \/ TRace \/ TLin
TraceSpec == TraceInit /\ [][TraceNext]_<<vars, tvars>>
=============================================================================
