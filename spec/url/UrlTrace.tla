------------------------------ MODULE UrlTrace ------------------------------
(* Trace specification for C19: Parse / Raw events against Url.tla, and      *)
(* concurrent registry histories against Dialers.tla with the linearisation  *)
(* steps inferred by TLC.                                                    *)
EXTENDS Url, TraceLib, Integers

VARIABLES reg, pc, cur, res
D == INSTANCE Dialers WITH Proc <- 1..8, Scheme <- {"va", "vb", "vc"}, Dialer <- 1..64

TraceInit == TraceInitTL /\ D!Init

TParse == IsEvent("Parse") /\ ParseOK(Ev.c, Ev.r) /\ UNCHANGED D!vars /\ Consume
TRaw   == IsEvent("Raw") /\ Ev.outcome \in RawOutcomes /\ UNCHANGED D!vars /\ Consume
TCall  == IsEvent("Call") /\ D!Call(Ev.p, Ev.call, Ev.s, Ev.d) /\ Consume
TRet   == IsEvent("Ret") /\ D!Return(Ev.p, Ev.got) /\ Consume
TRace  == IsEvent("Race") /\ FALSE          \* a data race reported by the race detector is not a behaviour
TLin   == HasEvent /\ Ev.op \in {"Call", "Ret"} /\ (\E p \in 1..8 : D!Lin(p)) /\ Silent

TraceNext == TParse \/ TRaw \/ TCall \/ TRet \/ TRace \/ TLin
TraceSpec == TraceInit /\ [][TraceNext]_<<D!vars, tvars>>
=============================================================================
