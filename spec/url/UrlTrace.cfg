SPECIFICATION TraceSpec
CONSTANTS Upper <- V_Upper
POSTCONDITION TraceAccepted
CHECK_DEADLOCK FALSE
