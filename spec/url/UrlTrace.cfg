SPECIFICATION TraceSpec
CONSTANTS Upper <- V_Upper  Proc <- V_Proc  Scheme <- V_Scheme  Dialer <- V_Dialer
POSTCONDITION TraceAccepted
CHECK_DEADLOCK FALSE
