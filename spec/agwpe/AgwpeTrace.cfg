SPECIFICATION TraceSpec
CONSTANTS K = 100000  Stages = 3  InCap = 1  DataCap = 10  Enqueue = "drop"  ReaderIdle = FALSE
POSTCONDITION TraceAccepted
CHECK_DEADLOCK FALSE
