SPECIFICATION TraceSpec
CONSTANTS NWrites = 100 MaxFrame = 4
POSTCONDITION TraceAccepted
CHECK_DEADLOCK FALSE
