------------------------------- MODULE AgwpeReg -------------------------------
(* Registration while delivering (transport/ax25/agwpe: demux.go, port.go).     *)
(* A demux has one goroutine (`run`) that takes frames from its input and hands  *)
(* each to the clients that want it, and that also accepts the clients' new      *)
(* requests (registrations).  The port's inbound handler is a client of the      *)
(* port demux (connect frames, a channel with room for one) AND registers a new  *)
(* request on the same demux for every connect frame it handles (it chains a     *)
(* demux for the connection; the registration is made with the demux mutex       *)
(* held).  If `run` cannot accept a registration while it is in the middle of a  *)
(* delivery, the two wait for each other as soon as connect frames arrive faster *)
(* than they are handled: AcceptWhileDelivering = FALSE is the code before fix   *)
(* 4ae63af, TRUE the code.                                                       *)
EXTENDS Naturals

CONSTANTS Frames,                 \* connect frames the TNC delivers
          AcceptWhileDelivering

VARIABLES left,       \* frames still to arrive
          inq,        \* frames in the demux's input (room for one; a frame that finds it full is dropped)
          run,        \* "idle" or "delivering" (holds a frame for the handler's channel)
          chan,       \* frames in the handler's channel (room for one)
          handler,    \* "recv" (waiting for a connect frame), "registering" (mutex held, request offered to run), "busy"
          handled, dropped

vars == <<left, inq, run, chan, handler, handled, dropped>>

Init == left = Frames /\ inq = 0 /\ run = "idle" /\ chan = 0 /\ handler = "recv" /\ handled = 0 /\ dropped = 0

Arrive == /\ left > 0 /\ left' = left - 1
          /\ IF inq = 0 THEN inq' = 1 /\ UNCHANGED dropped ELSE dropped' = dropped + 1 /\ UNCHANGED inq
          /\ UNCHANGED <<run, chan, handler, handled>>
RunTake == /\ run = "idle" /\ inq = 1 /\ inq' = 0 /\ run' = "delivering" /\ UNCHANGED <<left, chan, handler, handled, dropped>>
RunDeliver == /\ run = "delivering" /\ chan = 0 /\ chan' = 1 /\ run' = "idle" /\ UNCHANGED <<left, inq, handler, handled, dropped>>
HandlerRecv == /\ handler = "recv" /\ chan = 1 /\ chan' = 0 /\ handler' = "registering" /\ UNCHANGED <<left, inq, run, handled, dropped>>
(* run accepts the handler's request: between two frames, or - the fix - also in the middle of a delivery *)
RunAccept == /\ handler = "registering" /\ (run = "idle" \/ AcceptWhileDelivering)
             /\ handler' = "busy" /\ UNCHANGED <<left, inq, run, chan, handled, dropped>>
HandlerDone == /\ handler = "busy" /\ handler' = "recv" /\ handled' = handled + 1 /\ UNCHANGED <<left, inq, run, chan, dropped>>

Next == Arrive \/ RunTake \/ RunDeliver \/ HandlerRecv \/ RunAccept \/ HandlerDone
Spec == Init /\ [][Next]_vars
FairSpec == Spec /\ WF_vars(RunTake) /\ WF_vars(RunDeliver) /\ WF_vars(HandlerRecv) /\ WF_vars(RunAccept) /\ WF_vars(HandlerDone) /\ WF_vars(Arrive)

(* the two never wait for each other: run in a delivery the handler cannot take, the handler in a registration run cannot accept *)
NoEmbrace == ~(run = "delivering" /\ chan = 1 /\ handler = "registering" /\ ~AcceptWhileDelivering)
(* every frame is handled or dropped in the end (frames that arrive while the input is full are the known finding) *)
AllAccounted == <>(left = 0 /\ inq = 0 /\ run = "idle" /\ chan = 0 /\ handler = "recv" /\ handled + dropped = Frames)
=============================================================================
