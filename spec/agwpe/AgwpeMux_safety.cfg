SPECIFICATION Spec
CONSTANTS Conns = {"c1", "c2"} MaxOut = 2 MatchByPort = FALSE Timeouts = 0 OneShotBuffered = TRUE
INVARIANTS FlushSound OwnReport OnePoll Bounded
CHECK_DEADLOCK FALSE
