----------------------------- MODULE AgwpeTxTrace -----------------------------
(* Trace validation of AgwpeTx.tla: the transmit log of every schedule in      *)
(* which the application writes - the TNC's view ('D' frames, 'Y' polls with    *)
(* the count it answered) merged with the driver's Write / Flush calls and      *)
(* returns, one clock, one process.  The TNC transmitting a queued frame is     *)
(* the silent step.  Accepted means: a 'D' frame goes out only after a poll     *)
(* that was answered with at most MAXFRAME outstanding frames, Write returns    *)
(* only after a poll answered with at least one, Flush returns only after a     *)
(* poll answered with none - the Y polling exchange C13 names.                  *)
EXTENDS AgwpeTx, TraceLib

VARIABLES dOwed,     \* the poll for room has been answered: the 'D' frame must come next from the library
          rOwed      \* the call in progress may return now
tv == <<dOwed, rOwed>>

TraceInit == /\ TraceInitTL /\ pc = "idle" /\ left = Traces[t].nw /\ out = 0 /\ sent = 0 /\ lastY = None
             /\ dOwed = FALSE /\ rOwed = FALSE

TWriteCall == IsEvent("writeCall") /\ ~dOwed /\ ~rOwed /\ StartWrite /\ UNCHANGED tv /\ Consume
TY == /\ IsEvent("Y") /\ ~dOwed /\ ~rOwed
      /\ \/ PollWindow /\ dOwed' = (pc' = "seen") /\ UNCHANGED rOwed
         \/ PollSeen /\ rOwed' = (pc' = "idle") /\ UNCHANGED dOwed
         \/ PollFlush /\ rOwed' = (pc' = "flushed") /\ UNCHANGED dOwed
      /\ lastY' = Ev.v
      /\ Consume
TD == IsEvent("D") /\ dOwed /\ dOwed' = FALSE /\ UNCHANGED <<vars, rOwed>> /\ Consume
TWriteRet == IsEvent("writeRet") /\ rOwed /\ pc = "idle" /\ Ev.v > 0 /\ rOwed' = FALSE /\ UNCHANGED <<vars, dOwed>> /\ Consume
TFlushCall == IsEvent("flushCall") /\ ~dOwed /\ ~rOwed /\ StartFlush /\ UNCHANGED tv /\ Consume
TFlushRet == IsEvent("flushRet") /\ rOwed /\ pc = "flushed" /\ rOwed' = FALSE /\ UNCHANGED <<vars, dOwed>> /\ Consume
TQuiet == TncTransmit /\ UNCHANGED tv /\ Silent

TraceNext == TWriteCall \/ TY \/ TD \/ TWriteRet \/ TFlushCall \/ TFlushRet \/ TQuiet
TraceSpec == TraceInit /\ [][TraceNext]_<<vars, tv, tvars>>
=============================================================================
