-------------------------------- MODULE Agwpe --------------------------------
(* Mechanism model of the inbound path of transport/ax25/agwpe: the TNC read  *)
(* loop feeds a tree of demultiplexers (root -> port -> connection) that are   *)
(* goroutines connected by bounded channels.  Each demux has an input channel  *)
(* of capacity InCap into which frames are put with a NON-BLOCKING Enqueue     *)
(* (demux.go: select { case d.in <- f: default: drop }); a demux goroutine     *)
(* holds one frame while it hands it to its client with a blocking send; the   *)
(* connection's client is a buffered channel of DataCap frames that Conn.Read  *)
(* drains one frame per call.                                                  *)
(*                                                                           *)
(* Enqueue = "drop"  is the implementation (named deviation DropWhenFull);     *)
(* Enqueue = "block" is the flow-controlled design.                            *)
(* Frames are numbered 1..K; the property is that the application reads        *)
(* 1, 2, 3, ... without gaps (InOrderNoLossNoDup).                             *)
EXTENDS Naturals, Sequences, TLC

CONSTANTS K,         \* frames the TNC sends for this connection
          Stages,    \* number of demux stages (3: root, port, connection)
          InCap,     \* capacity of a demux input channel (1)
          DataCap,   \* capacity of the connection's data channel (10)
          Enqueue,   \* "drop" or "block"
          ReaderIdle \* the application does not read until everything was sent

VARIABLES next,      \* next frame the TNC read loop will enqueue into stage 1
          inq,       \* [1..Stages -> Seq(frame)]  demux input channels
          held,      \* [1..Stages -> frame or 0]  frame a demux goroutine is handing on
          data,      \* the connection's data channel
          got,       \* frames read by the application
          dropped    \* frames dropped by a full input channel

vars == <<next, inq, held, data, got, dropped>>

Init == /\ next = 1 /\ inq = [s \in 1..Stages |-> <<>>] /\ held = [s \in 1..Stages |-> 0]
        /\ data = <<>> /\ got = <<>> /\ dropped = {}

(* put frame f into the input channel of stage s (from the TNC loop or from the chain goroutine of stage s-1) *)
Put(s, f, inqv) ==
    IF Len(inqv[s]) < InCap THEN [ok |-> TRUE, inq |-> [inqv EXCEPT ![s] = Append(@, f)], drop |-> FALSE]
    ELSE IF Enqueue = "drop" THEN [ok |-> TRUE, inq |-> inqv, drop |-> TRUE]
    ELSE [ok |-> FALSE, inq |-> inqv, drop |-> FALSE]                  \* blocking: not enabled now

TncReads ==
    /\ next <= K
    /\ LET r == Put(1, next, inq) IN
       /\ r.ok /\ inq' = r.inq
       /\ dropped' = IF r.drop THEN dropped \cup {next} ELSE dropped
    /\ next' = next + 1 /\ UNCHANGED <<held, data, got>>

(* a demux goroutine takes a frame from its input channel *)
Take(s) ==
    /\ held[s] = 0 /\ inq[s] # <<>>
    /\ held' = [held EXCEPT ![s] = Head(inq[s])] /\ inq' = [inq EXCEPT ![s] = Tail(@)]
    /\ UNCHANGED <<next, data, got, dropped>>

(* ... and hands it on: to the next stage's Enqueue (through the chain goroutine) or, at the last stage, to the data channel *)
Forward(s) ==
    /\ held[s] # 0
    /\ IF s < Stages
         THEN LET r == Put(s + 1, held[s], inq) IN
              /\ r.ok /\ inq' = r.inq
              /\ dropped' = IF r.drop THEN dropped \cup {held[s]} ELSE dropped
              /\ UNCHANGED data
         ELSE /\ Len(data) < DataCap /\ data' = Append(data, held[s])    \* blocking send to the buffered client channel
              /\ UNCHANGED <<inq, dropped>>
    /\ held' = [held EXCEPT ![s] = 0] /\ UNCHANGED <<next, got>>

AppReads ==
    /\ data # <<>> /\ (ReaderIdle => next > K)
    /\ got' = Append(got, Head(data)) /\ data' = Tail(data)
    /\ UNCHANGED <<next, inq, held, dropped>>

Next == TncReads \/ (\E s \in 1..Stages : Take(s) \/ Forward(s)) \/ AppReads
Spec == Init /\ [][Next]_vars

InOrderNoLossNoDup == \A i \in 1..Len(got) : got[i] = i
NothingDropped == dropped = {}
=============================================================================
