-------------------------------- MODULE Agwpe --------------------------------
(* Mechanism model of the inbound path of transport/ax25/agwpe: the TNC read  *)
(* loop feeds a tree of demultiplexers (root -> port -> connection) that are   *)
(* goroutines connected by bounded channels.  Each demux has an input channel  *)
(* of capacity InCap into which frames are put with a NON-BLOCKING Enqueue     *)
(* (demux.go: select { case d.in <- f: default: drop }); a demux goroutine     *)
(* holds one frame while it hands it to its client with a blocking send; the   *)
(* client of the root and port demux is a chain goroutine (unbuffered channel) *)
(* that enqueues the frame into the next demux; the connection's client is a   *)
(* buffered channel of DataCap frames that Conn.Read drains one frame per call.*)
(* AgwpeTrace.tla drives this module with the library's own debug log.         *)
(*                                                                           *)
(* Enqueue = "drop"  is the implementation (named deviation DropWhenFull);     *)
(* Enqueue = "block" is the flow-controlled design.                            *)
(* Frames are numbered 1..K; the property is that the application reads        *)
(* 1, 2, 3, ... without gaps (InOrderNoLossNoDup).                             *)
EXTENDS Naturals, Sequences, TLC

CONSTANTS K,         \* frames the TNC sends for this connection
          Stages,    \* number of demux stages (3: root, port, connection)
          InCap,     \* capacity of a demux input channel (1)
          DataCap,   \* capacity of the connection's data channel (10)
          Enqueue,   \* "drop" or "block"
          ReaderIdle \* the application does not read until everything was sent

VARIABLES next,      \* next frame the TNC read loop will read from the socket
          pend,      \* frame the read loop has read and not yet enqueued (0 = none)
          inq,       \* [1..Stages -> Seq(frame)]  demux input channels
          held,      \* [1..Stages -> frame or 0]  frame a demux goroutine is handing to its client
          chain,     \* [1..Stages-1 -> frame or 0] frame the chain goroutine between stage s and s+1 has received
          data,      \* the connection's data channel
          got,       \* frames read by the application
          dropped    \* frames dropped by a full input channel

vars == <<next, pend, inq, held, chain, data, got, dropped>>

Init == /\ next = 1 /\ pend = 0 /\ inq = [s \in 1..Stages |-> <<>>] /\ held = [s \in 1..Stages |-> 0]
        /\ chain = [s \in 1..(Stages - 1) |-> 0]
        /\ data = <<>> /\ got = <<>> /\ dropped = {}

(* put frame f into the input channel of stage s (from the TNC loop or from the chain goroutine of stage s-1) *)
Put(s, f, inqv) ==
    IF Len(inqv[s]) < InCap THEN [ok |-> TRUE, inq |-> [inqv EXCEPT ![s] = Append(@, f)], drop |-> FALSE]
    ELSE IF Enqueue = "drop" THEN [ok |-> TRUE, inq |-> inqv, drop |-> TRUE]
    ELSE [ok |-> FALSE, inq |-> inqv, drop |-> FALSE]                  \* blocking: not enabled now

(* the TNC read loop: read a frame from the socket (agwpe.go: t.read), then Enqueue it into the root demux *)
TncRead ==
    /\ next <= K /\ pend = 0
    /\ pend' = next /\ next' = next + 1 /\ UNCHANGED <<inq, held, chain, data, got, dropped>>
TncEnqueue ==
    /\ pend # 0
    /\ LET r == Put(1, pend, inq) IN
       /\ r.ok /\ inq' = r.inq
       /\ dropped' = IF r.drop THEN dropped \cup {pend} ELSE dropped
    /\ pend' = 0 /\ UNCHANGED <<next, held, chain, data, got>>

(* a demux goroutine takes a frame from its input channel *)
Take(s) ==
    /\ held[s] = 0 /\ inq[s] # <<>>
    /\ held' = [held EXCEPT ![s] = Head(inq[s])] /\ inq' = [inq EXCEPT ![s] = Tail(@)]
    /\ UNCHANGED <<next, pend, chain, data, got, dropped>>

(* ... and hands it to its client with a blocking send: the chain goroutine of the next stage (unbuffered channel: the *)
(* chain goroutine must be idle) or, at the last stage, the connection's buffered data channel                          *)
Hand(s) ==
    /\ held[s] # 0
    /\ IF s < Stages
         THEN /\ chain[s] = 0 /\ chain' = [chain EXCEPT ![s] = held[s]] /\ UNCHANGED data
         ELSE /\ Len(data) < DataCap /\ data' = Append(data, held[s]) /\ UNCHANGED chain
    /\ held' = [held EXCEPT ![s] = 0] /\ UNCHANGED <<next, pend, inq, got, dropped>>

(* the chain goroutine enqueues the frame into the next demux (non-blocking in the implementation) *)
ChainEnqueue(s) ==
    /\ chain[s] # 0
    /\ LET r == Put(s + 1, chain[s], inq) IN
       /\ r.ok /\ inq' = r.inq
       /\ dropped' = IF r.drop THEN dropped \cup {chain[s]} ELSE dropped
    /\ chain' = [chain EXCEPT ![s] = 0] /\ UNCHANGED <<next, pend, held, data, got>>

AppReads ==
    /\ data # <<>> /\ (ReaderIdle => next > K /\ pend = 0)
    /\ got' = Append(got, Head(data)) /\ data' = Tail(data)
    /\ UNCHANGED <<next, pend, inq, held, chain, dropped>>

Next == TncRead \/ TncEnqueue \/ (\E s \in 1..Stages : Take(s) \/ Hand(s)) \/ (\E s \in 1..(Stages - 1) : ChainEnqueue(s)) \/ AppReads
Spec == Init /\ [][Next]_vars

InOrderNoLossNoDup == \A i \in 1..Len(got) : got[i] = i
NothingDropped == dropped = {}
=============================================================================
