------------------------------- MODULE AgwpeMux -------------------------------
(* Several connections on one AGWPE port (transport/ax25/agwpe: port.go,       *)
(* conn.go, demux.go).  All connections share the TNC link; what tells their   *)
(* frames apart is the pair of callsigns in the header.  Every connection      *)
(* polls the TNC for ITS number of outstanding frames ('Y' frame with the      *)
(* pair of callsigns); the replies come back on the shared link, in whatever   *)
(* order the TNC answers, and the demux chain (TNC -> port -> connection,      *)
(* filter `between`) hands each reply to the connection whose callsigns it     *)
(* carries, where a one-shot request (demux.NextFrame) is waiting for it.       *)
(* Flush(c) polls until a report says 0.                                        *)
(*                                                                              *)
(* MatchByPort = TRUE is the named deviation "the reply is matched at the      *)
(* port, not at the connection" (any waiting poll on the port takes the next   *)
(* 'Y' reply); with it FlushSound fails: AgwpeMux_byport.cfg.                   *)
EXTENDS Naturals, Sequences, FiniteSets

CONSTANTS Conns,        \* connections open on the port
          MaxOut,       \* bound on frames a connection hands to the TNC
          MatchByPort,  \* deviation
          Timeouts,     \* how many polls may give up before their reply has come (the 30 s of numOutstandingFrames)
          OneShotBuffered \* TRUE: the code (demux.NextFrame: a one-shot request has room for its one frame); FALSE: deviation

VARIABLES pc,       \* per connection: "open" (may write), "wopen" (Write's own poll for room is open), "poll" (Flush: about to
                    \* send a poll), "wait" (poll sent, one-shot request registered), "flushed" (Flush returned)
          written,  \* frames the connection has handed to the TNC
          out,      \* frames of the connection the TNC has not yet transmitted
          pending,  \* polls the TNC has received and not yet answered
          wire,     \* replies on the link TNC -> host, in order: <<connection, count>>
          seen,     \* per connection: the reply its last poll was answered with, <<connection, count>> (or <<>>)
          stale,    \* per connection: one-shot requests nobody waits for any more, still registered in the demux
          blocked,  \* the demux goroutine is stuck handing a frame to a request nobody waits for
          nto       \* polls that gave up so far

vars == <<pc, written, out, pending, wire, seen, stale, blocked, nto>>
tvs  == <<stale, blocked, nto>>

Init == /\ pc = [c \in Conns |-> "open"] /\ written = [c \in Conns |-> 0] /\ out = [c \in Conns |-> 0]
        /\ pending = {} /\ wire = <<>> /\ seen = [c \in Conns |-> <<>>]
        /\ stale = [c \in Conns |-> 0] /\ blocked = FALSE /\ nto = 0

(* the application writes a frame (the window polling of Write is AgwpeTx.tla) *)
Write(c) == /\ pc[c] = "open" /\ written[c] < MaxOut
            /\ written' = [written EXCEPT ![c] = @ + 1] /\ out' = [out EXCEPT ![c] = @ + 1]
            /\ UNCHANGED <<pc, pending, wire, seen, tvs>>
StartFlush(c) == /\ pc[c] \in {"open", "flushed", "failed"} /\ pc' = [pc EXCEPT ![c] = "poll"] /\ UNCHANGED <<written, out, pending, wire, seen, tvs>>
(* numOutstandingFrames: register the one-shot request, send the poll *)
Poll(c) == /\ pc[c] = "poll" /\ pc' = [pc EXCEPT ![c] = "wait"] /\ pending' = pending \cup {c}
           /\ UNCHANGED <<written, out, wire, seen, tvs>>
(* the poll gives up: Flush / Write return the error; the one-shot request stays registered (it has no cancel) *)
GiveUp(c) == /\ pc[c] \in {"wait", "wopen"} /\ nto < Timeouts
             /\ pc' = [pc EXCEPT ![c] = "failed"] /\ stale' = [stale EXCEPT ![c] = @ + 1] /\ nto' = nto + 1
             /\ UNCHANGED <<written, out, pending, wire, seen, blocked>>
(* the same from Write (before and after the data frame; what Write does with the count is AgwpeTx.tla) *)
PollW(c) == /\ pc[c] = "open" /\ pc' = [pc EXCEPT ![c] = "wopen"] /\ pending' = pending \cup {c}
            /\ UNCHANGED <<written, out, wire, seen, tvs>>
(* the TNC answers one of the polls it has received, with that connection's current count *)
TncReply(c) == /\ c \in pending /\ pending' = pending \ {c} /\ wire' = Append(wire, <<c, out[c]>>)
               /\ UNCHANGED <<pc, written, out, seen, tvs>>
(* the TNC transmits (and gets acknowledged) one queued frame *)
TncTransmit(c) == /\ out[c] > 0 /\ out' = [out EXCEPT ![c] = @ - 1] /\ UNCHANGED <<pc, written, pending, wire, seen, tvs>>
(* the demux chain routes the next reply *)
Takes(c, r) == pc[c] \in {"wait", "wopen"} /\ (MatchByPort \/ r[1] = c)
Matches(c, r) == MatchByPort \/ r[1] = c
Deliver == /\ wire # <<>> /\ ~blocked
           /\ LET r == Head(wire)
                  old == {c \in Conns : stale[c] > 0 /\ Matches(c, r)} IN
              IF old # {} /\ ~OneShotBuffered
                THEN \* the frame is handed to a request nobody receives from: the demux goroutine never gets past it
                     /\ blocked' = TRUE /\ UNCHANGED <<pc, seen, stale>>
                ELSE /\ stale' = [c \in Conns |-> IF c \in old THEN 0 ELSE stale[c]]     \* each takes its one frame and is gone
                     /\ UNCHANGED blocked
                     /\ \/ \E c \in Conns : /\ Takes(c, r)
                                             /\ seen' = [seen EXCEPT ![c] = r]
                                             /\ pc' = [pc EXCEPT ![c] = IF pc[c] = "wopen" THEN "open" ELSE IF r[2] = 0 THEN "flushed" ELSE "poll"]
                        \/ /\ \A c \in Conns : ~Takes(c, r)          \* nobody is waiting for it
                           /\ UNCHANGED <<pc, seen>>
           /\ wire' = Tail(wire)
           /\ UNCHANGED <<written, out, pending, nto>>

Next == \/ \E c \in Conns : Write(c) \/ StartFlush(c) \/ Poll(c) \/ PollW(c) \/ GiveUp(c) \/ TncReply(c) \/ TncTransmit(c)
        \/ Deliver
Spec == Init /\ [][Next]_vars
FairSpec == /\ Spec /\ WF_vars(Deliver)
            /\ \A c \in Conns : WF_vars(Poll(c)) /\ WF_vars(TncReply(c)) /\ WF_vars(TncTransmit(c))

(* Flush returns only when the TNC holds no frame of THIS connection *)
FlushSound == \A c \in Conns : pc[c] = "flushed" => out[c] = 0
(* a poll is answered by a report about the polling connection *)
OwnReport == \A c \in Conns : seen[c] # <<>> => seen[c][1] = c
(* at most one poll per connection is open *)
OnePoll == \A c \in Conns : (c \in pending \/ \E i \in 1..Len(wire) : wire[i][1] = c) => pc[c] \in {"wait", "wopen"} \/ MatchByPort \/ nto > 0
(* a flush, once started, ends (the TNC transmits and answers) *)
FlushEnds == \A c \in Conns : (pc[c] = "poll") ~> (pc[c] \in {"flushed", "failed"})
(* a reply that comes after its request has given up does not stop the demux: later frames are still delivered *)
DemuxLive == ~blocked
Bounded == Len(wire) <= Cardinality(Conns) + 1 + nto
WireSmall == Len(wire) <= 3
=============================================================================
