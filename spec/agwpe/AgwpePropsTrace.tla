--------------------------- MODULE AgwpePropsTrace ---------------------------
(* C13 monitor on real executions of transport/ax25/agwpe against the         *)
(* simulated TNC: two byte streams per connection (sent by the TNC for this    *)
(* connection / delivered to the application; written by the application /     *)
(* received by the TNC as lexed frames), the required exchanges, and the       *)
(* call/return records of the net.Conn API.                                    *)
EXTENDS Naturals, TraceLib
VARIABLE dummy
TraceInit == TraceInitTL /\ dummy = 0

(* an API call returned as the contract says (Dial/Accept succeed with a willing TNC and fail with a refusing one,  *)
(* Write returns the number of bytes it accepted or an error, Flush returns with nothing outstanding, Close = nil)  *)
TApi == IsEvent("Api") /\ Ev.ok /\ Ev.panic = "" /\ UNCHANGED dummy /\ Consume

(* InOrderNoLossNoDup, OthersNotDelivered: the bytes read are exactly the concatenation of this connection's D payloads *)
TReads == IsEvent("Reads") /\ Ev.match /\ ~Ev.foreign /\ Ev.panic = "" /\ UNCHANGED dummy /\ Consume

(* FramesWellFormed, WritePayloadsConcat: right port, callsigns, PID 0xF0, DataLen, reserved bytes zero; payloads concatenate to the writes *)
TTncData == IsEvent("TncData") /\ Ev.wellformed /\ Ev.payloadOK /\ UNCHANGED dummy /\ Consume

(* registering, dialling, polling and closing perform the AGWPE exchanges X, C/v, Y, d *)
TExchange == IsEvent("Exchange") /\ Ev.seen /\ UNCHANGED dummy /\ Consume

(* malformed or unexpected frames from the TNC never crash (or hang) the process *)
TMalformed == IsEvent("Malformed") /\ ~Ev.crashed /\ ~Ev.hung /\ UNCHANGED dummy /\ Consume

(* the process running the library died (a panic in one of its goroutines) or hung: never a behaviour *)
TCrash == IsEvent("Crash") /\ FALSE
(* the mechanism log of the schedule: judged by AgwpeTrace.tla *)
(* the transmit log of the schedule: judged by AgwpeTxTrace.tla *)
TTxLog == IsEvent("TxLog") /\ UNCHANGED dummy /\ Consume
(* how many frames the library's own log says it dropped in this schedule (used to attribute losses to the known finding) *)
(* the library's own log: dropped frames (the known finding, judged elsewhere), and the dial's cancellation watcher: the   *)
(* driver cancels the dial context only after DialContext has returned, so after a successful dial the watcher must not    *)
(* have sent a disconnect frame (a connection handed to the caller is the caller's)                                         *)
TDrops == IsEvent("Drops") /\ (Ev.dialok => Ev.latecancel = 0) /\ UNCHANGED dummy /\ Consume
TMech == IsEvent("Mech") /\ UNCHANGED dummy /\ Consume
TMuxLog == IsEvent("MuxLog") /\ UNCHANGED dummy /\ Consume      \* validated against AgwpeMux.tla (AgwpeMuxTrace.tla)
TraceNext == TMuxLog \/ TDrops \/ TTxLog \/ TMech \/ TCrash \/ TApi \/ TReads \/ TTncData \/ TExchange \/ TMalformed
TraceSpec == TraceInit /\ [][TraceNext]_<<dummy, tvars>>
=============================================================================
