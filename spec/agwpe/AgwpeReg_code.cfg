SPECIFICATION FairSpec
CONSTANTS Frames = 5 AcceptWhileDelivering = TRUE
INVARIANTS NoEmbrace
PROPERTIES AllAccounted
CHECK_DEADLOCK FALSE
