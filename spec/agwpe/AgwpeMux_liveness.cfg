SPECIFICATION FairSpec
CONSTANTS Conns = {"c1", "c2"} MaxOut = 2 MatchByPort = FALSE Timeouts = 0 OneShotBuffered = TRUE
PROPERTIES FlushEnds
CHECK_DEADLOCK FALSE
