SPECIFICATION FairSpec
CONSTANTS Conns = {"c1", "c2"} MaxOut = 2 MatchByPort = FALSE
PROPERTIES FlushEnds
CHECK_DEADLOCK FALSE
