SPECIFICATION Spec
CONSTANTS Conns = {"c1", "c2"} MaxOut = 1 MatchByPort = TRUE Timeouts = 0 OneShotBuffered = TRUE
INVARIANTS FlushSound
CONSTRAINT WireSmall
CHECK_DEADLOCK FALSE
