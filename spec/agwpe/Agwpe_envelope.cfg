SPECIFICATION Spec
CONSTANTS K = 2  Stages = 3  InCap = 1  DataCap = 10  Enqueue = "drop"  ReaderIdle = TRUE
INVARIANTS NothingDropped
CHECK_DEADLOCK FALSE
