SPECIFICATION Spec
CONSTANTS Conns = {"c1", "c2"} MaxOut = 1 MatchByPort = FALSE Timeouts = 1 OneShotBuffered = FALSE
INVARIANTS DemuxLive
CONSTRAINT WireSmall
CHECK_DEADLOCK FALSE
