SPECIFICATION TraceSpec
CONSTANTS Conns = {"c1", "c2"} MaxOut = 1000 MatchByPort = FALSE Timeouts = 0 OneShotBuffered = TRUE
INVARIANTS FlushSound OwnReport
POSTCONDITION TraceAccepted
CHECK_DEADLOCK FALSE
