SPECIFICATION TraceSpec
CONSTANTS Conns = {"c1", "c2"} MaxOut = 1000 MatchByPort = FALSE
INVARIANTS FlushSound OwnReport
POSTCONDITION TraceAccepted
CHECK_DEADLOCK FALSE
