----------------------------- MODULE AgwpeMuxTrace -----------------------------
(* Trace validation of AgwpeMux.tla: two connections open on one port.  The     *)
(* log is the TNC's: 'D' frames and 'Y' polls as they arrive and the replies     *)
(* as they are written (each with the connection its callsigns name), merged     *)
(* with the driver's notes of the Flush calls and returns of either              *)
(* connection.  The routing of a reply to the waiting request inside the         *)
(* library (Deliver) and the TNC's transmissions are inferred.  Accepted means:  *)
(* every Flush returned only after a report of 0 outstanding frames about its    *)
(* own connection had been written by the TNC and no other poll of that          *)
(* connection was open.                                                          *)
EXTENDS AgwpeMux, TraceLib

TraceInit == TraceInitTL /\ Init

C == Ev.c
TD         == IsEvent("D") /\ Write(C) /\ Consume
TFlushCall == IsEvent("FlushCall") /\ StartFlush(C) /\ Consume
TYReq      == IsEvent("YReq") /\ (Poll(C) \/ PollW(C)) /\ Consume
(* the reply carries the count: the TNC's transmissions since the last report are inferred from it *)
TYRep      == /\ IsEvent("YRep") /\ C \in pending /\ Ev.n <= out[C]
              /\ out' = [out EXCEPT ![C] = Ev.n] /\ pending' = pending \ {C} /\ wire' = Append(wire, <<C, Ev.n>>)
              /\ UNCHANGED <<pc, written, seen, tvs>> /\ Consume
TFlushRet  == IsEvent("FlushRet") /\ pc[C] = "flushed" /\ UNCHANGED vars /\ Consume
TQuiet     == Deliver /\ Silent

TraceNext == TD \/ TFlushCall \/ TYReq \/ TYRep \/ TFlushRet \/ TQuiet
TraceSpec == TraceInit /\ [][TraceNext]_<<vars, tvars>>
=============================================================================
