SPECIFICATION Spec
CONSTANTS Conns = {"c1", "c2", "c3"} MaxOut = 1 MatchByPort = FALSE Timeouts = 0 OneShotBuffered = TRUE
INVARIANTS FlushSound OwnReport OnePoll Bounded
CHECK_DEADLOCK FALSE
