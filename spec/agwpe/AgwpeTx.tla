------------------------------- MODULE AgwpeTx -------------------------------
(* Mechanism model of the transmit side of transport/ax25/agwpe (conn.go):    *)
(* Conn.Write polls the TNC for the number of outstanding frames of the        *)
(* connection ('Y' frame, every 200 ms) until it is at most MAXFRAME, sends    *)
(* the data as one 'D' frame, and polls again until it has seen at least one    *)
(* outstanding frame ("to avoid a race if Flush is called immediately after     *)
(* this"); Flush polls until the TNC reports no outstanding frame; Close        *)
(* flushes and then disconnects.  The TNC (environment) transmits queued        *)
(* frames whenever it likes.                                                    *)
EXTENDS Naturals, TLC

CONSTANTS NWrites,     \* Write calls before Flush
          MaxFrame     \* the port's MAXFRAME

VARIABLES pc,          \* "idle", "window" (polling for room), "seen" (polling for > 0), "flushing", "flushed"
          left,        \* Write calls still to come
          out,         \* frames of the connection the TNC has queued and not yet transmitted
          sent,        \* 'D' frames the TNC received
          lastY        \* reply to the most recent 'Y' poll (-1 coded as MaxFrame + 100: none yet)

vars == <<pc, left, out, sent, lastY>>
None == MaxFrame + 100

Init == pc = "idle" /\ left = NWrites /\ out = 0 /\ sent = 0 /\ lastY = None

StartWrite == /\ pc = "idle" /\ left > 0 /\ pc' = "window" /\ UNCHANGED <<left, out, sent, lastY>>
(* a poll: the TNC answers with its current count *)
PollWindow == /\ pc = "window" /\ lastY' = out
              /\ IF out <= MaxFrame THEN /\ sent' = sent + 1 /\ out' = out + 1 /\ pc' = "seen"      \* room: the D frame goes out
                                    ELSE UNCHANGED <<sent, out, pc>>
              /\ UNCHANGED left
PollSeen   == /\ pc = "seen" /\ lastY' = out
              /\ IF out > 0 THEN pc' = "idle" /\ left' = left - 1 ELSE UNCHANGED <<pc, left>>
              /\ UNCHANGED <<out, sent>>
StartFlush == /\ pc = "idle" /\ left = 0 /\ pc' = "flushing" /\ UNCHANGED <<left, out, sent, lastY>>
PollFlush  == /\ pc = "flushing" /\ lastY' = out
              /\ pc' = IF out = 0 THEN "flushed" ELSE "flushing"
              /\ UNCHANGED <<left, out, sent>>
(* the TNC transmits (and gets acknowledged) one queued frame *)
TncTransmit == /\ out > 0 /\ out' = out - 1 /\ UNCHANGED <<pc, left, sent, lastY>>

Next == StartWrite \/ PollWindow \/ PollSeen \/ StartFlush \/ PollFlush \/ TncTransmit
Spec == Init /\ [][Next]_vars
FairSpec == Spec /\ WF_vars(StartWrite) /\ WF_vars(PollWindow) /\ WF_vars(PollSeen) /\ WF_vars(StartFlush) /\ WF_vars(PollFlush)
                 /\ WF_vars(TncTransmit)

(* safety *)
WindowRespected == out <= MaxFrame + 1                   \* a frame is handed over only when at most MAXFRAME are outstanding
FlushOnlyWhenEmpty == pc = "flushed" => lastY = 0        \* Flush returns on a report of no outstanding frame
AllSentBeforeFlush == pc \in {"flushing", "flushed"} => sent = NWrites
(* liveness the mechanism does NOT have (observation): a TNC that transmits the frame before the next poll is never    *)
(* seen with an outstanding frame, and Write waits for ever (until its write deadline, if one is set)                   *)
WriteReturns == (pc = "seen") ~> (pc = "idle")
=============================================================================
