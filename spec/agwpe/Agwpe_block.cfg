SPECIFICATION Spec
CONSTANTS K = 5  Stages = 3  InCap = 1  DataCap = 2  Enqueue = "block"  ReaderIdle = FALSE
INVARIANTS InOrderNoLossNoDup NothingDropped
CHECK_DEADLOCK FALSE
