SPECIFICATION FairSpec
CONSTANTS Frames = 5 AcceptWhileDelivering = FALSE
INVARIANTS NoEmbrace
CHECK_DEADLOCK FALSE
