SPECIFICATION Spec
CONSTANTS Conns = {"c1", "c2"} MaxOut = 1 MatchByPort = FALSE Timeouts = 2 OneShotBuffered = TRUE
INVARIANTS FlushSound OwnReport OnePoll DemuxLive
CONSTRAINT WireSmall
CHECK_DEADLOCK FALSE
