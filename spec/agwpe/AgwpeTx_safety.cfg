SPECIFICATION Spec
CONSTANTS NWrites = 4 MaxFrame = 2
INVARIANTS WindowRespected FlushOnlyWhenEmpty AllSentBeforeFlush
CHECK_DEADLOCK FALSE
