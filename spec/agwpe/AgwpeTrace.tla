------------------------------ MODULE AgwpeTrace ------------------------------
(* Mechanism trace validation of Agwpe.tla against the library's own debug    *)
(* log (AGWPE_DEBUG; no hook needed): every inbound schedule of the binding    *)
(* records, in one total order (one logger),                                   *)
(*   Recv i   "<- ... Kind: D ..." - the TNC read loop has read the i-th data  *)
(*            frame of the connection (logged before it is enqueued),          *)
(*   Drop     "port buffer full - dropping frame" - logged inside the Enqueue  *)
(*            that dropped, while the demux mutex is held,                     *)
(*   RCall / RRet i - the application's Read call and the frame it returned    *)
(*            (0 = the call returned no data).                                 *)
(* The steps the library does not log - Enqueue that succeeds, a demux taking  *)
(* a frame, handing it to the chain goroutine or the data channel, the moment  *)
(* inside Read at which the frame is taken - are inferred by TLC (silent       *)
(* steps).  An accepted trace means: the frames the application got, in that   *)
(* order, and every frame it did not get are explained by the pipeline of      *)
(* Agwpe.tla with exactly the logged drops.  A loss without a logged drop, a   *)
(* reordering, a duplicate or a frame that was never sent is not a behaviour.  *)
EXTENDS Agwpe, TraceLib

VARIABLES reading,   \* the application is inside Read
          taken      \* the frame that call has taken from the data channel (0 = none yet)
mvars == <<reading, taken>>

TraceInit == TraceInitTL /\ Init /\ reading = FALSE /\ taken = 0

TRecv == IsEvent("Recv") /\ TncRead /\ pend' = Ev.i /\ UNCHANGED mvars /\ Consume
Enq   == TncEnqueue \/ (\E s \in 1..(Stages - 1) : ChainEnqueue(s))
TDrop == IsEvent("Drop") /\ Enq /\ dropped' # dropped /\ UNCHANGED mvars /\ Consume
TMove == /\ (Enq \/ (\E s \in 1..Stages : Take(s) \/ Hand(s)))
         /\ dropped' = dropped /\ UNCHANGED mvars /\ Silent
TRCall == IsEvent("RCall") /\ ~reading /\ reading' = TRUE /\ taken' = 0 /\ UNCHANGED vars /\ Consume
TTake  == reading /\ taken = 0 /\ AppReads /\ taken' = Head(data) /\ UNCHANGED reading /\ Silent
TRRet  == IsEvent("RRet") /\ reading /\ taken = Ev.i /\ reading' = FALSE /\ taken' = 0 /\ UNCHANGED vars /\ Consume

TraceNext == TRecv \/ TDrop \/ TMove \/ TRCall \/ TTake \/ TRRet
TraceSpec == TraceInit /\ [][TraceNext]_<<vars, mvars, tvars>>
=============================================================================
