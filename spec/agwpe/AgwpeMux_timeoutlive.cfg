SPECIFICATION FairSpec
CONSTANTS Conns = {"c1", "c2"} MaxOut = 1 MatchByPort = FALSE Timeouts = 1 OneShotBuffered = TRUE
PROPERTIES FlushEnds
CHECK_DEADLOCK FALSE
