SPECIFICATION FairSpec
CONSTANTS NWrites = 1 MaxFrame = 2
PROPERTY WriteReturns
CHECK_DEADLOCK FALSE
