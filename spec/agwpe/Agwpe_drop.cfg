SPECIFICATION Spec
CONSTANTS K = 4  Stages = 3  InCap = 1  DataCap = 2  Enqueue = "drop"  ReaderIdle = FALSE
INVARIANTS InOrderNoLossNoDup
CHECK_DEADLOCK FALSE
