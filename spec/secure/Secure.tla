------------------------------- MODULE Secure -------------------------------
(* C16: the Winlink secure-login response, as executable arithmetic.          *)
(* The MD5 digest of  challenge \o password \o Salt  is computed by the        *)
(* harness (crypto/md5 is trusted); everything after the digest is evaluated   *)
(* by TLC: first four digest bytes as a little-endian integer masked to 30     *)
(* bits, last eight decimal digits, zero padded.                               *)
EXTENDS Integers, Sequences, TLC, Json

(* The salt published in paclink-unix (64 bytes).  The harness reads the same  *)
(* bytes from salt.json; the ASSUME ties the two together.                     *)
Salt == <<77, 197, 101, 206, 190, 249, 93, 200, 51, 243, 93, 237, 71, 94, 239, 138, 68, 108, 70, 185, 225, 137, 217, 16, 51, 122, 193, 48, 194, 195, 198, 175, 172, 169, 70, 84, 61, 62, 104, 186, 114, 52, 61, 168, 66, 129, 192, 208, 187, 249, 232, 193, 41, 113, 41, 45, 240, 16, 29, 228, 208, 228, 61, 20>>
ASSUME Salt = JsonDeserialize("salt.json")
ASSUME Len(Salt) = 64

Digit == <<"0", "1", "2", "3", "4", "5", "6", "7", "8", "9">>
D(n)  == Digit[n + 1]

(* d: the 16 digest bytes, d[1] first *)
Value(d) == (d[4] % 64) * 16777216 + d[3] * 65536 + d[2] * 256 + d[1]
Eight(v) == LET w == v % 100000000 IN
            D(w \div 10000000) \o D((w \div 1000000) % 10) \o D((w \div 100000) % 10) \o D((w \div 10000) % 10)
            \o D((w \div 1000) % 10) \o D((w \div 100) % 10) \o D((w \div 10) % 10) \o D(w % 10)
Response(d) == Eight(Value(d))

(* the repository's published vector anchors Salt and the arithmetic:          *)
(* challenge 23753528, password FOOBAR -> 72768415 (digest logged by harness) *)

(* What a slave session must do when the master issued ;PQ (one Login event per handshake) *)
AuxTokenOK(a) == a.token = (IF a.haspw THEN a.addr \o "|" \o Response(a.digest) ELSE a.addr)

LoginOK(e) ==
    /\ ~e.pwonwire                                   \* the password itself never appears on the wire
    /\ e.panic = FALSE
    /\ CASE e.cb \in {"none", "nil", "setnil"} -> e.prcount = 0 /\ e.res # "nil"   \* no callback registered (never, a nil one, or one that was registered and then replaced by nil): the handshake fails
         [] e.cb = "error" -> e.prcount = 0 /\ e.res # "nil"          \* no password: no answer can be given
         [] OTHER ->
              /\ e.prcount = 1 /\ e.prBeforeCmd                       \* ;PR before the slave's first command
              /\ e.pr = Response(e.digest)
              /\ e.fwfirst = e.mycall                                 \* own call first, bare
              /\ \A i \in 1..Len(e.aux) : AuxTokenOK(e.aux[i])
              /\ e.res = "nil"
=============================================================================
