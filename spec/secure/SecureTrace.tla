---------------------------- MODULE SecureTrace ----------------------------
EXTENDS Secure, TraceLib
VARIABLE dummy
TraceInit == TraceInitTL /\ dummy = 0
TLogin == IsEvent("Login") /\ LoginOK(Ev) /\ UNCHANGED dummy /\ Consume
TraceNext == TLogin
TraceSpec == TraceInit /\ [][TraceNext]_<<dummy, tvars>>
=============================================================================
