SPECIFICATION Spec
CONSTANTS MidA = {"a1", "a2"}  MidB = {"b1"}  Policies = {"+"}  MaxBlock = 2  MaxSessions = 2  MaxFaults = 1  Deviations = {"ReportBeforeConfirm"}
INVARIANTS NoFalseSent
CHECK_DEADLOCK FALSE
