-------------------------- MODULE B2FRobustTrace --------------------------
(* C03 verdicts: every hostile transcript the harness fed to a real Session *)
(* must end in an outcome the automaton permits.  "lost" (ErrConnLost) and   *)
(* "err" are ReturnErr; "nil" is ReturnNil.  panic / exit / hang / allocbomb *)
(* / connopen match no action.                                               *)
EXTENDS B2FRobust, TraceLib

TraceInit == TraceInitTL /\ Init

TOutcome ==
    /\ IsEvent("Outcome")
    /\ outcome = "running"
    /\ outcome' = (IF Ev.outcome = "nil" THEN "nil" ELSE "err")
    /\ Ev.outcome \in {"nil", "err", "lost"}
    /\ role' = Ev.role /\ pend' = Ev.pend
    /\ UNCHANGED <<phase, nprop, path, nbad, ndec>>
    /\ Consume

TraceNext == TOutcome
TraceSpec == TraceInit /\ [][TraceNext]_<<vars, tvars>>
=============================================================================
