------------------------------ MODULE B2FProps ------------------------------
(* Property monitor of the B2F session family (DESIGN.md 2.1, 3.1).         *)
(*                                                                          *)
(* A deliberately abstract state machine over *boundary events only*:       *)
(* calls on the two mailbox handlers, protocol units on the wire (as lexed  *)
(* by the independent judge), Exchange returns and link events.  Its        *)
(* behaviours are exactly the event sequences that C01, C02, C04 and the    *)
(* wire-protocol half of C05 allow; it says nothing about *how* a Session   *)
(* achieves them.  B2F.tla (the mechanism) refines it.                       *)
(*                                                                          *)
(* A behaviour covers a sequence of sessions on the same two mailboxes      *)
(* (C02: faulty sessions followed by a clean one).                           *)
EXTENDS Integers, Sequences, FiniteSets, TLC

CONSTANTS MaxBlock          \* proposals per block (5 in B2F)

Station == {"A", "B"}
Peer(s) == IF s = "A" THEN "B" ELSE "A"

VARIABLES
    (* persistent over the sessions of a behaviour *)
    owner,      \* [MID -> Station]   who queued the message
    pol,        \* [MID -> {"+","-","=","dedup"}]  how the receiving handler is configured to answer
    prec,       \* [MID -> 0..3]      precedence class of the message
    sentEver,   \* [Station -> SUBSET MID]  reported to the sending handler as sent (either flavour)
    storedEver, \* [Station -> Seq(MID)]    successful stores, all sessions (a bag: duplicates visible)
    (* per session *)
    master,     \* the station that initiates the handshake
    faulted,    \* a link cut, storage failure or alteration was injected in this session
    offered,    \* [Station -> SUBSET MID]  returned by GetOutbound in this session
    hans,       \* [Station -> [MID -> answer]]  answers the station's *handler* gave
    fans,       \* [Station -> [MID -> answer]]  answers the station put on the wire (FS)
    block,      \* [Station -> Seq([mid, csize, size])]  proposals of the station's open or last block
    open,       \* [Station -> BOOLEAN]  the station is inside a proposal block (no F> yet)
    await,      \* "none" or the station that owes an FS line
    owe,        \* [Station -> Seq(MID)]  accepted proposals the station still has to transfer
    reqoff,     \* [MID -> Nat] offset requested by the receiver for an accepted proposal
    framed,     \* [Station -> SUBSET MID]  complete transfers the station put on the wire
    stored,     \* [Station -> Seq(MID)]  successful stores of this session
    repSent, repRej, repDef,   \* [Station -> SUBSET MID]  what the sending handler was told in this session
    sid,        \* [Station -> BOOLEAN]  SID seen from the station
    hsdone,     \* [Station -> BOOLEAN]  station finished its handshake lines
    turn,       \* station whose turn it is to send commands ("none" before the handshake is complete)
    quit,       \* a station sent FQ
    cmsq,       \* "none", or the station that announced / performed a CMS-style quit (FQ right after its own last block,
                \* without waiting for the other station's turn, followed by a hang-up)
    lastEmpty,  \* [Station -> BOOLEAN]  the station's last turn was FF / an empty block
    ret,        \* [Station -> {"run","nil","err","lost","panic"}]
    stats,      \* [Station -> [sent, recv]]  TrafficStats returned by Exchange
    closed,     \* [Station -> BOOLEAN]  the station closed its connection
    ended       \* End of the session was observed

pvars == <<owner, pol, prec, sentEver, storedEver>>
svars == <<master, faulted, offered, hans, fans, block, open, await, owe, reqoff, framed, stored,
           repSent, repRej, repDef, sid, hsdone, turn, quit, cmsq, lastEmpty, ret, stats, closed, ended>>
vars  == <<pvars, svars>>

Empty   == [x \in {} |-> 0]
Get(f, k, d) == IF k \in DOMAIN f THEN f[k] ELSE d
Put(f, k, v) == [x \in DOMAIN f \cup {k} |-> IF x = k THEN v ELSE f[x]]
Range(q)     == {q[i] : i \in DOMAIN q}
Count(q, x)  == Cardinality({i \in DOMAIN q : q[i] = x})
SeqSet(q)    == {q[i] : i \in 1..Len(q)}

SessionInit(m) ==
    /\ master = m /\ faulted = FALSE
    /\ offered = [s \in Station |-> {}]
    /\ hans = [s \in Station |-> Empty] /\ fans = [s \in Station |-> Empty]
    /\ block = [s \in Station |-> <<>>] /\ open = [s \in Station |-> FALSE]
    /\ await = "none" /\ owe = [s \in Station |-> <<>>] /\ reqoff = Empty
    /\ framed = [s \in Station |-> {}] /\ stored = [s \in Station |-> <<>>]
    /\ repSent = [s \in Station |-> {}] /\ repRej = [s \in Station |-> {}] /\ repDef = [s \in Station |-> {}]
    /\ sid = [s \in Station |-> FALSE] /\ hsdone = [s \in Station |-> FALSE]
    /\ turn = "none" /\ quit = FALSE /\ cmsq = "none" /\ lastEmpty = [s \in Station |-> FALSE]
    /\ ret = [s \in Station |-> "run"] /\ stats = [s \in Station |-> [sent |-> {}, recv |-> {}]]
    /\ closed = [s \in Station |-> FALSE] /\ ended = FALSE

SessionReset(m, f) ==
    /\ master' = m /\ faulted' = f
    /\ offered' = [s \in Station |-> {}]
    /\ hans' = [s \in Station |-> Empty] /\ fans' = [s \in Station |-> Empty]
    /\ block' = [s \in Station |-> <<>>] /\ open' = [s \in Station |-> FALSE]
    /\ await' = "none" /\ owe' = [s \in Station |-> <<>>] /\ reqoff' = Empty
    /\ framed' = [s \in Station |-> {}] /\ stored' = [s \in Station |-> <<>>]
    /\ repSent' = [s \in Station |-> {}] /\ repRej' = [s \in Station |-> {}] /\ repDef' = [s \in Station |-> {}]
    /\ sid' = [s \in Station |-> FALSE] /\ hsdone' = [s \in Station |-> FALSE]
    /\ turn' = "none" /\ quit' = FALSE /\ cmsq' = "none" /\ lastEmpty' = [s \in Station |-> FALSE]
    /\ ret' = [s \in Station |-> "run"] /\ stats' = [s \in Station |-> [sent |-> {}, recv |-> {}]]
    /\ closed' = [s \in Station |-> FALSE] /\ ended' = FALSE

Init ==
    /\ owner = Empty /\ pol = Empty /\ prec = Empty
    /\ sentEver = [s \in Station |-> {}] /\ storedEver = [s \in Station |-> <<>>]
    /\ SessionInit("A")

-----------------------------------------------------------------------------
(* Scenario events *)

Queue(s, m, p, pr) ==
    /\ m \notin DOMAIN owner
    /\ owner' = Put(owner, m, s) /\ pol' = Put(pol, m, p) /\ prec' = Put(prec, m, pr)
    /\ UNCHANGED <<sentEver, storedEver, svars>>

NewSession(m, f) ==                      \* a new pair of Exchange calls on the same mailboxes
    /\ SessionReset(m, f)
    /\ UNCHANGED pvars

Fault ==                                  \* link cut observed
    /\ faulted' = TRUE
    /\ UNCHANGED <<pvars, master, offered, hans, fans, block, open, await, owe, reqoff, framed, stored,
                   repSent, repRej, repDef, sid, hsdone, turn, quit, cmsq, lastEmpty, ret, stats, closed, ended>>

-----------------------------------------------------------------------------
(* Handler events: the substance of C01 / C02 / C04 *)

Pending(s) == {m \in DOMAIN owner : owner[m] = s /\ m \notin sentEver[s]}

Offer(s, ms) ==                           \* GetOutbound returned ms (any number of calls, any time)
    /\ ret[s] = "run"
    /\ offered' = [offered EXCEPT ![s] = @ \cup ms]
    /\ UNCHANGED <<pvars, master, faulted, hans, fans, block, open, await, owe, reqoff, framed, stored,
                   repSent, repRej, repDef, sid, hsdone, turn, quit, cmsq, lastEmpty, ret, stats, closed, ended>>

HAnswer(r, m, a) ==                       \* r's handler answered a for proposal m
    /\ ret[r] = "run"
    /\ m \in DOMAIN owner /\ owner[m] = Peer(r)
    /\ hans' = [hans EXCEPT ![r] = Put(@, m, a)]
    /\ UNCHANGED <<pvars, master, faulted, offered, fans, block, open, await, owe, reqoff, framed, stored,
                   repSent, repRej, repDef, sid, hsdone, turn, quit, cmsq, lastEmpty, ret, stats, closed, ended>>

(* ProcessInbound(m) was called on r's handler.                                                   *)
(*   - only for a proposal r accepted in this session, and at most once per session        (C01)  *)
(*   - only with content byte-identical to what the sender queued                  (C01, C02, C04) *)
(* err: the handler reported a storage failure (injected); then the message does not count as stored. *)
Store(r, m, intact, err) ==
    /\ ret[r] = "run"
    /\ Get(fans[r], m, "?") = "+"
    /\ intact
    /\ m \notin SeqSet(stored[r])
    /\ IF err
         THEN /\ faulted' = TRUE /\ UNCHANGED <<stored, storedEver>>
         ELSE /\ stored' = [stored EXCEPT ![r] = Append(@, m)]
              /\ storedEver' = [storedEver EXCEPT ![r] = Append(@, m)]
              /\ UNCHANGED faulted
    /\ UNCHANGED <<owner, pol, prec, sentEver, master, offered, hans, fans, block, open, await, owe, reqoff, framed,
                   repSent, repRej, repDef, sid, hsdone, turn, quit, cmsq, lastEmpty, ret, stats, closed, ended>>

(* SetSent(m, rejected) was called on s's handler.                                               *)
(*   rejected:  the peer answered "already received" for m in this session and m was not transferred *)
(*   otherwise: the peer's handler has completely received m in this session         (C02 heart) *)
SetSent(s, m, rej) ==
    /\ ret[s] = "run"
    /\ m \in offered[s]
    /\ m \notin repSent[s] \cup repRej[s]
    /\ IF rej
         THEN /\ Get(fans[Peer(s)], m, "?") = "-"
              /\ m \notin framed[s]
              /\ repRej' = [repRej EXCEPT ![s] = @ \cup {m}] /\ UNCHANGED repSent
         ELSE /\ m \in SeqSet(stored[Peer(s)])
              /\ repSent' = [repSent EXCEPT ![s] = @ \cup {m}] /\ UNCHANGED repRej
    /\ sentEver' = [sentEver EXCEPT ![s] = @ \cup {m}]
    /\ UNCHANGED <<owner, pol, prec, storedEver, master, faulted, offered, hans, fans, block, open, await, owe, reqoff,
                   framed, stored, repDef, sid, hsdone, turn, quit, cmsq, lastEmpty, ret, stats, closed, ended>>

SetDeferred(s, m) ==
    /\ ret[s] = "run"
    /\ m \in offered[s]
    /\ Get(fans[Peer(s)], m, "?") = "="
    /\ m \notin repSent[s] \cup repRej[s]
    /\ repDef' = [repDef EXCEPT ![s] = @ \cup {m}]
    /\ UNCHANGED <<pvars, master, faulted, offered, hans, fans, block, open, await, owe, reqoff, framed, stored,
                   repSent, repRej, sid, hsdone, turn, quit, cmsq, lastEmpty, ret, stats, closed, ended>>

-----------------------------------------------------------------------------
(* Wire units: the protocol as the independent judge reads it (C05, and the  *)
(* block-shape / turn-taking half of C01).  Units are complete when written. *)

UnchangedButWire ==
    UNCHANGED <<pvars, master, faulted, offered, hans, stored, repSent, repRej, repDef, ret, stats, closed, ended>>

Slave == Peer(master)

(* handshake lines: MOTD text, ;FW, SID, ;PQ, ;PR, comments.  The master speaks first; its last line is a      *)
(* prompt (ends in ">"); the slave answers with lines that are not prompts and then has the first turn.        *)
HsLine(s, kind, prompt) ==
    /\ ~hsdone[s] /\ turn = "none" /\ ~quit
    /\ s = Slave => hsdone[master]            \* the slave answers the master's prompt
    /\ kind \in {"Text", "Fw", "Sid", "Pq", "Pr", "Comment", "Pm"}
    /\ kind = "Text" => s = master            \* only the master sends free text (MOTD, prompts)
    /\ kind = "Pr" => s = Slave
    /\ prompt => s = master /\ sid[s]         \* the prompt closes the master's handshake, after its SID
    /\ sid' = [sid EXCEPT ![s] = @ \/ kind = "Sid"]
    /\ hsdone' = [hsdone EXCEPT ![s] = prompt]
    /\ UNCHANGED <<fans, block, open, await, owe, reqoff, framed, turn, quit, cmsq, lastEmpty>>
    /\ UnchangedButWire

SidOK(b2, f, dollarLast) == b2 /\ f /\ dollarLast

(* the first command of the slave ends its handshake and takes the first turn *)
CanCommand(s) ==
    /\ ~quit /\ await = "none" /\ owe["A"] = <<>> /\ owe["B"] = <<>>
    /\ \/ turn = s
       \/ turn = "none" /\ s = Slave /\ hsdone[master] /\ sid[s]

(* lexicographic (precedence, compressed size) order; equal keys may come in any order *)
Before(p, q) == \/ prec[p.mid] < prec[q.mid]
                \/ prec[p.mid] = prec[q.mid] /\ p.csize <= q.csize

Prop(s, m, size, csize, code) ==
    /\ CanCommand(s)
    /\ m \in offered[s]                        \* only messages the handler offered
    /\ m \notin sentEver[s]
    /\ IF open[s] THEN Len(block[s]) < MaxBlock /\ Before(block[s][Len(block[s])], [mid |-> m, csize |-> csize])
                  ELSE TRUE
    /\ block' = [block EXCEPT ![s] = IF open[s] THEN Append(@, [mid |-> m, csize |-> csize, size |-> size, code |-> code])
                                                ELSE <<[mid |-> m, csize |-> csize, size |-> size, code |-> code]>>]
    /\ open' = [open EXCEPT ![s] = TRUE]
    /\ turn' = s /\ hsdone' = [hsdone EXCEPT ![s] = TRUE]
    /\ UNCHANGED <<sid, fans, await, owe, reqoff, framed, quit, cmsq, lastEmpty>>
    /\ UnchangedButWire

EndBlock(s, count, sumOK) ==
    /\ CanCommand(s) /\ open[s]
    /\ count = Len(block[s]) /\ sumOK
    /\ open' = [open EXCEPT ![s] = FALSE]
    /\ await' = Peer(s)
    /\ lastEmpty' = [lastEmpty EXCEPT ![s] = FALSE]
    /\ UNCHANGED <<sid, hsdone, fans, block, owe, reqoff, framed, turn, quit, cmsq>>
    /\ UnchangedButWire

(* one answer per proposal; answers on the wire are the handler's, except that a duplicate MID within the  *)
(* block or an unsupported proposal may be deferred by the session itself                                    *)
Fs(r, answers, offsets) ==
    /\ await = r /\ ~quit
    /\ LET b == block[Peer(r)] IN
       /\ Len(answers) = Len(b)
       /\ \A i \in 1..Len(b) : answers[i] \in {"+", "-", "="}
       /\ \A i \in 1..Len(b) :
            \/ answers[i] = Get(hans[r], b[i].mid, "?")
            \/ answers[i] = "=" /\ \E j \in 1..(i-1) : b[j].mid = b[i].mid
            \/ answers[i] = "=" /\ b[i].mid \notin DOMAIN hans[r]     \* no handler / unsupported proposal code
       /\ fans' = [fans EXCEPT ![r] = [m \in DOMAIN @ \cup {b[i].mid : i \in 1..Len(b)} |->
                        IF \E i \in 1..Len(b) : b[i].mid = m
                          THEN answers[CHOOSE i \in 1..Len(b) : b[i].mid = m /\ \A j \in 1..(i-1) : b[j].mid # m]
                          ELSE @[m]]]
       /\ owe' = [owe EXCEPT ![Peer(r)] = LET idx == {i \in 1..Len(b) : answers[i] = "+"}
                                           IN [k \in 1..Cardinality(idx) |->
                                                 b[CHOOSE i \in idx : Cardinality({j \in idx : j < i}) = k - 1].mid]]
       /\ reqoff' = [m \in DOMAIN reqoff \cup {b[i].mid : i \in 1..Len(b)} |->
                        IF \E i \in 1..Len(b) : b[i].mid = m /\ answers[i] = "+"
                          THEN offsets[CHOOSE i \in 1..Len(b) : b[i].mid = m /\ answers[i] = "+"]
                          ELSE Get(reqoff, m, 0)]
       /\ turn' = IF \E i \in 1..Len(b) : answers[i] = "+" THEN Peer(r) ELSE r
    /\ await' = "none"
    /\ UNCHANGED <<sid, hsdone, block, open, framed, quit, cmsq, lastEmpty>>
    /\ UnchangedButWire

(* a complete message transfer SOH..EOT; the arithmetic was checked by the lexer *)
FrameOK(f, p, off) ==
    /\ f.hdrOK /\ f.sumOK
    /\ p.code = "C" => f.crcOK              \* LZHUF payload: CRC-16 + size header (a gzip payload has its own trailer)
    /\ f.offset = off
    /\ f.nbytes = p.csize - off
    /\ (off = 0 /\ p.code = "C") => f.usize = p.size
    /\ f.maxchunk <= 256 /\ f.nchunks >= 1

Frame(s, f) ==
    /\ owe[s] # <<>> /\ ~quit
    /\ LET m == Head(owe[s])
           p == block[s][CHOOSE i \in 1..Len(block[s]) : block[s][i].mid = m]
       IN /\ FrameOK(f, p, Get(reqoff, m, 0))
          /\ framed' = [framed EXCEPT ![s] = @ \cup {m}]
    /\ owe' = [owe EXCEPT ![s] = Tail(@)]
    /\ turn' = IF Len(owe[s]) = 1 THEN Peer(s) ELSE turn
    /\ UNCHANGED <<sid, hsdone, fans, block, open, await, reqoff, quit, cmsq, lastEmpty>>
    /\ UnchangedButWire

FF(s) ==
    /\ CanCommand(s) /\ ~open[s]
    /\ turn' = Peer(s) /\ hsdone' = [hsdone EXCEPT ![s] = TRUE]
    /\ lastEmpty' = [lastEmpty EXCEPT ![s] = TRUE]
    /\ UNCHANGED <<sid, fans, block, open, await, owe, reqoff, framed, quit, cmsq>>
    /\ UnchangedButWire

(* The station's own block is finished (answered, accepted messages transferred) and the other station has not begun   *)
(* its turn.  What Winlink's CMS does here when it has nothing more to send (fbb/wl2k_test.go, TestSessionCMS...):      *)
(* instead of waiting for the other station's turn it says FQ and hangs up.  The scripted peer announces it (the        *)
(* library never does); the other station's FF may cross the FQ on the wire.                                            *)
OwnBlockDone(s) ==
    /\ ~quit /\ await = "none" /\ owe["A"] = <<>> /\ owe["B"] = <<>>
    /\ ~open[s] /\ block[s] # <<>>
    /\ \/ turn = Peer(s) /\ ~open[Peer(s)] /\ ~lastEmpty[s]
       \/ turn = s                            \* the other station's FF is already on the wire: an ordinary FQ
CmsIntent(s) ==
    /\ OwnBlockDone(s) /\ cmsq = "none"
    /\ cmsq' = s
    /\ UNCHANGED <<sid, hsdone, fans, block, open, await, owe, reqoff, framed, turn, quit, lastEmpty>>
    /\ UnchangedButWire

FQ(s) ==
    /\ \/ CanCommand(s)
       \/ cmsq = s /\ OwnBlockDone(s)
    /\ ~open[s]
    /\ quit' = TRUE /\ hsdone' = [hsdone EXCEPT ![s] = TRUE]
    /\ UNCHANGED <<sid, fans, block, open, await, owe, reqoff, framed, turn, lastEmpty, cmsq>>
    /\ UnchangedButWire

(* the FF of a station that has nothing to send, written before it has read the CMS-style FQ *)
StaleFF(s) ==
    /\ quit /\ cmsq = Peer(s) /\ turn = s /\ ~open[s]
    /\ UNCHANGED <<sid, hsdone, fans, block, open, await, owe, reqoff, framed, turn, quit, cmsq, lastEmpty>>
    /\ UnchangedButWire

(* comment and ;PM lines may appear between commands; an error line "*** ..." only in a faulted session *)
Chatter(s, kind) ==
    /\ \/ kind \in {"Comment", "Pm"} /\ (hsdone[s] \/ turn # "none")
       \/ kind = "Err" /\ faulted
    /\ UNCHANGED <<sid, hsdone, fans, block, open, await, owe, reqoff, framed, turn, quit, cmsq, lastEmpty>>
    /\ UnchangedButWire

-----------------------------------------------------------------------------
(* Session end *)

Return(s, r, st) ==
    /\ ret[s] = "run"
    /\ ret' = [ret EXCEPT ![s] = r]
    /\ stats' = [stats EXCEPT ![s] = st]
    /\ r = "panic" => FALSE                   \* a panic is never a behaviour
    /\ UNCHANGED <<pvars, master, faulted, offered, hans, fans, block, open, await, owe, reqoff, framed, stored,
                   repSent, repRej, repDef, sid, hsdone, turn, quit, cmsq, lastEmpty, closed, ended>>

Close(s) ==
    /\ closed' = [closed EXCEPT ![s] = TRUE]
    /\ UNCHANGED <<pvars, master, faulted, offered, hans, fans, block, open, await, owe, reqoff, framed, stored,
                   repSent, repRej, repDef, sid, hsdone, turn, quit, cmsq, lastEmpty, ret, stats, ended>>

(* what a *completed* exchange must have achieved (C01) *)
CompleteExchange ==
    /\ \A s \in Station : ret[s] = "nil"
    /\ quit
    /\ \A s \in Station : \A m \in Pending(s) \cup repSent[s] \cup repRej[s] :
         owner[m] = s =>
           LET a == Get(hans[Peer(s)], m, "?") IN
           CASE a = "+" -> /\ Count(stored[Peer(s)], m) = 1
                           \* a station that quit CMS-style did not wait for the confirmation of its last block
                           /\ m \in repSent[s] \/ (cmsq = s /\ \E i \in 1..Len(block[s]) : block[s][i].mid = m)
             [] a = "-" -> m \in repRej[s] /\ m \notin framed[s]
             [] a = "=" -> m \in repDef[s] /\ m \notin repSent[s] \cup repRej[s] /\ m \notin framed[s]
             [] OTHER   -> FALSE             \* every queued message was proposed and answered
    /\ \A s \in Station :                    \* nothing is stored that was not accepted and sent
         /\ SeqSet(stored[s]) \subseteq {m \in DOMAIN hans[s] : hans[s][m] = "+"}
         /\ stats[s].sent = repSent[s]       \* traffic statistics list exactly the transferred MIDs
         /\ stats[s].recv = SeqSet(stored[s])

End(timedout, pendA, pendB) ==
    /\ ~ended /\ ended' = TRUE
    /\ ~timedout                              \* both Exchange calls returned in bounded time
    /\ \A s \in Station : ret[s] # "run" /\ closed[s]
    /\ ~faulted => CompleteExchange /\ pendA = 0 /\ pendB = 0
    /\ UNCHANGED <<pvars, master, faulted, offered, hans, fans, block, open, await, owe, reqoff, framed, stored,
                   repSent, repRej, repDef, sid, hsdone, turn, quit, cmsq, lastEmpty, ret, stats, closed>>

(* after the last (clean) session of a sequence: everything delivered exactly once and reported (C02) *)
EndAll ==
    /\ ended
    /\ \A m \in DOMAIN owner :
         pol[m] \in {"+", "dedup", "once="} =>
            /\ Count(storedEver[Peer(owner[m])], m) = 1
            /\ m \in sentEver[owner[m]]
    /\ UNCHANGED vars

-----------------------------------------------------------------------------
(* Invariants, evaluated in every state of every validated trace and of the mechanism's refinement *)

NoFalseSent ==        \* C02: reported as successfully sent only if the peer's handler completely received it
    \A s \in Station : repSent[s] \subseteq SeqSet(storedEver[Peer(s)])
AtMostOncePerSession == \A s \in Station : \A m \in SeqSet(stored[s]) : Count(stored[s], m) = 1
RejectNotTransferred == \A s \in Station : repRej[s] \cap framed[s] = {}
DeferredStaysPending == \A s \in Station : repDef[s] \cap (repSent[s] \cup repRej[s]) = {}
BlockBound == \A s \in Station : Len(block[s]) <= MaxBlock
DedupExactlyOnce ==   \* with duplicate-suppressing handlers nothing is ever stored twice
    \A s \in Station : \A m \in SeqSet(storedEver[s]) : pol[m] \in {"dedup", "once="} => Count(storedEver[s], m) = 1
=============================================================================
