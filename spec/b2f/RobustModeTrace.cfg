SPECIFICATION TraceSpec
CONSTANTS Modes = {"auto", "forced", "disabled", "none"}  MaxTurns = 1000  Deviation = "none"
INVARIANTS RobustInv UnitInv CallBound
POSTCONDITION TraceAccepted
CHECK_DEADLOCK FALSE
