SPECIFICATION Spec
CONSTANTS Modes = {"auto", "forced"}  MaxTurns = 2  Deviation = "offForAnswers"
INVARIANTS TypeOK UnitInv
CONSTRAINT Bounded
CHECK_DEADLOCK FALSE
