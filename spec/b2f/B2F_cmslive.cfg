SPECIFICATION FairSpec
CONSTANTS MidA = {"a1", "a2"}  MidB = {"b1"}  Policies = {"+", "="}  MaxBlock = 2  MaxSessions = 2  MaxFaults = 0  Deviations = {"CmsQuit"}
PROPERTIES Termination
CHECK_DEADLOCK FALSE
