SPECIFICATION Spec
CONSTANTS MidA = {"a1", "a2", "a3"}  MidB = {"b1", "b2"}  Policies = {"+", "="}  MaxBlock = 2  MaxSessions = 4  MaxFaults = 3  Deviations = {}
INVARIANTS TypeOK NoFalseSent NoFalseReject Conservation ExactlyOnce OnlyPeersMessages BlockBound CompleteExchange
CHECK_DEADLOCK FALSE
