------------------------------ MODULE B2FTrace ------------------------------
(* Mechanism trace validation: B2F.tla driven by recorded executions of two    *)
(* real fbb.Session objects (the traces of C01 and C02, projected by           *)
(* checks/b2fmech.py: messages renamed a1, a2, ... / b1, b2, ... in the order   *)
(* in which each station first proposed them, wire units and handler calls      *)
(* mapped to the events below).                                                 *)
(*                                                                           *)
(* Logged steps          model action                                          *)
(*   Block s ms          Propose(s), the block being exactly ms (the event      *)
(*                       stands where the first proposal line was written)      *)
(*   FF s / FQ s         NoOutbound(s) (FQ iff the peer's last turn was empty)  *)
(*   FS s a              RecvBlock(s), the answers being exactly a              *)
(*   Def s m             m was deferred by the FS just processed                *)
(*   Frame s m           SendFrame(s), m being the next accepted proposal       *)
(*   Rej s m             ReportRejected(s) (first of a batch)                   *)
(*   Sent s m            ReportSent(s, m) - only after Confirm                  *)
(*   Store s m err       StoreOK(s) / StoreFail(s)                              *)
(*   Ret s res           Exchange returned: the station is in a terminal state  *)
(*   Cut                 Cut (which units each side still receives is inferred) *)
(* Steps the code does not show at its boundary - processing the FS line, the   *)
(* peek that confirms a block, taking FF / FQ, noticing end-of-stream or an     *)
(* unexpected unit - are inferred by TLC as silent steps.  After a Cut, what a  *)
(* station still writes goes nowhere; such writes may or may not have happened  *)
(* (a write error ends them early), so every station step is also allowed       *)
(* silently once the link is cut.                                               *)
EXTENDS B2F, TraceLib

TrMidA == {"a" \o ToString(i) : i \in 1..16}
TrMidB == {"b" \o ToString(i) : i \in 1..16}
TraceRank == [m \in MID |-> CHOOSE i \in 1..99 : m \in {"a" \o ToString(i), "b" \o ToString(i)}]

Meta == Traces[t]
SetOf(q) == {q[i] : i \in 1..Len(q)}

TraceInit ==
    /\ TraceInitTL
    /\ outbox = [s \in Station |-> IF s = "A" THEN SetOf(Meta.qa) ELSE SetOf(Meta.qb)]
    /\ sentOK = [s \in Station |-> {}] /\ sentRej = [s \in Station |-> {}]
    /\ inbox = [s \in Station |-> [m \in MID |-> 0]]
    /\ master = Meta.ev[1].master /\ session = 1 /\ faults = 0
    /\ Policy = [m \in MID |-> IF m \in DOMAIN Meta.pol THEN Meta.pol[m] ELSE "+"]
    /\ pc = [s \in Station |-> IF s = master THEN "recv" ELSE "turn"]
    /\ blk = [s \in Station |-> <<>>] /\ toSend = [s \in Station |-> <<>>] /\ written = [s \in Station |-> {}]
    /\ rejNow = [s \in Station |-> {}] /\ deferred = [s \in Station |-> {}] /\ toRecv = [s \in Station |-> <<>>]
    /\ noMsgs = [s \in Station |-> FALSE] /\ wire = [s \in Station |-> <<>>] /\ link = "up" /\ cms = "none"

Last(q) == q[Len(q)]

TSession == /\ IsEvent("Session")
            /\ IF l = 1 THEN UNCHANGED vars ELSE NextSession /\ master' = Ev.master
            /\ Consume
TFF    == IsEvent("FF") /\ ~noMsgs[Ev.s] /\ NoOutbound(Ev.s) /\ Consume
TFQ    == IsEvent("FQ") /\ noMsgs[Ev.s] /\ NoOutbound(Ev.s) /\ Consume
IsPrefixOf(p, q) == Len(p) <= Len(q) /\ SubSeq(q, 1, Len(p)) = p
TBlock == /\ IsEvent("Block") /\ Propose(Ev.s)
          /\ IF Ev.complete THEN blk'[Ev.s] = Ev.ms ELSE IsPrefixOf(Ev.ms, blk'[Ev.s])   \* a block whose writing was interrupted
          /\ Consume
TFS    == IsEvent("FS") /\ RecvBlock(Ev.s) /\ (link = "up" => Last(wire'[Peer(Ev.s)]).a = Ev.a) /\ Consume
TDef   == IsEvent("Def") /\ Ev.m \in deferred[Ev.s] /\ UNCHANGED vars /\ Consume
TFrame == IsEvent("Frame") /\ toSend[Ev.s] # <<>> /\ Head(toSend[Ev.s]) = Ev.m /\ SendFrame(Ev.s) /\ Consume
TRej   == /\ IsEvent("Rej")
          /\ \/ Ev.m \in rejNow[Ev.s] /\ ReportRejected(Ev.s)
             \/ Ev.m \in sentRej[Ev.s] /\ UNCHANGED vars           \* the others of the same batch
          /\ Consume
TSent  == IsEvent("Sent") /\ ReportSent(Ev.s, Ev.m) /\ Consume
TStore == /\ IsEvent("Store")
          /\ IF Ev.err THEN StoreFail(Ev.s)
                       ELSE toRecv[Ev.s] # <<>> /\ Head(toRecv[Ev.s]) = Ev.m /\ StoreOK(Ev.s)
          /\ Consume
TRet   == /\ IsEvent("Ret") /\ pc[Ev.s] \in Terminal
          /\ (Ev.res = "nil") <=> (pc[Ev.s] = "done")
          /\ UNCHANGED vars /\ Consume
TCut   == IsEvent("Cut") /\ Cut /\ Consume
TErr   == IsEvent("Err") /\ UNCHANGED vars /\ Consume       \* the error echo ("*** ..."): StoreFail has put it on the wire already

TSilent ==
    /\ \E s \in Station :
          \/ RecvFS(s) \/ Confirm(s) \/ ReportDone(s) \/ RecvFF(s) \/ RecvFQ(s) \/ Unexpected(s) \/ ReadEOF(s) \/ WriteFails(s)
          \/ (rejNow[s] = {} /\ ReportRejected(s))                \* nothing was rejected: no handler call to see
          \/ (link = "cut" /\ StationStep(s))
          \/ (pc[Peer(s)] \in Terminal /\ NoOutbound(s))         \* an FF / FQ written to a peer that has gone: its error is ignored
    /\ Silent

TraceNext == TSession \/ TFF \/ TFQ \/ TBlock \/ TFS \/ TDef \/ TFrame \/ TRej \/ TSent \/ TStore \/ TRet \/ TCut \/ TErr \/ TSilent
TraceSpec == TraceInit /\ [][TraceNext]_<<vars, tvars>>
=============================================================================
