SPECIFICATION Spec
CONSTANTS Modes = {"auto"}  MaxTurns = 2  Deviation = "noRestore"
INVARIANTS TypeOK RobustInv
CONSTRAINT Bounded
CHECK_DEADLOCK FALSE
