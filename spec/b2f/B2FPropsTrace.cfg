SPECIFICATION TraceSpec
CONSTANTS MaxBlock = 5
INVARIANTS NoFalseSent AtMostOncePerSession RejectNotTransferred DeferredStaysPending BlockBound DedupExactlyOnce
POSTCONDITION TraceAccepted
CHECK_DEADLOCK FALSE
