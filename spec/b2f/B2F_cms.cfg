SPECIFICATION Spec
CONSTANTS MidA = {"a1", "a2", "a3"}  MidB = {"b1"}  Policies = {"+", "-", "="}  MaxBlock = 2  MaxSessions = 2  MaxFaults = 1  Deviations = {"CmsQuit"}
INVARIANTS TypeOK NoFalseSent NoFalseReject Conservation ExactlyOnce OnlyPeersMessages BlockBound CompleteExchange QuitIsClean
CHECK_DEADLOCK FALSE
