SPECIFICATION Spec
CONSTANTS MaxDepth = 6  MaxBad = 1  MaxDec = 1
INVARIANTS OnlyPermittedOutcomes EmitPlan
CHECK_DEADLOCK FALSE
