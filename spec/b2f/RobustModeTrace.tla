-------------------------- MODULE RobustModeTrace --------------------------
(* Code -> spec binding of RobustMode.tla.  One trace = one station of one  *)
(* real two-station session whose connection records every SetRobust call   *)
(* (value, and the number of bytes of an incomplete protocol unit the       *)
(* station had written at that moment) among the station's own wire units   *)
(* and the return of Exchange.  Region boundaries that make no call in the  *)
(* station's mode are silent steps.                                         *)
EXTENDS RobustMode, TraceLib

TraceInit == /\ TraceInitTL
             /\ mode = Traces[t].mode
             /\ phase = "idle" /\ robust = FALSE /\ calls = 0 /\ turns = 0
             /\ unit = [kind |-> "none", robust |-> FALSE]

Calling == calls' = calls + 1
Quiet   == calls' = calls

TRobust == /\ IsEvent("Robust")
           /\ \/ Enter /\ Ev.pend = 0
              \/ BeginXfer /\ Ev.pend = 0      \* the switch happens at a unit boundary, before the first message byte
              \/ EndXfer /\ (Traces[t].cut \/ Ev.pend = 0)   \* on a link that is not cut every call stands at a unit boundary
              \/ Leave /\ (Traces[t].cut \/ Ev.pend = 0)
           /\ Calling
           /\ robust' = Ev.on
           /\ Consume

TUnit == /\ IsEvent("Unit")
         /\ IF Ev.kind = "Frame" THEN Frame ELSE Talk
         /\ Consume

TRet == /\ IsEvent("Ret")
        /\ phase = "done"
        /\ UNCHANGED vars
        /\ Consume

(* region boundaries that make no call in the station's mode: taken only where the next event needs them, so that the  *)
(* silent steps are bounded by the trace                                                                                 *)
NextIsFrame == HasEvent /\ Ev.op = "Unit" /\ Ev.kind = "Frame"
TSilent == /\ \/ EarlyReturn /\ IsEvent("Ret")
              \/ Enter /\ IsEvent("Unit")
              \/ BeginXfer /\ NextIsFrame
              \/ EndXfer /\ ~NextIsFrame
              \/ Leave /\ IsEvent("Ret")
           /\ Quiet
           /\ Silent

TraceNext == TRobust \/ TUnit \/ TRet \/ TSilent
TraceSpec == TraceInit /\ [][TraceNext]_<<vars, tvars>>
=============================================================================
