--------------------------------- MODULE B2F ---------------------------------
(* Mechanism model of the B2F session (fbb/wl2k.go, b2f.go): how this          *)
(* implementation achieves C01 / C02, one action per code step, at the          *)
(* granularity of protocol units on the wire.                                    *)
(*                                                                              *)
(* Two stations exchange messages over a duplex link in a sequence of sessions   *)
(* on the same two mailboxes.  Per session the slave moves first; a turn is      *)
(* either a proposal block (<= MaxBlock proposals), the peer's FS answer, the    *)
(* framed transfers of the accepted ones, and the *confirmation* - the sender    *)
(* reports messages as sent only after it has seen the first unit of the peer's  *)
(* next turn (b2f.go:87, Peek) -, or FF / FQ.  The receiver stores each message  *)
(* (ProcessInbound) before it reads on.                                          *)
(* Environment: the link may be Cut at any moment (each direction keeps a prefix *)
(* of the units in flight, later sends vanish, readers see EOF when their queue  *)
(* is empty) and a Store may fail (the receiver then echoes an error and quits). *)
(*                                                                              *)
(* The named deviation ReportBeforeConfirm (SetSent right after writing, before  *)
(* the peek) is what a careless refactoring would do; it is disabled in the      *)
(* property configuration and enabled in B2F_deviation.cfg, where TLC produces   *)
(* the counterexample to NoFalseSent.                                            *)
(*                                                                              *)
(* CmsQuit is a deviation of the *other* station from turn-taking that Winlink's *)
(* CMS practises (fbb/wl2k_test.go): when its block is done and it has nothing   *)
(* more, it says FQ and hangs up without waiting for the turn-over.  The code    *)
(* copes because the write error of its own pointless FF / FQ line is ignored    *)
(* (b2f.go, handleOutbound); FFWriteErrorFatal is the deviation that does not    *)
(* ignore it: B2F_cms.cfg checks QuitIsClean with the first, B2F_cmsfatal.cfg    *)
(* must violate it with both.                                                    *)
EXTENDS Naturals, Sequences, FiniteSets, TLC

CONSTANTS MidA, MidB,       \* message identifiers queued at station A / B
          Policies,         \* answers a receiving handler may be configured to give to a first-time proposal: subset of {"+", "-", "="}
          MaxBlock,         \* proposals per block
          MaxSessions,
          MaxFaults,        \* Cut + StoreFail events over all sessions
          Deviations        \* subset of {"ReportBeforeConfirm", "CmsQuit", "FFWriteErrorFatal"}

Station == {"A", "B"}
Peer(s) == IF s = "A" THEN "B" ELSE "A"
MID     == MidA \cup MidB
Owned(s) == IF s = "A" THEN MidA ELSE MidB

(* a fixed proposal order (the code sorts by precedence, size, MID): any total order will do for the model *)
Rank == CHOOSE f \in [MID -> 1..Cardinality(MID)] : \A a, b \in MID : a # b => f[a] # f[b]
RECURSIVE Sorted(_)
Sorted(S) == IF S = {} THEN <<>> ELSE LET m == CHOOSE x \in S : \A y \in S : Rank[x] <= Rank[y] IN <<m>> \o Sorted(S \ {m})
FirstN(q, n) == SubSeq(q, 1, IF Len(q) < n THEN Len(q) ELSE n)
SeqSet(q) == {q[i] : i \in 1..Len(q)}

VARIABLES
    (* persistent mailbox state *)
    outbox, sentOK, sentRej,    \* [Station -> SUBSET MID]
    inbox,                      \* [Station -> [MID -> Nat]]   successful stores (a bag: duplicates are visible)
    (* per session *)
    pc,          \* [Station -> control state]
    blk,         \* [Station -> Seq(MID)]   proposals of the open block
    toSend,      \* [Station -> Seq(MID)]   accepted proposals still to transfer
    written,     \* [Station -> SUBSET MID] transferred, awaiting confirmation
    rejNow,      \* [Station -> SUBSET MID] rejected in this block, to be reported
    deferred,    \* [Station -> SUBSET MID] deferred in this session
    toRecv,      \* [Station -> Seq(MID)]   accepted inbound proposals still to receive
    noMsgs,      \* [Station -> BOOLEAN]    the peer's last turn was empty (remoteNoMsgs)
    wire,        \* [Station -> Seq(unit)]  units in flight TO the station
    link,        \* "up" / "cut"
    master, session, faults,
    cms,         \* "none" or the station that quit CMS-style in this session
    Policy       \* [MID -> Policies], chosen initially (every assignment is explored), constant afterwards

vars == <<outbox, sentOK, sentRej, inbox, pc, blk, toSend, written, rejNow, deferred, toRecv, noMsgs, wire, link, master, session, faults, cms, Policy>>

Terminal == {"done", "failed", "lost"}
Reading  == {"awaitFS", "awaitConfirm", "recv", "receiving"}

SessionStart(m) ==
    /\ pc' = [s \in Station |-> IF s = m THEN "recv" ELSE "turn"]       \* the slave has the first turn
    /\ blk' = [s \in Station |-> <<>>] /\ toSend' = [s \in Station |-> <<>>] /\ written' = [s \in Station |-> {}]
    /\ rejNow' = [s \in Station |-> {}] /\ deferred' = [s \in Station |-> {}] /\ toRecv' = [s \in Station |-> <<>>]
    /\ noMsgs' = [s \in Station |-> FALSE] /\ wire' = [s \in Station |-> <<>>] /\ link' = "up" /\ master' = m /\ cms' = "none"

Init ==
    /\ outbox = [s \in Station |-> Owned(s)] /\ sentOK = [s \in Station |-> {}] /\ sentRej = [s \in Station |-> {}]
    /\ inbox = [s \in Station |-> [m \in MID |-> 0]]
    /\ master \in Station /\ session = 1 /\ faults = 0
    /\ Policy \in [MID -> Policies]
    /\ pc = [s \in Station |-> IF s = master THEN "recv" ELSE "turn"]
    /\ blk = [s \in Station |-> <<>>] /\ toSend = [s \in Station |-> <<>>] /\ written = [s \in Station |-> {}]
    /\ rejNow = [s \in Station |-> {}] /\ deferred = [s \in Station |-> {}] /\ toRecv = [s \in Station |-> <<>>]
    /\ noMsgs = [s \in Station |-> FALSE] /\ wire = [s \in Station |-> <<>>] /\ link = "up" /\ cms = "none"

(* put a unit on the wire towards station r (vanishes when the link is cut) *)
Send(r, u) == wire' = IF link = "up" THEN [wire EXCEPT ![r] = Append(@, u)] ELSE wire
TakeUnit(s) == wire' = [wire EXCEPT ![s] = Tail(@)]

pvars == <<outbox, sentOK, sentRej, inbox, Policy>>

-----------------------------------------------------------------------------
(* our turn *)
NoOutbound(s) ==       \* nothing to propose: FF, or FQ when the peer had nothing either
    /\ pc[s] = "turn" /\ outbox[s] \ deferred[s] = {}
    /\ Send(Peer(s), [k |-> IF noMsgs[s] THEN "FQ" ELSE "FF"])
    /\ pc' = [pc EXCEPT ![s] = IF noMsgs[s] THEN "done" ELSE "recv"]
    /\ UNCHANGED <<pvars, blk, toSend, written, rejNow, deferred, toRecv, noMsgs, link, master, session, faults, cms>>

Propose(s) ==
    /\ pc[s] = "turn" /\ outbox[s] \ deferred[s] # {}
    /\ LET b == FirstN(Sorted(outbox[s] \ deferred[s]), MaxBlock) IN
       /\ blk' = [blk EXCEPT ![s] = b]
       /\ Send(Peer(s), [k |-> "Block", ms |-> b])
    /\ pc' = [pc EXCEPT ![s] = "awaitFS"]
    /\ UNCHANGED <<pvars, toSend, written, rejNow, deferred, toRecv, noMsgs, link, master, session, faults, cms>>

RecvFS(s) ==           \* per answer: SetDeferred at once, note rejects, queue accepted transfers
    /\ pc[s] = "awaitFS" /\ wire[s] # <<>> /\ Head(wire[s]).k = "FS"
    /\ LET a == Head(wire[s]).a
           idx(x) == {i \in 1..Len(blk[s]) : a[i] = x}
       IN /\ deferred' = [deferred EXCEPT ![s] = @ \cup {blk[s][i] : i \in idx("=")}]
          /\ rejNow' = [rejNow EXCEPT ![s] = {blk[s][i] : i \in idx("-")}]
          /\ toSend' = [toSend EXCEPT ![s] = Sorted({blk[s][i] : i \in idx("+")})]
    /\ TakeUnit(s) /\ pc' = [pc EXCEPT ![s] = "sending"]
    /\ UNCHANGED <<pvars, blk, written, toRecv, noMsgs, link, master, session, faults, cms>>

SendFrame(s) ==
    /\ pc[s] = "sending" /\ toSend[s] # <<>>
    /\ LET m == Head(toSend[s]) IN
       /\ Send(Peer(s), [k |-> "Frame", m |-> m])
       /\ written' = [written EXCEPT ![s] = @ \cup {m}]
       (* the named deviation: report as sent as soon as the transfer is written *)
       /\ IF "ReportBeforeConfirm" \in Deviations
            THEN /\ sentOK' = [sentOK EXCEPT ![s] = @ \cup {m}] /\ outbox' = [outbox EXCEPT ![s] = @ \ {m}]
            ELSE UNCHANGED <<sentOK, outbox>>
    /\ toSend' = [toSend EXCEPT ![s] = Tail(@)]
    /\ UNCHANGED <<sentRej, inbox, pc, blk, rejNow, deferred, toRecv, noMsgs, link, master, session, faults, cms, Policy>>

ReportRejected(s) ==   \* after the block was written: rejected ones are reported at once (the peer already has them)
    /\ pc[s] = "sending" /\ toSend[s] = <<>>
    /\ sentRej' = [sentRej EXCEPT ![s] = @ \cup rejNow[s]]
    /\ outbox' = [outbox EXCEPT ![s] = @ \ rejNow[s]]
    /\ rejNow' = [rejNow EXCEPT ![s] = {}]
    /\ pc' = [pc EXCEPT ![s] = "awaitConfirm"]
    /\ UNCHANGED <<sentOK, inbox, blk, toSend, written, deferred, toRecv, noMsgs, wire, link, master, session, faults, cms, Policy>>

CmsQuit(s) ==          \* not this library: a CMS-like station with nothing more to send does not wait for the turn-over
    /\ "CmsQuit" \in Deviations /\ cms = "none"
    /\ pc[s] = "awaitConfirm" /\ outbox[s] \ (deferred[s] \cup written[s]) = {}
    /\ Send(Peer(s), [k |-> "FQ"])
    /\ pc' = [pc EXCEPT ![s] = "done"] /\ cms' = s
    /\ UNCHANGED <<pvars, blk, toSend, written, rejNow, deferred, toRecv, noMsgs, link, master, session, faults>>

Confirm(s) ==          \* Peek: the first unit of the peer's next turn confirms the block; nothing is consumed
    /\ pc[s] = "awaitConfirm" /\ wire[s] # <<>>
    /\ pc' = [pc EXCEPT ![s] = IF Head(wire[s]).k \in {"Block", "FF", "FQ"} THEN "report" ELSE "failed"]
    /\ UNCHANGED <<pvars, blk, toSend, written, rejNow, deferred, toRecv, noMsgs, wire, link, master, session, faults, cms>>

ReportSent(s, m) ==    \* map iteration order: any m
    /\ pc[s] = "report" /\ m \in written[s]
    /\ sentOK' = [sentOK EXCEPT ![s] = @ \cup {m}] /\ outbox' = [outbox EXCEPT ![s] = @ \ {m}]
    /\ written' = [written EXCEPT ![s] = @ \ {m}]
    /\ UNCHANGED <<sentRej, inbox, pc, blk, toSend, rejNow, deferred, toRecv, noMsgs, wire, link, master, session, faults, cms, Policy>>

ReportDone(s) ==
    /\ pc[s] = "report" /\ written[s] = {}
    /\ pc' = [pc EXCEPT ![s] = "recv"]
    /\ UNCHANGED <<pvars, blk, toSend, written, rejNow, deferred, toRecv, noMsgs, wire, link, master, session, faults, cms>>

-----------------------------------------------------------------------------
(* their turn *)
Answer(s, m) == IF inbox[s][m] > 0 THEN "-" ELSE Policy[m]       \* a duplicate-suppressing handler

RecvBlock(s) ==
    /\ pc[s] = "recv" /\ wire[s] # <<>> /\ Head(wire[s]).k = "Block"
    /\ LET b == Head(wire[s]).ms
           a == [i \in 1..Len(b) |-> Answer(s, b[i])]
           acc == Sorted({b[i] : i \in {j \in 1..Len(b) : a[j] = "+"}})
       IN /\ wire' = IF link = "up" THEN [wire EXCEPT ![s] = Tail(@), ![Peer(s)] = Append(@, [k |-> "FS", a |-> a])]
                                    ELSE [wire EXCEPT ![s] = Tail(@)]
          /\ toRecv' = [toRecv EXCEPT ![s] = acc]
          /\ pc' = [pc EXCEPT ![s] = IF acc = <<>> THEN "turn" ELSE "receiving"]
    /\ noMsgs' = [noMsgs EXCEPT ![s] = FALSE]
    /\ UNCHANGED <<pvars, blk, toSend, written, rejNow, deferred, link, master, session, faults, cms>>

StoreOK(s) ==          \* a complete transfer arrived: ProcessInbound, then read on
    /\ pc[s] = "receiving" /\ wire[s] # <<>> /\ Head(wire[s]).k = "Frame" /\ Head(wire[s]).m = Head(toRecv[s])
    /\ inbox' = [inbox EXCEPT ![s][Head(toRecv[s])] = @ + 1]
    /\ toRecv' = [toRecv EXCEPT ![s] = Tail(@)]
    /\ TakeUnit(s)
    /\ pc' = [pc EXCEPT ![s] = IF Len(toRecv[s]) = 1 THEN "turn" ELSE "receiving"]
    /\ UNCHANGED <<outbox, sentOK, sentRej, blk, toSend, written, rejNow, deferred, noMsgs, link, master, session, faults, cms, Policy>>

StoreFail(s) ==        \* the handler reports a storage error: the session echoes it and ends
    /\ faults < MaxFaults
    /\ pc[s] = "receiving" /\ wire[s] # <<>> /\ Head(wire[s]).k = "Frame"
    /\ faults' = faults + 1
    /\ wire' = IF link = "up" THEN [wire EXCEPT ![s] = Tail(@), ![Peer(s)] = Append(@, [k |-> "Err"])] ELSE [wire EXCEPT ![s] = Tail(@)]
    /\ pc' = [pc EXCEPT ![s] = "failed"]
    /\ UNCHANGED <<pvars, blk, toSend, written, rejNow, deferred, toRecv, noMsgs, link, master, session, cms>>

RecvFF(s) ==
    /\ pc[s] = "recv" /\ wire[s] # <<>> /\ Head(wire[s]).k = "FF"
    /\ TakeUnit(s) /\ noMsgs' = [noMsgs EXCEPT ![s] = TRUE] /\ pc' = [pc EXCEPT ![s] = "turn"]
    /\ UNCHANGED <<pvars, blk, toSend, written, rejNow, deferred, toRecv, link, master, session, faults, cms>>

RecvFQ(s) ==
    /\ pc[s] = "recv" /\ wire[s] # <<>> /\ Head(wire[s]).k = "FQ"
    /\ TakeUnit(s) /\ pc' = [pc EXCEPT ![s] = "done"]
    /\ UNCHANGED <<pvars, blk, toSend, written, rejNow, deferred, toRecv, noMsgs, link, master, session, faults, cms>>

Unexpected(s) ==       \* an error line, or a unit that does not belong here: the session fails
    /\ pc[s] \in {"awaitFS", "recv", "receiving"} /\ wire[s] # <<>>
    /\ \/ Head(wire[s]).k = "Err"
       \/ pc[s] = "awaitFS" /\ Head(wire[s]).k # "FS"
       \/ pc[s] = "receiving" /\ Head(wire[s]).k # "Frame"
       \/ pc[s] = "recv" /\ Head(wire[s]).k \in {"FS", "Frame"}
    /\ pc' = [pc EXCEPT ![s] = "failed"]
    /\ UNCHANGED <<pvars, blk, toSend, written, rejNow, deferred, toRecv, noMsgs, wire, link, master, session, faults, cms>>

ReadEOF(s) ==          \* nothing left to read and the link is gone or the peer has closed: ErrConnLost
    /\ pc[s] \in Reading /\ wire[s] = <<>>
    /\ link = "cut" \/ pc[Peer(s)] \in Terminal
    /\ pc' = [pc EXCEPT ![s] = "lost"]
    /\ UNCHANGED <<pvars, blk, toSend, written, rejNow, deferred, toRecv, noMsgs, wire, link, master, session, faults, cms>>

WriteFails(s) ==       \* a write on a link that is gone, or to a peer that has closed its connection, may fail
    /\ \/ pc[s] = "sending"
       \/ pc[s] = "turn" /\ outbox[s] \ deferred[s] # {}
       \* the error of writing the FF / FQ of an empty turn is ignored (the session reads on and finds EOF or the peer's FQ)
       \/ pc[s] = "turn" /\ "FFWriteErrorFatal" \in Deviations
    /\ link = "cut" \/ pc[Peer(s)] \in Terminal
    /\ pc' = [pc EXCEPT ![s] = "lost"]
    /\ UNCHANGED <<pvars, blk, toSend, written, rejNow, deferred, toRecv, noMsgs, wire, link, master, session, faults, cms>>

-----------------------------------------------------------------------------
(* environment *)
Cut ==
    /\ link = "up" /\ faults < MaxFaults /\ \E s \in Station : pc[s] \notin Terminal
    /\ link' = "cut" /\ faults' = faults + 1
    /\ \E ka \in 0..Len(wire["A"]), kb \in 0..Len(wire["B"]) :
          wire' = [s \in Station |-> SubSeq(wire[s], 1, IF s = "A" THEN ka ELSE kb)]     \* each receiver gets a prefix
    /\ UNCHANGED <<pvars, pc, blk, toSend, written, rejNow, deferred, toRecv, noMsgs, master, session, cms>>

NextSession ==
    /\ \A s \in Station : pc[s] \in Terminal
    /\ session < MaxSessions
    /\ session' = session + 1
    /\ \E m \in Station : SessionStart(m)
    /\ UNCHANGED <<pvars, faults>>

StationStep(s) ==
    \/ NoOutbound(s) \/ Propose(s) \/ RecvFS(s) \/ SendFrame(s) \/ ReportRejected(s) \/ Confirm(s) \/ CmsQuit(s)
    \/ (\E m \in MID : ReportSent(s, m)) \/ ReportDone(s)
    \/ RecvBlock(s) \/ StoreOK(s) \/ RecvFF(s) \/ RecvFQ(s) \/ Unexpected(s) \/ ReadEOF(s) \/ WriteFails(s)

Next == (\E s \in Station : StationStep(s) \/ StoreFail(s)) \/ Cut \/ NextSession

Spec == Init /\ [][Next]_vars
FairSpec == Spec /\ \A s \in Station : WF_vars(StationStep(s)) /\ WF_vars(NextSession)

-----------------------------------------------------------------------------
(* properties *)
TypeOK == /\ \A s \in Station : outbox[s] \subseteq MID /\ sentOK[s] \subseteq MID /\ sentRej[s] \subseteq MID
          /\ link \in {"up", "cut"} /\ session \in 1..MaxSessions /\ faults \in 0..MaxFaults

(* C02, the heart: reported as successfully sent only if the peer's handler completely received it *)
NoFalseSent == \A s \in Station : \A m \in sentOK[s] : inbox[Peer(s)][m] > 0
(* reported as "already received" only if the peer really has it *)
NoFalseReject == \A s \in Station : \A m \in sentRej[s] : inbox[Peer(s)][m] > 0 \/ Policy[m] = "-"
(* every queued message is in exactly one of outbox, sent *)
Conservation == \A s \in Station : /\ outbox[s] \cup sentOK[s] \cup sentRej[s] = Owned(s)
                                   /\ outbox[s] \cap (sentOK[s] \cup sentRej[s]) = {}
(* duplicate-suppressing handlers: nothing is ever stored twice, over any number of faulty sessions *)
ExactlyOnce == \A s \in Station : \A m \in MID : inbox[s][m] <= 1
(* only own messages travel, only to the peer *)
OnlyPeersMessages == \A s \in Station : \A m \in MID : inbox[s][m] > 0 => m \in Owned(Peer(s))
BlockBound == \A s \in Station : Len(blk[s]) <= MaxBlock
(* a completed exchange (both ended by FF/FQ, no fault in this session) has delivered everything acceptable *)
CompleteExchange ==
    ((\A s \in Station : pc[s] = "done") /\ cms = "none") =>       \* (a CMS-style quit leaves the quitter's last block unconfirmed)
        \A s \in Station : \A m \in Owned(s) :
            CASE Policy[m] = "+" -> m \in sentOK[s] \cup sentRej[s] /\ inbox[Peer(s)][m] = 1
              [] Policy[m] = "-" -> m \in sentRej[s] \/ m \in sentOK[s]
              [] OTHER -> m \in outbox[s]

(* a station that has received everything the CMS-like peer sent and has nothing to send itself ends cleanly after the *)
(* peer's early FQ and hang-up: it does not report a lost connection                                                    *)
QuitIsClean == \A s \in Station : (cms = Peer(s) /\ link = "up" /\ outbox[s] \ deferred[s] = {}) => pc[s] # "lost"

(* liveness *)
Termination == <>(\A s \in Station : pc[s] \in Terminal)
(* with at most MaxFaults faults and MaxFaults + 1 sessions there is a clean session: everything acceptable is *)
(* delivered exactly once and reported                                                                          *)
EventuallyDelivered ==
    <>[](\A s \in Station : \A m \in Owned(s) : Policy[m] = "+" => (m \in sentOK[s] \cup sentRej[s] /\ inbox[Peer(s)][m] = 1))
=============================================================================
