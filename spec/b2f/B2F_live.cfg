SPECIFICATION FairSpec
CONSTANTS MidA = {"a1", "a2"}  MidB = {"b1"}  Policies = {"+"}  MaxBlock = 1  MaxSessions = 2  MaxFaults = 1  Deviations = {}
PROPERTIES Termination EventuallyDelivered
CHECK_DEADLOCK FALSE
