SPECIFICATION Spec
CONSTANTS MidA = {"a1", "a2"}  MidB = {"b1"}  Policies = {"+", "="}  MaxBlock = 2  MaxSessions = 3  MaxFaults = 2  Deviations = {}
INVARIANTS TypeOK NoFalseSent NoFalseReject Conservation ExactlyOnce OnlyPeersMessages BlockBound CompleteExchange
CHECK_DEADLOCK FALSE
