SPECIFICATION Spec
CONSTANTS MidA = {"a1"}  MidB = {}  Policies = {"+"}  MaxBlock = 2  MaxSessions = 1  MaxFaults = 0  Deviations = {"CmsQuit", "FFWriteErrorFatal"}
INVARIANTS QuitIsClean
CHECK_DEADLOCK FALSE
