--------------------------- MODULE B2FPropsTrace ---------------------------
(* Trace specification: the monitor B2FProps driven by a recorded execution *)
(* of real fbb.Session code.  Every event must be an enabled monitor action; *)
(* the monitor has no internal steps, so validation is linear in the trace.  *)
EXTENDS B2FProps, TraceLib

(* C04: the harness altered the transfer of message m in transit in the faulted session of this trace;       *)
(* alt[m] says whether every integrity check of the protocol still holds for the altered bytes (computed by   *)
(* the independent lexer and CRC).                                                                             *)
VARIABLE alt

(* C05 (forwarder lists with password hashes): fwd[s] is the set of addresses station s announced in its ;FW line of   *)
(* this session, as the independent lexer read them (hashes stripped); a library station must query its mailbox for    *)
(* outbound messages with exactly the addresses its peer announced.                                                   *)
VARIABLE fwd
NoFwd == [s \in Station |-> {}]
(* expfw[s]: the addresses station s is configured to request (own call first, then the auxiliary addresses), when the  *)
(* driver knows them; its ;FW line must list exactly these, in this order                                              *)
VARIABLE expfw
NoExp == [s \in Station |-> <<"?">>]
(* lastoff[s]: what the station's handler returned at its latest GetOutbound call (library stations).  A proposal block  *)
(* holds the most urgent of these: no message left out of the block has a higher precedence than one in it (the order   *)
(* "precedence, then size" holds across the blocks of a session, not only inside each)                                  *)
VARIABLE lastoff

TraceInit == TraceInitTL /\ Init /\ alt = Empty /\ fwd = NoFwd /\ expfw = NoExp /\ lastoff = [s \in Station |-> {}]

TAltered == IsEvent("Altered") /\ alt' = Put(alt, Ev.m, Ev.holds) /\ UNCHANGED <<vars, fwd, expfw, lastoff>> /\ Consume
TExpectFw == IsEvent("ExpectFw") /\ expfw' = [expfw EXCEPT ![Ev.s] = Ev.addrs] /\ UNCHANGED <<vars, fwd, alt, lastoff>> /\ Consume

TQueue   == IsEvent("Queue") /\ Queue(Ev.s, Ev.m, Ev.policy, Ev.prec) /\ Consume
TSession == IsEvent("Session") /\ NewSession(Ev.master, Ev.fault) /\ fwd' = NoFwd /\ Consume
TCut     == IsEvent("Cut") /\ Fault /\ Consume
TPrepare == IsEvent("Prepare") /\ ret[Ev.s] = "run" /\ UNCHANGED vars /\ Consume
TOffer   == /\ IsEvent("Offer") /\ Offer(Ev.s, SeqSet(Ev.ms)) /\ (Ev.lib => SeqSet(Ev.fw) = fwd[Peer(Ev.s)])
            /\ lastoff' = IF Ev.lib THEN [lastoff EXCEPT ![Ev.s] = SeqSet(Ev.ms)] ELSE lastoff
            /\ Consume
BlockMids(s) == {block[s][i].mid : i \in 1..Len(block[s])}
MostUrgentFirst(s) == \A u \in lastoff[s] \ BlockMids(s) : \A p \in BlockMids(s) :
                         (u \in DOMAIN prec /\ p \in DOMAIN prec) => prec[p] <= prec[u]
THAnswer == IsEvent("HAnswer") /\ HAnswer(Ev.s, Ev.m, Ev.a) /\ Consume
(* A transfer whose checks no longer hold must not be delivered at all (DeliverOnlyIntact); one that an       *)
(* independent judge also accepts as fully valid is excluded from the intactness demand, as C04 states.        *)
TStore   == /\ IsEvent("Store")
            /\ IF faulted /\ Ev.m \in DOMAIN alt
                 THEN alt[Ev.m] /\ Store(Ev.s, Ev.m, TRUE, Ev.err)
                 ELSE Store(Ev.s, Ev.m, Ev.intact, Ev.err)
            /\ Consume
TSetSent == IsEvent("SetSent") /\ SetSent(Ev.s, Ev.m, Ev.rej) /\ Consume
TSetDef  == IsEvent("SetDeferred") /\ SetDeferred(Ev.s, Ev.m) /\ Consume
TReturn  == IsEvent("Return") /\ Return(Ev.s, Ev.res, [sent |-> SeqSet(Ev.sent), recv |-> SeqSet(Ev.recv)]) /\ Consume
TClose   == IsEvent("Close") /\ Close(Ev.s) /\ Consume
TEnd     == IsEvent("End") /\ End(Ev.timedout, Ev.pendingA, Ev.pendingB) /\ Consume
TEndAll  == IsEvent("EndAll") /\ EndAll /\ Consume
TCmsIntent == IsEvent("CmsIntent") /\ Ev.s = "B" /\ CmsIntent(Ev.s) /\ Consume     \* the scripted peer only

TUnit ==
    /\ IsEvent("Unit")
    /\ fwd' = IF Ev.kind = "Fw" THEN [fwd EXCEPT ![Ev.s] = SeqSet(Ev.addrsU)] ELSE fwd
    /\ (Ev.kind = "Fw" /\ expfw[Ev.s] # <<"?">>) => Ev.addrsU = expfw[Ev.s]
    /\ (Ev.kind = "EndBlock" /\ lastoff[Ev.s] # {}) => MostUrgentFirst(Ev.s)
    /\ LET e == Ev  s == Ev.s  k == Ev.kind IN
       \/ k = "Sid" /\ SidOK(e.b2, e.f, e.dollarLast) /\ HsLine(s, k, FALSE)
       \/ k \in {"Fw", "Pq", "Pr", "Pm"} /\ HsLine(s, k, FALSE)
       \/ k \in {"Text", "Comment"} /\ HsLine(s, k, e.prompt)
       \/ k = "Err" /\ HsLine(s, "Text", FALSE)      \* "*** MTD Stats ..." lines in a MOTD are text, not errors
       \/ k \in {"Comment", "Pm", "Err"} /\ Chatter(s, k)
       \/ k = "Prop" /\ e.code \in {"C", "D"} /\ e.offset = 0 /\ Prop(s, e.mid, e.size, e.csize, e.code)
       \/ k = "EndBlock" /\ EndBlock(s, e.count, e.sumOK)
       \/ k = "Fs" /\ Fs(s, e.answers, e.offsets)
       \/ k = "Frame" /\ Frame(s, e)
       \/ k = "FF" /\ (FF(s) \/ StaleFF(s))
       \/ k = "FQ" /\ FQ(s)
       \* kind "Bad" (anything the lexer could not accept) matches no action
    /\ Consume

TraceNextB == \/ (UNCHANGED lastoff /\ (TSession \/ TUnit))
              \/ (UNCHANGED fwd /\ TOffer)
              \/ (UNCHANGED <<fwd, lastoff>> /\ (TQueue \/ TCut \/ TPrepare \/ THAnswer \/ TStore \/ TSetSent \/ TSetDef
                                                 \/ TReturn \/ TClose \/ TEnd \/ TEndAll \/ TCmsIntent))

TraceNext == TAltered \/ TExpectFw \/ (UNCHANGED <<alt, expfw>> /\ TraceNextB)
TraceSpec == TraceInit /\ [][TraceNext]_<<vars, tvars, alt, fwd, expfw, lastoff>>
=============================================================================
