--------------------------- MODULE B2FPropsTrace ---------------------------
(* Trace specification: the monitor B2FProps driven by a recorded execution *)
(* of real fbb.Session code.  Every event must be an enabled monitor action; *)
(* the monitor has no internal steps, so validation is linear in the trace.  *)
EXTENDS B2FProps, TraceLib

TraceInit == TraceInitTL /\ Init

TQueue   == IsEvent("Queue") /\ Queue(Ev.s, Ev.m, Ev.policy, Ev.prec) /\ Consume
TSession == IsEvent("Session") /\ NewSession(Ev.master, Ev.fault) /\ Consume
TCut     == IsEvent("Cut") /\ Fault /\ Consume
TPrepare == IsEvent("Prepare") /\ ret[Ev.s] = "run" /\ UNCHANGED vars /\ Consume
TOffer   == IsEvent("Offer") /\ Offer(Ev.s, SeqSet(Ev.ms)) /\ Consume
THAnswer == IsEvent("HAnswer") /\ HAnswer(Ev.s, Ev.m, Ev.a) /\ Consume
TStore   == IsEvent("Store") /\ Store(Ev.s, Ev.m, Ev.intact, Ev.err) /\ Consume
TSetSent == IsEvent("SetSent") /\ SetSent(Ev.s, Ev.m, Ev.rej) /\ Consume
TSetDef  == IsEvent("SetDeferred") /\ SetDeferred(Ev.s, Ev.m) /\ Consume
TReturn  == IsEvent("Return") /\ Return(Ev.s, Ev.res, [sent |-> SeqSet(Ev.sent), recv |-> SeqSet(Ev.recv)]) /\ Consume
TClose   == IsEvent("Close") /\ Close(Ev.s) /\ Consume
TEnd     == IsEvent("End") /\ End(Ev.timedout, Ev.pendingA, Ev.pendingB) /\ Consume
TEndAll  == IsEvent("EndAll") /\ EndAll /\ Consume

TUnit ==
    /\ IsEvent("Unit")
    /\ LET e == Ev  s == Ev.s  k == Ev.kind IN
       \/ k = "Sid" /\ SidOK(e.b2, e.f, e.dollarLast) /\ HsLine(s, k, FALSE)
       \/ k \in {"Fw", "Pq", "Pr"} /\ HsLine(s, k, FALSE)
       \/ k \in {"Text", "Comment"} /\ HsLine(s, k, e.prompt)
       \/ k = "Err" /\ HsLine(s, "Text", FALSE)      \* "*** MTD Stats ..." lines in a MOTD are text, not errors
       \/ k \in {"Comment", "Pm", "Err"} /\ Chatter(s, k)
       \/ k = "Prop" /\ e.code \in {"C", "D"} /\ e.offset = 0 /\ Prop(s, e.mid, e.size, e.csize, e.code)
       \/ k = "EndBlock" /\ EndBlock(s, e.count, e.sumOK)
       \/ k = "Fs" /\ Fs(s, e.answers, e.offsets)
       \/ k = "Frame" /\ Frame(s, e)
       \/ k = "FF" /\ FF(s)
       \/ k = "FQ" /\ FQ(s)
       \* kind "Bad" (anything the lexer could not accept) matches no action
    /\ Consume

TraceNext == TQueue \/ TSession \/ TCut \/ TPrepare \/ TOffer \/ THAnswer \/ TStore \/ TSetSent \/ TSetDef
             \/ TReturn \/ TClose \/ TEnd \/ TEndAll \/ TUnit

TraceSpec == TraceInit /\ [][TraceNext]_<<vars, tvars>>
=============================================================================
