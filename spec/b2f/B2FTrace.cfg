SPECIFICATION TraceSpec
CONSTANTS MidA <- TrMidA  MidB <- TrMidB  Policies = {"+", "-", "="}  MaxBlock = 5  MaxSessions = 1000  MaxFaults = 1000  Deviations = {}
          Rank <- TraceRank
INVARIANTS NoFalseSent BlockBound
POSTCONDITION TraceAccepted
CHECK_DEADLOCK FALSE
