----------------------------- MODULE RobustMode -----------------------------
(* Robust-mode switching of a B2F session (fbb/wl2k.go:264-268,             *)
(* fbb/b2f.go:167-170, transport.Robust).  Not one of the listed            *)
(* properties: growth of the specification suite (DESIGN.md 8, 11.12).      *)
(*                                                                          *)
(* One station.  `robust` is the state of the connection's robust mode as   *)
(* the last SetRobust call left it (FALSE before the first call), `calls`   *)
(* counts the calls.  Each action is one region boundary of the code:       *)
(*   Enter      Exchange, after Prepare, before the handshake               *)
(*   BeginXfer  handleOutbound after a proposal answer for a non-empty      *)
(*              block was parsed, before the first message is written       *)
(*   EndXfer    the deferred call when handleOutbound returns (also on an   *)
(*              error in the middle of a message)                           *)
(*   Leave      the deferred call when Exchange returns                     *)
(* Mode "none" is a connection that does not implement transport.Robust.    *)
EXTENDS Naturals

CONSTANTS Modes,        \* subset of {"auto", "forced", "disabled", "none"}
          MaxTurns,     \* bound of the design configuration
          Deviation     \* "none" | "noRestore" | "offForAnswers" : named wrong variants

VARIABLES mode, phase, robust, calls, turns,
          unit          \* the last unit written and the robust mode it travelled in
vars == <<mode, phase, robust, calls, turns, unit>>

Init == /\ mode \in Modes
        /\ phase = "idle"
        /\ robust = FALSE
        /\ calls = 0
        /\ turns = 0
        /\ unit = [kind |-> "none", robust |-> FALSE]

Call(v) == robust' = v /\ calls' = calls + 1
NoCall  == UNCHANGED <<robust, calls>>

(* Exchange returns before it touches the connection (nil conn, Prepare failed) *)
EarlyReturn == /\ phase = "idle"
               /\ phase' = "done"
               /\ NoCall /\ UNCHANGED <<mode, turns, unit>>

Enter == /\ phase = "idle"
         /\ phase' = "open"
         /\ IF mode = "none" THEN NoCall ELSE Call(mode # "disabled")
         /\ UNCHANGED <<mode, turns, unit>>

(* handshake lines, proposals, answers, FF, FQ: everything that is not a message *)
Talk == /\ phase = "open" \/ (Deviation = "offForAnswers" /\ phase = "xfer")
        /\ unit' = [kind |-> "talk", robust |-> robust]
        /\ UNCHANGED <<mode, phase, robust, calls, turns>>

BeginXfer == /\ phase = "open"
             /\ phase' = "xfer"
             /\ turns' = turns + 1
             /\ IF mode = "auto" THEN Call(FALSE) ELSE NoCall
             /\ UNCHANGED <<mode, unit>>

(* one compressed message on the wire *)
Frame == /\ phase = "xfer"
         /\ unit' = [kind |-> "frame", robust |-> robust]
         /\ UNCHANGED <<mode, phase, robust, calls, turns>>

EndXfer == /\ phase = "xfer"
           /\ phase' = "open"
           /\ IF mode = "auto" /\ Deviation # "noRestore" THEN Call(TRUE) ELSE NoCall
           /\ UNCHANGED <<mode, turns, unit>>

Leave == /\ phase = "open"
         /\ phase' = "done"
         /\ IF mode = "none" THEN NoCall ELSE Call(FALSE)
         /\ UNCHANGED <<mode, turns, unit>>

Next == EarlyReturn \/ Enter \/ Talk \/ BeginXfer \/ Frame \/ EndXfer \/ Leave
Spec == Init /\ [][Next]_vars

-----------------------------------------------------------------------------
(* What the documentation of the modes promises (wl2k.go:183-194):          *)
(*   auto      robust exactly while the session is not transferring         *)
(*             outbound messages                                            *)
(*   forced    robust for the whole exchange                                *)
(*   disabled  never robust                                                 *)
(* and in every mode the connection is handed back non-robust.              *)
TypeOK == /\ mode \in Modes
          /\ phase \in {"idle", "open", "xfer", "done"}
          /\ robust \in BOOLEAN

RobustInv ==
    /\ mode = "none"     => ~robust /\ calls = 0
    /\ mode = "disabled" => ~robust
    /\ mode = "forced"   => (robust <=> phase \in {"open", "xfer"})
    /\ mode = "auto"     => (robust <=> phase = "open")
    /\ phase = "done"    => ~robust

(* messages travel non-robust in auto mode, everything else robust *)
UnitInv ==
    /\ unit.kind = "frame" /\ mode = "auto" => ~unit.robust
    /\ unit.kind = "frame" /\ mode = "forced" => unit.robust
    /\ unit.kind = "talk" /\ mode \in {"auto", "forced"} => unit.robust
    /\ mode \in {"disabled", "none"} => ~unit.robust

(* no redundant calls: at most two per exchange plus two per transfer region *)
CallBound == calls <= 2 + 2 * turns

Bounded == turns <= MaxTurns
=============================================================================
