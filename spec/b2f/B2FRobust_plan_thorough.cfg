SPECIFICATION Spec
CONSTANTS MaxDepth = 7  MaxBad = 1  MaxDec = 1
INVARIANTS OnlyPermittedOutcomes EmitPlan
CHECK_DEADLOCK FALSE
