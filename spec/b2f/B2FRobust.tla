------------------------------ MODULE B2FRobust ------------------------------
(* C03: the hostile-input automaton of a Session.                           *)
(*                                                                          *)
(* The station under test reads the remote's input in protocol *phases*;     *)
(* in every phase the remote may send any *token class* - each conforming    *)
(* unit of that phase and each malformed shape of it.  The only outcomes the *)
(* specification permits, in any state and for any token, are                *)
(*      Continue (to some phase)   ReturnNil   ReturnErr                     *)
(* Panic, Exit, Hang, AllocBomb and ConnLeftOpen are outcomes that no action *)
(* produces.  TLC enumerates all class paths up to a depth bound (with a     *)
(* bounded number of malformed tokens per path): that enumeration is the     *)
(* test plan; the harness concretises every path into a byte transcript and  *)
(* feeds it to a real Session.                                                *)
EXTENDS Naturals, Sequences, FiniteSets, TLC, Json

CONSTANTS MaxDepth,     \* tokens per path
          MaxBad,       \* malformed tokens per path
          MaxDec        \* decorative conforming tokens per path (comments, MOTD, ;FW, ;PM ...)

Decorative == {"SidLower", "Fw", "FwHashes", "Comment", "Motd", "StarMotd", "Pq", "Pm", "PmShort", "EmptyLine", "PropDup", "PropD"}

Phases == {"Hs", "Cmd", "FsWait", "Xfer", "Done"}

(* Token classes per phase: <<name, next>> where next is the phase a *conforming* reading leads to        *)
(* ("same" = stay; "turn" = the station's own turn follows, whose outcome depends on pending outbound).   *)
OkTokens ==
  [ Hs     |-> { <<"Sid", "same">>, <<"SidLower", "same">>, <<"Fw", "same">>, <<"FwHashes", "same">>, <<"Comment", "same">>,
                 <<"Motd", "same">>, <<"StarMotd", "same">>, <<"Pq", "same">>, <<"Prompt", "turn">>, <<"FirstCmd", "Cmd">> },
    Cmd    |-> { <<"Prop", "same">>, <<"PropD", "same">>, <<"PropDup", "same">>, <<"EndBlock", "Xfer">>, <<"FF", "turn">>, <<"FQ", "Done">>,
                 <<"Comment", "same">>, <<"Pm", "same">>, <<"PmShort", "same">>, <<"EmptyLine", "same">> },
    FsWait |-> { <<"FsAccept", "Cmd">>, <<"FsReject", "Cmd">>, <<"FsDefer", "Cmd">>, <<"FsMixed", "Cmd">>, <<"FsLetters", "Cmd">>,
                 <<"FsOffset0", "Cmd">>, <<"Comment", "same">>, <<"Pm", "same">> },
    Xfer   |-> { <<"Frame", "turn">>, <<"Frame256", "turn">>, <<"Frame1", "turn">>, <<"FrameGzip", "turn">> },
    Done   |-> {} ]

BadTokens ==
  [ Hs     |-> { "LoneNul", "NulPrefixed", "NulSuffixed", "NonAscii", "LongLine", "PqShort", "PqNoSpace", "PqEmpty", "FwNoSpace", "FwEmpty",
                 "SidNoDash", "SidNoB2", "SidEmpty", "SidUnclosed", "StarLine", "Garbage", "OnlyLF", "BlankFlood" },
    Cmd    |-> { "FAlone", "FGt", "FGtSpace", "FGtBadHex", "FGtWrongSum", "EndBlockNoProps", "PropNoFields", "PropFewFields",
                 "PropManyFields", "PropNonNumeric", "PropNegative", "PropHuge", "PropLongMid", "PropBadType", "PropA", "PropB",
                 "UnknownCmd", "LoneNul", "NulPrefixed", "NonAscii", "LongLine", "StarLine", "Garbage", "SohInText", "BlankFlood",
                 "PropHugeCsize", "PropNegCsize" },
    FsWait |-> { "FsTooMany", "FsTooFew", "FsInvalidChar", "FsOffsetNoDigits", "FsOffsetBeyond", "FsOffsetHuge", "FsOffsetMid", "FsOffsetAtEnd",
                 "FsEmpty", "FsNoSpace",
                 "NotFs", "StarLine", "LoneNul", "Garbage" },
    Xfer   |-> { "FirstStar", "FirstOther", "HdrLenMismatch", "HdrNoNul", "HdrOffsetNonNumeric", "HdrOffsetWrong", "HdrLenZero",
                 "StxLen0Short", "StxShort", "EotBadSum", "EotLenMismatch", "EotMissingSum", "StrayByte",
                 "PayloadTruncFixedSum", "PayloadBadCrc", "PayloadSizeNeg", "PayloadSizeHuge", "PayloadSizeSmall", "PayloadSizeBig",
                 "PayloadGarbage", "PayloadTooShort", "PayloadOverrunMatch",
                 "MsgNoHeader", "MsgBodyNeg", "MsgBodyHuge", "MsgBodyTooBig", "MsgFileNeg", "MsgFileHuge", "MsgFileNoName", "MsgBadDate",
                 "MsgNoMid", "MsgEmpty", "MsgNoBlankLine", "GzipGarbage", "GzipTruncated" },
    Done   |-> {} ]

VARIABLES role,     \* "master" / "slave": the role of the station under test
          pend,     \* the station under test has outbound messages pending
          phase,    \* what it is reading now
          nprop,    \* proposals in the open inbound block
          path,     \* the token classes sent so far
          nbad,     \* malformed tokens so far
          ndec,     \* decorative tokens so far
          outcome   \* "running", "nil", "err"  - never anything else

vars == <<role, pend, phase, nprop, path, nbad, ndec, outcome>>

Init == /\ role \in {"master", "slave"} /\ pend \in BOOLEAN
        /\ phase = "Hs" /\ nprop = 0 /\ path = <<>> /\ nbad = 0 /\ ndec = 0 /\ outcome = "running"

(* the station's own turn: it proposes (then waits for FS) or sends FF/FQ and reads commands again *)
AfterTurn == IF pend THEN "FsWait" ELSE "Cmd"

Resolve(next) == CASE next = "same" -> phase [] next = "turn" -> AfterTurn [] OTHER -> next

SendOk(tok) ==
    /\ outcome = "running" /\ Len(path) < MaxDepth
    /\ tok \in OkTokens[phase]
    /\ tok[1] = "Prompt" => role = "slave"          \* only a slave waits for the master's prompt
    /\ tok[1] = "Pq" => role = "slave"
    /\ tok[1] = "FirstCmd" => role = "master"       \* a master reads the slave's handshake up to its first command
    /\ tok[1] = "EndBlock" => nprop > 0
    /\ tok[1] \in {"Prop", "PropD", "PropDup"} => nprop < 2
    /\ tok[1] \in Decorative => ndec < MaxDec
    /\ ndec' = IF tok[1] \in Decorative THEN ndec + 1 ELSE ndec
    /\ path' = Append(path, tok[1])
    /\ phase' = Resolve(tok[2])
    /\ nprop' = CASE tok[1] \in {"Prop", "PropD", "PropDup"} -> nprop + 1
                  [] tok[1] \in {"EndBlock", "FF", "FQ"} -> 0
                  [] OTHER -> nprop
    /\ UNCHANGED <<role, pend, nbad, outcome>>

(* a malformed token: the station may ignore it, treat it as something conforming, or fail - it decides; *)
(* the model only records that it was sent and lets the path go on in the same phase                      *)
SendBad(tok) ==
    /\ outcome = "running" /\ Len(path) < MaxDepth /\ nbad < MaxBad
    /\ tok \in BadTokens[phase]
    /\ path' = Append(path, tok) /\ nbad' = nbad + 1
    /\ UNCHANGED <<role, pend, phase, nprop, ndec, outcome>>

(* the input ends: the station must return *)
EOF ==
    /\ outcome = "running"
    /\ outcome' \in {"nil", "err"}
    /\ path' = Append(path, "EOF")
    /\ UNCHANGED <<role, pend, phase, nprop, nbad, ndec>>

Next == (\E tok \in UNION {OkTokens[p] : p \in Phases} : SendOk(tok))
        \/ (\E tok \in UNION {BadTokens[p] : p \in Phases} : SendBad(tok))
        \/ EOF

Spec == Init /\ [][Next]_vars

OnlyPermittedOutcomes == outcome \in {"running", "nil", "err"}

(* plan extraction: every state that just saw EOF is one test path *)
EmitPlan == outcome = "err" => PrintT(ToJson([plan |-> 1, role |-> role, pend |-> pend, path |-> path]))
=============================================================================
