SPECIFICATION Spec
CONSTANTS Modes = {"auto", "forced", "disabled", "none"}  MaxTurns = 3  Deviation = "none"
INVARIANTS TypeOK RobustInv UnitInv CallBound
CONSTRAINT Bounded
CHECK_DEADLOCK FALSE
