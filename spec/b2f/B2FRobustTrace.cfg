SPECIFICATION TraceSpec
CONSTANTS MaxDepth = 6  MaxBad = 2  MaxDec = 1
INVARIANT OnlyPermittedOutcomes
POSTCONDITION TraceAccepted
CHECK_DEADLOCK FALSE
