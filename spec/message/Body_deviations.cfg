SPECIFICATION Spec
CONSTANTS Wrap = 3  Tok = 5  MaxLen = 7  Deviations = {"ScannerGivesUp", "SplitInsideRune"}
INVARIANTS TextPreserved
CHECK_DEADLOCK FALSE
