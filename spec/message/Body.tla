-------------------------------- MODULE Body --------------------------------
(* C18: normalisation of a message body (fbb/message_body.go).               *)
(*                                                                           *)
(* A text is a sequence of characters; "a" is an ASCII character (one byte in *)
(* UTF-8 and in Latin-1), "w" a wide Latin-1 character (two bytes in UTF-8,   *)
(* one in Latin-1), "\n" and "\r" line feed and carriage return.             *)
(* The module describes the normalisation as a step machine over the UTF-8   *)
(* byte string, the way the code works (split into lines with a token limit,  *)
(* wrap every Wrap bytes, terminate with CRLF, then translate to Latin-1),    *)
(* with the two deviations named:                                             *)
(*    ScannerGivesUp   a line longer than Tok bytes ends the scan: the rest   *)
(*                     of the text is dropped;                                *)
(*    SplitInsideRune  the wrap position falls between the two bytes of a     *)
(*                     wide character, which is thereby destroyed.            *)
(* Constants Wrap and Tok are 998 and 65536 in the code and scaled down for   *)
(* exhaustive checking.                                                       *)
EXTENDS Naturals, Sequences, TLC

CONSTANTS Wrap, Tok, MaxLen, Deviations    \* Deviations \subseteq {"ScannerGivesUp", "SplitInsideRune"}

Char == {"a", "w", "\n", "\r"}
Width(c) == IF c = "w" THEN 2 ELSE 1        \* bytes in UTF-8

VARIABLES text,      \* the input
          pos,       \* next input character
          line,      \* characters of the current output line (no terminator)
          lineB,     \* its length in UTF-8 bytes
          tokB,      \* bytes of the current scanner token (input line)
          out,       \* output so far: sequence of characters; "?" is a destroyed character
          gaveup,    \* the scanner stopped
          fin

vars == <<text, pos, line, lineB, tokB, out, gaveup, fin>>

RECURSIVE Texts(_)
Texts(n) == IF n = 0 THEN {<<>>} ELSE Texts(n - 1) \cup {Append(t, c) : t \in {x \in Texts(n - 1) : Len(x) = n - 1}, c \in Char}

Init == /\ text \in Texts(MaxLen) /\ pos = 1 /\ line = <<>> /\ lineB = 0 /\ tokB = 0
        /\ out = <<>> /\ gaveup = FALSE /\ fin = FALSE

Emit(l) == out \o l \o <<"\r", "\n">>

(* consume one input character *)
Step ==
    /\ ~fin /\ ~gaveup /\ pos <= Len(text)
    /\ LET c == text[pos] IN
       IF c = "\n"
         THEN (* end of an input line: a preceding CR belongs to the terminator *)
              /\ out' = Emit(IF line # <<>> /\ line[Len(line)] = "\r" THEN SubSeq(line, 1, Len(line) - 1) ELSE line)
              /\ line' = <<>> /\ lineB' = 0 /\ tokB' = 0 /\ UNCHANGED gaveup
         ELSE IF "ScannerGivesUp" \in Deviations /\ tokB + Width(c) > Tok
           THEN (* token too long: the scanner stops, silently *)
                /\ gaveup' = TRUE /\ UNCHANGED <<out, line, lineB, tokB>>
         ELSE IF lineB + Width(c) > Wrap
           THEN (* wrap before this character ... *)
                IF "SplitInsideRune" \in Deviations /\ c = "w" /\ lineB + 1 = Wrap
                  THEN (* ... or, the deviation, in the middle of it: both halves are garbage *)
                       /\ out' = Emit(Append(line, "?")) /\ line' = <<"?">> /\ lineB' = 1
                       /\ tokB' = tokB + 2 /\ UNCHANGED gaveup
                  ELSE /\ out' = Emit(line) /\ line' = <<c>> /\ lineB' = Width(c)
                       /\ tokB' = tokB + Width(c) /\ UNCHANGED gaveup
         ELSE /\ line' = Append(line, c) /\ lineB' = lineB + Width(c) /\ tokB' = tokB + Width(c)
              /\ UNCHANGED <<out, gaveup>>
    /\ pos' = pos + 1 /\ UNCHANGED <<text, fin>>

Finish ==
    /\ ~fin /\ (gaveup \/ pos > Len(text))
    /\ out' = IF line # <<>> /\ ~gaveup THEN Emit(line) ELSE out
    /\ fin' = TRUE /\ UNCHANGED <<text, pos, line, lineB, tokB, gaveup>>

Next == Step \/ Finish
Spec == Init /\ [][Next]_vars

-----------------------------------------------------------------------------
(* The property, on the finished output *)
Strip(s) == SelectSeq(s, LAMBDA c : c # "\r" /\ c # "\n")

TextPreserved == fin => Strip(out) = Strip(text)       \* nothing dropped, nothing destroyed

RECURSIVE LinesOK(_, _)
(* every LF is preceded by CR and ends a line of at most Wrap bytes before the CRLF (Latin-1: one byte per character); *)
(* a CR that is not followed by LF is an ordinary character of its line; the text ends with a complete line            *)
LinesOK(s, n) ==
    IF s = <<>> THEN n = 0
    ELSE IF Head(s) = "\r" /\ Len(s) >= 2 /\ s[2] = "\n" THEN n <= Wrap /\ LinesOK(SubSeq(s, 3, Len(s)), 0)
    ELSE IF Head(s) = "\n" THEN FALSE
    ELSE LinesOK(Tail(s), n + 1)
CRLFAndBound == fin => LinesOK(out, 0)
=============================================================================
