SPECIFICATION Spec
CONSTANTS Wrap = 3  Tok = 5  MaxLen = 7  Deviations = {}
INVARIANTS TextPreserved CRLFAndBound
CHECK_DEADLOCK FALSE
