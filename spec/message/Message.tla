------------------------------ MODULE Message ------------------------------
(* C09: the Winlink message format (fbb/message.go, header.go).             *)
(*                                                                          *)
(* An abstract message is an ordered header (key/value lines), a body and a  *)
(* sequence of attachments.  The canonical serialisation is                  *)
(*     header lines (Mid first, the other keys sorted, values in the order   *)
(*     they were added), an empty line, the body, and - only when there are  *)
(*     attachments - CRLF followed by each attachment's bytes and CRLF.      *)
(* Section lengths are declared in the header (Body: n, File: n name), so    *)
(* section data may contain any bytes, including CRLF.                        *)
(*                                                                          *)
(* Header lines are opaque tokens here (their character-level encoding -     *)
(* Q-encoding of subjects and names, date layout - is the identity oracle's  *)
(* job in the harness); sections are sequences over a small byte alphabet.    *)
(* The module states Parse(Serialise(m)) = m and canonicity for all messages  *)
(* of a bounded universe, and is the generator of the harness's test plan.    *)
EXTENDS Naturals, Sequences, FiniteSets, TLC, Json

CONSTANTS Byte,        \* section byte alphabet, e.g. {"x", "CR", "LF", "NUL"}
          MaxSec,      \* longest section
          MaxFiles

CR == "CR"  LF == "LF"
CRLF == <<CR, LF>>

RECURSIVE SeqsUpTo(_, _)
SeqsUpTo(S, n) == IF n = 0 THEN {<<>>} ELSE SeqsUpTo(S, n - 1) \cup {Append(q, b) : q \in {x \in SeqsUpTo(S, n - 1) : Len(x) = n - 1}, b \in S}

Section == SeqsUpTo(Byte, MaxSec)
FilesOf(n) == UNION {[1..k -> Section] : k \in 0..n}

(* the stream after the header: a sequence of Byte *)
RECURSIVE Concat(_)
Concat(qs) == IF qs = <<>> THEN <<>> ELSE Head(qs) \o Concat(Tail(qs))

SerialiseSections(body, files) ==
    body \o (IF Len(files) > 0 THEN CRLF ELSE <<>>)
         \o Concat([i \in 1..Len(files) |-> files[i] \o CRLF])

(* The parser of the sections: reads exactly the declared number of bytes of a section, then the line end that       *)
(* follows it (absent only at the end of the stream).  Returns [ok, data, rest].                                     *)
ReadSection(stream, n) ==
    IF Len(stream) < n THEN [ok |-> FALSE, data |-> <<>>, rest |-> <<>>]
    ELSE LET data == SubSeq(stream, 1, n)
             rest == SubSeq(stream, n + 1, Len(stream))
         IN IF rest = <<>> THEN [ok |-> TRUE, data |-> data, rest |-> <<>>]
            ELSE IF Len(rest) >= 2 /\ SubSeq(rest, 1, 2) = CRLF
                   THEN [ok |-> TRUE, data |-> data, rest |-> SubSeq(rest, 3, Len(rest))]
            ELSE [ok |-> FALSE, data |-> data, rest |-> rest]

RECURSIVE ParseFiles(_, _)
ParseFiles(stream, lens) ==
    IF lens = <<>> THEN [ok |-> TRUE, files |-> <<>>]
    ELSE LET r == ReadSection(stream, Head(lens)) IN
         IF ~r.ok THEN [ok |-> FALSE, files |-> <<>>]
         ELSE LET t == ParseFiles(r.rest, Tail(lens)) IN [ok |-> t.ok, files |-> <<r.data>> \o t.files]

(* bodyLen and fileLens are what the header declares *)
ParseSections(stream, bodyLen, fileLens) ==
    LET b == ReadSection(stream, bodyLen) IN
    IF ~b.ok THEN [ok |-> FALSE, body |-> <<>>, files |-> <<>>]
    ELSE LET f == ParseFiles(b.rest, fileLens) IN [ok |-> f.ok, body |-> b.data, files |-> f.files]

VARIABLES body, files, stream, parsed, stage
vars == <<body, files, stream, parsed, stage>>

Init == /\ body \in Section /\ files \in FilesOf(MaxFiles)
        /\ stream = <<>> /\ parsed = [ok |-> FALSE, body |-> <<>>, files |-> <<>>] /\ stage = "built"

Serialise == /\ stage = "built" /\ stream' = SerialiseSections(body, files) /\ stage' = "written"
             /\ UNCHANGED <<body, files, parsed>>
Parse == /\ stage = "written"
         /\ parsed' = ParseSections(stream, Len(body), [i \in 1..Len(files) |-> Len(files[i])])
         /\ stage' = "parsed" /\ UNCHANGED <<body, files, stream>>
Next == Serialise \/ Parse
Spec == Init /\ [][Next]_vars

RoundTrip == stage = "parsed" => parsed.ok /\ parsed.body = body /\ parsed.files = files
Canonical == stage = "parsed" => SerialiseSections(parsed.body, parsed.files) = stream

-----------------------------------------------------------------------------
(* Canonical header order: Mid first, then the remaining keys in ascending (byte) order; the harness compares the   *)
(* key sequence of the real serialisation with this.  Keys are given with their sort rank.                          *)
HeaderOrderOK(keys) ==           \* keys: sequence of [name, rank] as found in the serialisation, rank = sort position
    /\ Len(keys) >= 1 /\ keys[1].name = "Mid"
    /\ \A i \in 2..Len(keys) : keys[i].name # "Mid"
    /\ \A i \in 2..(Len(keys) - 1) : keys[i].rank <= keys[i + 1].rank

(* plan extraction for the harness *)
EmitPlan == stage = "written" => PrintT(ToJson([plan |-> 1, body |-> body, files |-> files, stream |-> stream]))
=============================================================================
