SPECIFICATION Spec
CONSTANT MaxRuns = 2
INVARIANT Emit
