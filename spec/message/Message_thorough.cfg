SPECIFICATION Spec
CONSTANTS Byte = {"x", "CR", "LF", "NUL"}  MaxSec = 3  MaxFiles = 2
INVARIANTS RoundTrip Canonical
CHECK_DEADLOCK FALSE
