------------------------------ MODULE BodyTrace ------------------------------
(* C18 verdicts.  The byte-level predicates are computed by the harness's     *)
(* projection on the real SetBody output (the TLA+ layer is thin here, and    *)
(* claimed as such): crlfOnly, maxLine, textPreserved, bodyHeader.            *)
EXTENDS Naturals, TraceLib
VARIABLE dummy
TraceInit == TraceInitTL /\ dummy = 0
BodyOK(e) ==
    /\ e.err = FALSE
    /\ e.crlfOnly                      \* every LF is preceded by CR and the body ends with a complete line (or is empty)
    /\ e.maxLine <= 1000               \* no line exceeds 1000 bytes including CRLF
    /\ e.textPreserved                 \* input and stored body equal after deleting CR and LF (in Latin-1)
    /\ e.bodyHeader = e.outlen         \* the Body header equals the stored byte length ...
    /\ e.bodyHeaderWire = e.outlen     \* ... also as serialised (exactly one Body line), whatever body the message had before
    /\ e.bodyAccessor                  \* Body() returns the stored text
TBody == IsEvent("Body") /\ BodyOK(Ev) /\ UNCHANGED dummy /\ Consume
(* setting the body of one message must not disturb the stored body of another (the texts of earlier messages are *)
(* re-read after later SetBody calls)                                                                              *)
TRecheck == IsEvent("Recheck") /\ Ev.stable /\ UNCHANGED dummy /\ Consume
TraceNext == TBody \/ TRecheck
TraceSpec == TraceInit /\ [][TraceNext]_<<dummy, tvars>>
=============================================================================
