----------------------------- MODULE BodyShapes -----------------------------
(* Test-plan generator for C18: TLC enumerates all shape descriptors - up to *)
(* MaxRuns runs, each (kind, length class, terminator) - which the harness    *)
(* expands with the real constants Wrap = 998 and Tok = 65536.               *)
EXTENDS Naturals, Sequences, TLC, Json

CONSTANT MaxRuns
Kind  == {"ascii", "wide", "mixed"}
LenClass == {"0", "1", "Wrap-1", "Wrap", "Wrap+1", "2Wrap", "Tok-1", "Tok", "Tok+1", "5Tok"}
Term  == {"LF", "CRLF", "none"}
Run   == [kind : Kind, len : LenClass, term : Term]

VARIABLE shape
Init == \E n \in 1..MaxRuns : shape \in [1..n -> Run]
Next == UNCHANGED shape
Spec == Init /\ [][Next]_shape
Emit == PrintT(ToJson([shape |-> shape]))
=============================================================================
