SPECIFICATION Spec
CONSTANT MaxRuns = 3
INVARIANT Emit
