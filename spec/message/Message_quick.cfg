SPECIFICATION Spec
CONSTANTS Byte = {"x", "CR", "LF", "NUL"}  MaxSec = 2  MaxFiles = 2
INVARIANTS RoundTrip Canonical EmitPlan
CHECK_DEADLOCK FALSE
