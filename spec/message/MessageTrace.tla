----------------------------- MODULE MessageTrace -----------------------------
(* C09 verdicts: the identity oracle of the harness, exactly the property's   *)
(* wording - what was set is what is read back after a round trip through a    *)
(* chunked reader, and re-serialising the parsed message yields the same bytes.*)
EXTENDS Naturals, TraceLib
VARIABLE dummy
TraceInit == TraceInitTL /\ dummy = 0
MsgOK(e) ==
    /\ e.panic = FALSE
    /\ e.writeErr = FALSE /\ e.parseErr = FALSE
    /\ e.headersEqual            \* every header of the re-parsed message equals the built one
    /\ e.bodyEqual /\ e.filesEqual
    /\ e.accessorsEqual          \* Subject(), file names, Date(), To()/Cc()/From() return what was set
    /\ e.reserialiseEqual        \* Bytes() of the parsed message = the original bytes
    /\ e.chunkIndependent        \* every chunking of the reader gives the same result
    /\ e.earlierBytesStable      \* the bytes returned for the previous message are still what they were
    /\ e.reuseIndependent        \* parsing into a Message value that held another message gives the same as parsing into a new one
TMsg == IsEvent("Msg") /\ MsgOK(Ev) /\ UNCHANGED dummy /\ Consume
TraceNext == TMsg
TraceSpec == TraceInit /\ [][TraceNext]_<<dummy, tvars>>
=============================================================================
