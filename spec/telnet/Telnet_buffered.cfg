SPECIFICATION Spec
CONSTANTS Lines = 2  Payload = 3  Handover = "buffered"  HasDeadline = TRUE
INVARIANT CleanStream
PROPERTY DialReturns
CHECK_DEADLOCK FALSE
