-------------------------- MODULE TelnetPropsTrace --------------------------
(* C15 verdicts on real TCP executions of transport/telnet: two byte streams  *)
(* per connection (what one application sent after login / what the other     *)
(* received) and call/return records of Dial*.                                 *)
EXTENDS Naturals, TraceLib
CONSTANT SlackMs                    \* scheduling slack added to millisecond-scale deadlines
VARIABLE dummy
TraceInit == TraceInitTL /\ dummy = 0

(* a connection came out of Accept / Dial: CleanStream in both directions, RemoteCallReported *)
TConn == /\ IsEvent("Conn")
         /\ Ev.established                 \* the login of a well-behaved peer succeeds
         /\ Ev.toAcceptorOK                \* bytes the dialler sent after login = bytes the acceptor's application read
         /\ Ev.toDiallerOK                 \* and the other way round
         /\ Ev.remoteCallOK                \* RemoteCall() is the dialler's callsign
         /\ UNCHANGED dummy /\ Consume

(* DialContext / DialTimeout / DialURLContext returned - with a connection or an error - by its deadline *)
TDial == /\ IsEvent("Dial")
         /\ Ev.returned
         /\ Ev.elapsedMs <= Ev.deadlineMs + SlackMs
         /\ Ev.gotConn => Ev.streamOK      \* whatever it hands over is a clean stream
         /\ UNCHANGED dummy /\ Consume

TraceNext == TConn \/ TDial
TraceSpec == TraceInit /\ [][TraceNext]_<<dummy, tvars>>
=============================================================================
