------------------------------- MODULE Telnet -------------------------------
(* C15: the telnet login (transport/telnet).  One direction of a connection  *)
(* during login: the peer writes login lines and then application payload,    *)
(* the network delivers the bytes in arbitrary segments, the login code reads *)
(* through a private buffered reader which pulls in whatever has arrived, and *)
(* finally hands a connection over to the application.                         *)
(*                                                                           *)
(* Handover designs:                                                          *)
(*    "raw"       the application reads from the socket (what the code did):  *)
(*                bytes already pulled into the private buffer are lost       *)
(*                (named deviation OverRead);                                  *)
(*    "buffered"  the application reads through the login reader first.       *)
(* The same module, read from the dialler's side, has the deadline: a login   *)
(* that waits for a line the server never completes must end when the         *)
(* deadline fires.                                                             *)
EXTENDS Naturals, Sequences, TLC

CONSTANTS Lines,        \* login lines the peer sends before its payload (2 for the listener: callsign, password)
          Payload,      \* payload bytes
          Handover,     \* "raw" or "buffered"
          HasDeadline   \* the login reads are bounded by the dial deadline

CRt == "CR"
(* the peer's byte stream: each login line is one content byte and a CR, then the payload *)
RECURSIVE LoginBytes(_)
LoginBytes(n) == IF n = 0 THEN <<>> ELSE LoginBytes(n - 1) \o <<"c", CRt>>
Stream(complete) == LoginBytes(Lines) \o [i \in 1..Payload |-> "x"]

VARIABLES written,     \* bytes the peer has written so far (a prefix of Stream)
          taken,       \* bytes the login reader has pulled from the socket
          consumed,    \* bytes the login code has consumed from its reader (lines read)
          lines,       \* login lines read
          phase,       \* "login", "handed", "failed"
          app,         \* bytes delivered to the application after the handover
          stall,       \* the peer stops writing (silent / partial prompt)
          fired        \* the deadline fired

vars == <<written, taken, consumed, lines, phase, app, stall, fired>>
Full == Stream(TRUE)

Init == /\ written = 0 /\ taken = 0 /\ consumed = 0 /\ lines = 0 /\ phase = "login" /\ app = <<>>
        /\ stall \in BOOLEAN /\ fired = FALSE

(* the peer writes some more bytes (TCP segmentation: any amount) unless it stalls *)
PeerWrites == /\ written < Len(Full) /\ (~stall \/ written < 1)       \* a stalling peer sends at most a partial prompt
              /\ \E n \in (written + 1)..Len(Full) : written' = n
              /\ UNCHANGED <<taken, consumed, lines, phase, app, stall, fired>>

(* the login reader fills its private buffer with any non-empty prefix of what has arrived *)
Fill == /\ phase = "login" /\ taken < written
        /\ \E n \in (taken + 1)..written : taken' = n
        /\ UNCHANGED <<written, consumed, lines, phase, app, stall, fired>>

(* ReadString(CR): consumes up to and including the next CR in the private buffer *)
ReadLine ==
    /\ phase = "login" /\ lines < Lines
    /\ \E i \in (consumed + 1)..taken :
         /\ Full[i] = CRt /\ \A j \in (consumed + 1)..(i - 1) : Full[j] # CRt
         /\ consumed' = i
    /\ lines' = lines + 1
    /\ UNCHANGED <<written, taken, phase, app, stall, fired>>

HandOver ==
    /\ phase = "login" /\ lines = Lines
    /\ phase' = "handed"
    (* OverRead: with a raw handover whatever sits in the private buffer is gone *)
    /\ app' = IF Handover = "buffered" THEN SubSeq(Full, consumed + 1, taken) ELSE <<>>
    /\ UNCHANGED <<written, taken, consumed, lines, stall, fired>>

AppReads ==
    /\ phase = "handed" /\ taken < written
    /\ \E n \in (taken + 1)..written : /\ app' = app \o SubSeq(Full, taken + 1, n) /\ taken' = n
    /\ UNCHANGED <<written, consumed, lines, phase, stall, fired>>

DeadlineFires ==
    /\ HasDeadline /\ phase = "login" /\ ~fired
    /\ fired' = TRUE /\ phase' = "failed"
    /\ UNCHANGED <<written, taken, consumed, lines, app, stall>>

Next == PeerWrites \/ Fill \/ ReadLine \/ HandOver \/ AppReads \/ DeadlineFires
Spec == Init /\ [][Next]_vars /\ WF_vars(PeerWrites) /\ WF_vars(Fill) /\ WF_vars(ReadLine) /\ WF_vars(HandOver)
             /\ WF_vars(AppReads) /\ WF_vars(DeadlineFires)

PayloadBytes == SubSeq(Full, 2 * Lines + 1, Len(Full))
(* the application receives a prefix of the payload, nothing lost, nothing of the login *)
CleanStream == phase = "handed" => /\ Len(app) <= Len(PayloadBytes)
                                   /\ app = SubSeq(PayloadBytes, 1, Len(app))
                                   /\ (taken = Len(Full) => app = PayloadBytes)
(* dialling returns: the login ends (handed over or failed) whatever the peer does *)
DialReturns == <>(phase # "login")
=============================================================================
