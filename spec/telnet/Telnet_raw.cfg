SPECIFICATION Spec
CONSTANTS Lines = 2  Payload = 3  Handover = "raw"  HasDeadline = TRUE
INVARIANT CleanStream
CHECK_DEADLOCK FALSE
