SPECIFICATION TraceSpec
CONSTANT SlackMs = 2000
POSTCONDITION TraceAccepted
CHECK_DEADLOCK FALSE
