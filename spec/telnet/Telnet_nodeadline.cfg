SPECIFICATION Spec
CONSTANTS Lines = 2  Payload = 3  Handover = "buffered"  HasDeadline = FALSE
PROPERTY DialReturns
CHECK_DEADLOCK FALSE
