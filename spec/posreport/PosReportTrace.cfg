SPECIFICATION TraceSpec
CONSTANTS UPD = 600000  MaxDeg = 180  Algorithms = {}
POSTCONDITION TraceAccepted
CHECK_DEADLOCK FALSE
