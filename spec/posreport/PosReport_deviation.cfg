SPECIFICATION Spec
CONSTANTS UPD = 600  MaxDeg = 3  Algorithms = {"SplitThenRound"}
INVARIANTS InvMinutes
CHECK_DEADLOCK FALSE
