--------------------------- MODULE PosReportTrace ---------------------------
(* Code -> spec binding for C20.  The harness calls PosReport.Message on    *)
(* real float64 inputs, parses the LATITUDE/LONGITUDE/COURSE lines of the   *)
(* produced body into integers and logs them with the exact input           *)
(* (floor/ceil of the magnitude in half-units, computed with math/big).     *)
EXTENDS PosReport, TraceLib

TraceInit == TraceInitTL /\ x2 = 0 /\ out = [deg |-> 0, min |-> 0] /\ done = FALSE

CoordOK(c, isLat) ==
    /\ c.form                                   \* matched ^D{2|3}-DD.DDDD[NSEW ]$
    /\ LET o == [deg |-> c.deg, min |-> c.min] IN
       /\ MinutesBelow60(o)
       /\ WithinHalfUnit(c.lo2, c.hi2, o)         \* coarse, in TLC integer arithmetic
       /\ FineWithinHalfUnit(c.dlo, c.dhi)         \* exact difference from math/big
    /\ HemOK(c.sign, isLat, c.hem)

TPos == /\ IsEvent("Pos")
        /\ Ev.valid                              \* Validate() = nil: the message can be sent
        /\ CoordOK(Ev.lat, TRUE) /\ CoordOK(Ev.lon, FALSE)
        /\ UNCHANGED vars /\ Consume

TCourse == /\ IsEvent("Course")
           /\ Ev.ok /\ Ev.str = CourseString(Ev.deg, Ev.mag)
           /\ Ev.line = Ev.str                   \* the COURSE line of the message carries it
           /\ UNCHANGED vars /\ Consume

(* optional fields appear iff set *)
TFields == /\ IsEvent("Fields")
           /\ Ev.valid
           /\ Ev.has.date
           /\ Ev.has.lat = Ev.set.pos /\ Ev.has.lon = Ev.set.pos
           /\ Ev.has.speed = Ev.set.speed
           /\ Ev.has.course = Ev.set.course
           /\ Ev.has.comment = Ev.set.comment
           /\ UNCHANGED vars /\ Consume

(* a report does not depend on what other goroutines are building at the same time *)
TConcurrent == IsEvent("Concurrent") /\ Ev.differ = 0 /\ UNCHANGED vars /\ Consume

TraceNext == TPos \/ TCourse \/ TFields \/ TConcurrent
TraceSpec == TraceInit /\ [][TraceNext]_<<vars, tvars>>
=============================================================================
