----------------------------- MODULE PosReport -----------------------------
(* C20: Winlink position reports.  A coordinate is modelled exactly, as an  *)
(* integer number of half-units (one unit = 1/10000 minute of arc), so that *)
(* "within half a ten-thousandth of a minute" is integer arithmetic.        *)
(* The module has two formatting algorithms as actions:                     *)
(*   RoundThenSplit  - the reference: round to the nearest unit, then split *)
(*                     into degrees and minutes;                             *)
(*   SplitThenRound  - the named deviation: split the real value first and  *)
(*                     round the minutes afterwards (minutes can print 60). *)
EXTENDS Integers, Sequences, TLC

CONSTANTS UPD,        \* units per degree (600000 for the real format)
          MaxDeg,     \* largest degree value of the explored range
          Algorithms  \* subset of {"RoundThenSplit", "SplitThenRound"} enabled in this configuration

VARIABLES x2,         \* input magnitude in half-units (exact)
          out,        \* [deg, min] in units
          done        \* formatted

vars == <<x2, out, done>>

Init == x2 \in 0..(2 * UPD * MaxDeg) /\ out = [deg |-> 0, min |-> 0] /\ done = FALSE

RoundThenSplit ==
    /\ "RoundThenSplit" \in Algorithms /\ ~done /\ done' = TRUE
    /\ LET u == (x2 + 1) \div 2 IN            \* nearest unit (ties up)
       out' = [deg |-> u \div UPD, min |-> u % UPD]
    /\ UNCHANGED x2

SplitThenRound ==
    /\ "SplitThenRound" \in Algorithms /\ ~done /\ done' = TRUE
    /\ LET d == x2 \div (2 * UPD)             \* int(dec)
           r2 == x2 % (2 * UPD)               \* remaining half-units: the fractional degree
       IN out' = [deg |-> d, min |-> (r2 + 1) \div 2]   \* %07.4f of the minutes: may reach UPD ("60.0000")
    /\ UNCHANGED x2

Next == RoundThenSplit \/ SplitThenRound
Spec == Init /\ [][Next]_vars

-----------------------------------------------------------------------------
(* The property, as predicates over an (input, output) pair; used by the     *)
(* design configuration as invariants and by the trace specification on the  *)
(* values parsed from the real message body.                                 *)

MinutesBelow60(o)  == o.min >= 0 /\ o.min < UPD
Value(o)           == o.deg * UPD + o.min
(* |Value(o) - x| <= 1/2 for the exact input x with lo2 = floor(2x), hi2 = ceil(2x) *)
WithinHalfUnit(lo2, hi2, o) == hi2 >= 2 * Value(o) - 1 /\ lo2 <= 2 * Value(o) + 1

(* fine test on the exact difference d = x - Value(o) in 1/1000 unit, dlo = floor(d), dhi = ceil(d).  Slack (one    *)
(* thousandth of a unit = 1e-7 minute) absorbs float64 noise exactly at rounding ties.                          *)
Slack == 1
FineWithinHalfUnit(dlo, dhi) == dlo >= -(500 + Slack) /\ dhi <= 500 + Slack

InvMinutes == done => MinutesBelow60(out)
InvValue   == done => WithinHalfUnit(x2, x2, out)

(* hemisphere letter for a signed input; at exactly zero a blank or a letter of the axis is accepted *)
HemOK(sign, isLat, h) ==
    CASE sign > 0 -> h = (IF isLat THEN "N" ELSE "E")
      [] sign < 0 -> h = (IF isLat THEN "S" ELSE "W")
      [] OTHER    -> h \in (IF isLat THEN {" ", "N", "S"} ELSE {" ", "E", "W"})

Digit == <<"0", "1", "2", "3", "4", "5", "6", "7", "8", "9">>
D(n)  == Digit[n + 1]
CourseString(deg, mag) ==
    LET d == deg % 360 IN
    D(d \div 100) \o D((d \div 10) % 10) \o D(d % 10) \o (IF mag THEN "M" ELSE "T")
=============================================================================
