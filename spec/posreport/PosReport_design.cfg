SPECIFICATION Spec
CONSTANTS UPD = 600  MaxDeg = 3  Algorithms = {"RoundThenSplit"}
INVARIANTS InvMinutes InvValue
CHECK_DEADLOCK FALSE
