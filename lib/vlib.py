"""Common machinery for the /verif checks: TLC runner, TLA+ value parser,
trace validation, harness build, evidence and verdict plumbing.

Exit codes of a check: 0 held, 1 violation (VIOLATION line printed), 2 undecided
(infrastructure problem; never reported as a violation).
"""
import json
import os
import re
import shutil
import subprocess
import sys
import time
import hashlib

VERIF = os.path.dirname(os.path.dirname(os.path.abspath(__file__)))
REPO = os.environ.get("VERIF_REPO", "/repo")
# evidence and replays of a run against anything but /repo itself (bin/mutant-test) are not kept in /verif
OUT = VERIF if REPO == "/repo" else os.environ.get("VERIF_REPLAYS", "/tmp/verif-out-%d" % os.getpid())
SPEC = os.path.join(VERIF, "spec")
HARNESS = os.path.join(VERIF, "harness")
TLC = os.path.join(VERIF, "bin", "tlc")
NCPU = os.cpu_count() or 4


class Undecided(Exception):
    """Machinery could not decide: exit 2, never a violation."""


def seed():
    try:
        return int(os.environ.get("VERIF_SEED", "1"))
    except ValueError:
        return 1


def go_env():
    env = dict(os.environ)
    env.update({"GOFLAGS": "-mod=mod", "GOPROXY": "off"})
    env.pop("GOSUMDB", None)  # GOSUMDB=off breaks the offline toolchain switch (probed)
    env.setdefault("GOTOOLCHAIN", "auto")
    return env


class Ctx:
    """Per-run context: scratch dir, timing, counters, evidence."""

    def __init__(self, pid, tier):
        self.pid = pid
        self.tier = tier
        self.t0 = time.time()
        self.seed = seed()
        self.work = os.path.join(VERIF, ".work", "%s-%d" % (pid, os.getpid()))
        shutil.rmtree(self.work, ignore_errors=True)
        os.makedirs(self.work)
        self.states = 0
        self.transitions = 0
        self.tlc_runs = []
        self.violations = []      # list of dicts (key, what, replay)
        self.known_seen = []
        self.drift = []
        self.notes = []

    def path(self, *p):
        d = os.path.join(self.work, *p)
        os.makedirs(os.path.dirname(d), exist_ok=True)
        return d

    def cleanup(self):
        shutil.rmtree(self.work, ignore_errors=True)
        try:
            os.rmdir(os.path.join(VERIF, ".work"))
        except OSError:
            pass


# ---------------------------------------------------------------- harness build

def build_harness(ctx, race=False, tags="verif"):
    """Rebuild the Go harness against /repo's current working tree (VERIF_REPO, used by bin/mutant-test to point at a
    scratch copy with a seeded change, selects another tree through an alternate module file)."""
    out = ctx.path("bin", "verif-race" if race else "verif")
    cmd = ["go", "build", "-tags", tags]
    if REPO == "/repo":
        shutil.copyfile(os.path.join(REPO, "go.sum"), os.path.join(HARNESS, "go.sum"))
    else:
        alt = ctx.path("alt.mod")
        with open(os.path.join(HARNESS, "go.mod")) as f:
            mod = f.read().replace("=> /repo", "=> " + REPO)
        with open(alt, "w") as f:
            f.write(mod)
        shutil.copyfile(os.path.join(REPO, "go.sum"), ctx.path("alt.sum"))
        cmd.append("-modfile=" + alt)
    if race:
        cmd.append("-race")
    cmd += ["-o", out, "./cmd/verif"]
    env = go_env()
    env["VERIF_REPO"] = REPO
    p = subprocess.run(cmd, cwd=HARNESS, env=env, stdout=subprocess.PIPE,
                       stderr=subprocess.STDOUT, text=True)
    if p.returncode != 0:
        # A tree that does not compile cannot be judged.
        raise Undecided("harness build failed:\n" + p.stdout[-4000:])
    return out


def run_harness(ctx, binary, args, timeout=3600, env=None, stdin=None):
    e = go_env()
    e["VERIF_SEED"] = str(ctx.seed)
    e["VERIF_TIER"] = ctx.tier
    if env:
        e.update(env)
    p = subprocess.run([binary] + args, env=e, stdout=subprocess.PIPE,
                       stderr=subprocess.PIPE, text=True, timeout=timeout, input=stdin)
    return p


# ---------------------------------------------------------------- TLC

class TLCResult:
    def __init__(self):
        self.rc = None
        self.out = ""
        self.generated = 0
        self.distinct = 0
        self.depth = 0
        self.error = None        # first "Error:" line
        self.violated = None     # name of violated invariant / property
        self.printed = []        # PrintT'ed values (parsed)
        self.wall = 0.0
        self.coverage = {}

    @property
    def ok(self):
        return self.rc == 0 and self.error is None


_re_states = re.compile(r"^(\d+) states generated, (\d+) distinct states found, (\d+) states left on queue")
_re_depth = re.compile(r"depth of the complete state graph search is (\d+)")
_re_inv = re.compile(r"Error: Invariant (\S+) is violated")
_re_prop = re.compile(r"Error: (?:Action property|Temporal properties|Postcondition|Deadlock)(.*)")


def tlc(ctx, specdir, module, cfg, workers=None, args=(), env=None, timeout=900,
        java_opts="", name=None, copy=True, simulate=False):
    """Run TLC on spec/<specdir>/<module>.tla with config cfg in a scratch copy."""
    name = name or (module + "-" + os.path.splitext(os.path.basename(cfg))[0])
    if copy:
        run_dir = ctx.path("tlc", name, "x")[:-2]
        src = os.path.join(SPEC, specdir)
        for f in os.listdir(src):
            if f.endswith((".tla", ".cfg", ".json")):
                shutil.copy(os.path.join(src, f), run_dir)
        # shared modules
        for f in os.listdir(os.path.join(SPEC, "common")):
            if f.endswith(".tla"):
                shutil.copy(os.path.join(SPEC, "common", f), run_dir)
    else:
        run_dir = specdir
    md = os.path.join(run_dir, "md")
    cmd = ["timeout", str(timeout), TLC, "-metadir", md, "-config", cfg,
           "-workers", str(workers or "auto")] + list(args) + [module + ".tla"]
    e = dict(os.environ)
    jtmp = ctx.path("jtmp", "x")[:-2]
    os.makedirs(jtmp, exist_ok=True)
    e["TLC_JAVA_OPTS"] = ("-Djava.io.tmpdir=%s %s" % (jtmp, java_opts)).strip()
    if env:
        e.update({k: str(v) for k, v in env.items()})
    t0 = time.time()
    p = subprocess.run(cmd, cwd=run_dir, env=e, stdout=subprocess.PIPE,
                       stderr=subprocess.STDOUT, text=True, errors="replace")
    r = TLCResult()
    r.wall = time.time() - t0
    r.rc = p.returncode
    r.out = p.stdout
    r.run_dir = run_dir
    for line in p.stdout.splitlines():
        m = _re_states.match(line)
        if m:
            r.generated, r.distinct = int(m.group(1)), int(m.group(2))
        m = _re_depth.search(line)
        if m:
            r.depth = int(m.group(1))
        if line.startswith("Error:") and r.error is None:
            r.error = line
            m = _re_inv.match(line)
            if m:
                r.violated = m.group(1)
        if line.startswith("<<") and line.rstrip().endswith(">>"):
            try:
                r.printed.append(parse_tla(line.strip()))
            except Exception:
                pass
    if simulate:
        m = re.search(r"(\d+) states checked", p.stdout)
        if m:
            r.generated = int(m.group(1))
            r.distinct = r.distinct or 0
    shutil.rmtree(md, ignore_errors=True)
    if p.returncode == 124:
        raise Undecided("TLC timeout after %ds on %s/%s" % (timeout, specdir, module))
    if "java.lang.OutOfMemoryError" in p.stdout or "StackOverflowError" in p.stdout:
        raise Undecided("TLC resource error on %s/%s:\n%s" % (specdir, module, p.stdout[-2000:]))
    if r.rc not in (0, 10, 11, 12, 13) and r.error is None:
        raise Undecided("TLC failed rc=%s on %s/%s:\n%s" % (r.rc, specdir, module, p.stdout[-3000:]))
    if r.error and ("Parsing or semantic analysis failed" in p.stdout or "TLC threw an unexpected exception" in p.stdout
                    or "evaluating" in r.error and "Attempted" in p.stdout):
        raise Undecided("TLC evaluation/parse error on %s/%s:\n%s" % (specdir, module, p.stdout[-3000:]))
    ctx.states += r.distinct
    ctx.transitions += r.generated
    ctx.tlc_runs.append({"module": module, "cfg": cfg, "generated": r.generated, "distinct": r.distinct,
                         "depth": r.depth, "wall_s": round(r.wall, 2), "rc": r.rc,
                         "error": r.error})
    return r


def design_check(ctx, specdir, module, cfg, expect_ok=True, **kw):
    """Run an exhaustive design configuration; the design must satisfy its properties.
    A failing *design* run is an infrastructure problem (the model is wrong), exit 2."""
    r = tlc(ctx, specdir, module, cfg, **kw)
    if expect_ok and not r.ok:
        raise Undecided("design configuration %s/%s %s does not hold: %s\n%s" %
                        (specdir, module, cfg, r.error, r.out[-3000:]))
    if r.distinct == 0:
        raise Undecided("design configuration %s/%s %s explored no states" % (specdir, module, cfg))
    return r


def validate_traces(ctx, specdir, module, cfg, trace_file, ntraces, timeout=1800, env=None, name=None,
                    java_opts=""):
    """Validate recorded traces against a trace specification.
    Returns (accepted_count, rejected) where rejected is a list of (trace_no, first_unmatched_index)."""
    e = {"TRACES": trace_file}
    if env:
        e.update(env)
    r = tlc(ctx, specdir, module, cfg, workers=1, env=e, timeout=timeout, name=name or (module + "-tv"),
            java_opts=java_opts)
    rejected = []
    for v in r.printed:
        if isinstance(v, list) and len(v) >= 3 and v[0] == "REJECT":
            rejected.append((v[1], v[2]))
    if r.error and not rejected:
        if r.violated:
            # an invariant of the module failed on an observed execution: find which trace
            t, l = _trace_pos_from_cex(r.out)
            rejected.append((t, l if l is not None else -1))
        else:
            raise Undecided("trace validation run failed without a verdict (%s):\n%s" % (r.error, r.out[-3000:]))
    accepted = ntraces - len(set(t for t, _ in rejected))
    return accepted, sorted(set(rejected)), r


def _trace_pos_from_cex(out):
    t = l = None
    for m in re.finditer(r"/\\ t = (\d+)", out):
        t = int(m.group(1))
    for m in re.finditer(r"/\\ l = (\d+)", out):
        l = int(m.group(1))
    return t, l


# ---------------------------------------------------------------- TLA+ value parser

class _P:
    def __init__(self, s):
        self.s = s
        self.i = 0

    def ws(self):
        while self.i < len(self.s) and self.s[self.i] in " \t\r\n":
            self.i += 1

    def peek(self, k=1):
        return self.s[self.i:self.i + k]

    def expect(self, tok):
        self.ws()
        if self.s[self.i:self.i + len(tok)] != tok:
            raise ValueError("expected %r at %d: %r" % (tok, self.i, self.s[self.i:self.i + 30]))
        self.i += len(tok)

    def value(self):
        self.ws()
        c = self.peek()
        if c == '"':
            return self.string()
        if c == "<" and self.peek(2) == "<<":
            self.i += 2
            items = []
            self.ws()
            if self.peek(2) == ">>":
                self.i += 2
                return items
            while True:
                items.append(self.value())
                self.ws()
                if self.peek(2) == ">>":
                    self.i += 2
                    return items
                self.expect(",")
        if c == "{":
            self.i += 1
            items = []
            self.ws()
            if self.peek() == "}":
                self.i += 1
                return {"$set": items}
            while True:
                items.append(self.value())
                self.ws()
                if self.peek() == "}":
                    self.i += 1
                    return {"$set": items}
                self.expect(",")
        if c == "[":
            self.i += 1
            rec = {}
            self.ws()
            if self.peek() == "]":
                self.i += 1
                return rec
            while True:
                self.ws()
                m = re.match(r"[A-Za-z_0-9]+", self.s[self.i:])
                k = m.group(0)
                self.i += len(k)
                self.expect("|->")
                rec[k] = self.value()
                self.ws()
                if self.peek() == "]":
                    self.i += 1
                    return rec
                self.expect(",")
        if c == "(":
            # function: (k :> v @@ k :> v)
            self.i += 1
            fn = {}
            while True:
                k = self.value()
                self.expect(":>")
                v = self.value()
                fn[k if isinstance(k, (str, int)) else json.dumps(k, sort_keys=True)] = v
                self.ws()
                if self.peek() == ")":
                    self.i += 1
                    return fn
                self.expect("@@")
        m = re.match(r"-?\d+", self.s[self.i:])
        if m:
            self.i += len(m.group(0))
            # range a..b
            self.ws()
            if self.peek(2) == "..":
                self.i += 2
                b = self.value()
                return {"$set": list(range(int(m.group(0)), b + 1))}
            return int(m.group(0))
        m = re.match(r"[A-Za-z_][A-Za-z_0-9]*", self.s[self.i:])
        if m:
            self.i += len(m.group(0))
            w = m.group(0)
            if w == "TRUE":
                return True
            if w == "FALSE":
                return False
            return {"$mv": w}
        raise ValueError("cannot parse at %d: %r" % (self.i, self.s[self.i:self.i + 40]))

    def string(self):
        assert self.s[self.i] == '"'
        self.i += 1
        out = []
        while True:
            c = self.s[self.i]
            if c == "\\":
                n = self.s[self.i + 1]
                out.append({"n": "\n", "t": "\t", "r": "\r", "f": "\f"}.get(n, n))
                self.i += 2
            elif c == '"':
                self.i += 1
                return "".join(out)
            else:
                out.append(c)
                self.i += 1


def parse_tla(s):
    p = _P(s)
    v = p.value()
    p.ws()
    if p.i != len(p.s):
        raise ValueError("trailing text: %r" % p.s[p.i:p.i + 40])
    return v


def parse_state(label):
    """Parse a TLC state printed as a conjunction '/\\ v = value /\\ w = value'."""
    p = _P(label)
    st = {}
    while True:
        p.ws()
        if p.i >= len(p.s):
            return st
        if p.peek(2) == "/\\":
            p.i += 2
        p.ws()
        m = re.match(r"[A-Za-z_][A-Za-z_0-9]*", p.s[p.i:])
        if not m:
            raise ValueError("state parse at %d: %r" % (p.i, p.s[p.i:p.i + 40]))
        k = m.group(0)
        p.i += len(k)
        p.expect("=")
        st[k] = p.value()


_re_node = re.compile(r'^(-?\d+) \[label="((?:[^"\\]|\\.)*)"')
_re_edge = re.compile(r'^(-?\d+) -> (-?\d+)(?: \[label="([^"]*)")?')


def _dot_unescape(s):
    out = []
    i = 0
    while i < len(s):
        c = s[i]
        if c == "\\" and i + 1 < len(s):
            n = s[i + 1]
            out.append("\n" if n == "n" else n)
            i += 2
        else:
            out.append(c)
            i += 1
    return "".join(out)


def read_dot(path):
    """Read a TLC '-dump dot,actionlabels' graph. Returns (nodes: id->state dict, edges: [(u,v,label)], inits)."""
    nodes, edges, inits = {}, [], []
    with open(path, errors="replace") as f:
        for line in f:
            line = line.rstrip("\n")
            m = _re_edge.match(line)
            if m:
                edges.append((m.group(1), m.group(2), m.group(3) or ""))
                continue
            m = _re_node.match(line)
            if m:
                lab = _dot_unescape(m.group(2))
                nodes[m.group(1)] = parse_state(lab)
                if "style = filled" in line:
                    inits.append(m.group(1))
    return nodes, edges, inits


# ---------------------------------------------------------------- verdicts / evidence

def load_known():
    p = os.path.join(VERIF, "known_findings.json")
    if not os.path.exists(p):
        return []
    with open(p) as f:
        return json.load(f).get("findings", [])


def report_violation(ctx, key, what, replay_obj):
    """Record a violation of ctx.pid with finding key `key`. Listed findings become KNOWN-FINDING lines."""
    for k in load_known():
        if k.get("property") == ctx.pid and k.get("status") == "finding" and k.get("key") == key:
            if key not in [x["key"] for x in ctx.known_seen]:
                print("KNOWN-FINDING: property=%s %s" % (ctx.pid, k.get("what", what)))
                ctx.known_seen.append({"key": key, "what": what})
            return False
    if key in [v["key"] for v in ctx.violations]:
        # same finding key seen again: count it, one replay per key is enough
        ctx.violations.append({"key": key, "what": what, "replay": None})
        return True
    n = len(set(v["key"] for v in ctx.violations)) + 1
    d = os.path.join(OUT, "replays", ctx.pid)
    os.makedirs(d, exist_ok=True)
    path = os.path.join(d, "%d.json" % n)
    if n <= 20:
        with open(path, "w") as f:
            json.dump({"property": ctx.pid, "key": key, "what": what, "seed": ctx.seed,
                       "tier": ctx.tier, "replay": replay_obj}, f, indent=1, default=str)
        print("VIOLATION property=%s replay=%s" % (ctx.pid, path))
        print("  key=%s %s" % (key, what))
    ctx.violations.append({"key": key, "what": what, "replay": path})
    return True


def write_evidence(ctx, level, coverage, assumptions):
    cov = dict(coverage)
    cov.setdefault("states", ctx.states)
    cov.setdefault("transitions", ctx.transitions)
    cov.setdefault("traces_validated_against_impl", 0)
    cov.setdefault("evaluations", 0)
    cov.setdefault("distinct_nontrivial", 0)
    cov.setdefault("rule", "")
    cov.setdefault("samples", [])
    cov["tlc_runs"] = ctx.tlc_runs
    cov["known_findings_seen"] = ctx.known_seen
    cov["spec_drift"] = ctx.drift
    if ctx.notes:
        cov["notes"] = ctx.notes
    ev = {
        "property_id": ctx.pid,
        "tier": ctx.tier,
        "seed": ctx.seed,
        "level": level,
        "coverage": cov,
        "assumptions": assumptions,
        "wall_s": round(time.time() - ctx.t0, 2),
        "violations": len(ctx.violations),
    }
    os.makedirs(os.path.join(OUT, "evidence"), exist_ok=True)
    with open(os.path.join(OUT, "evidence", ctx.pid + ".json"), "w") as f:
        json.dump(ev, f, indent=1, default=str)


def read_ndjson(path):
    out = []
    with open(path) as f:
        for line in f:
            line = line.strip()
            if line:
                out.append(json.loads(line))
    return out


def write_ndjson(path, rows):
    with open(path, "w") as f:
        for r in rows:
            f.write(json.dumps(r, separators=(",", ":")) + "\n")


def hkey(obj):
    return hashlib.sha1(json.dumps(obj, sort_keys=True, default=str).encode()).hexdigest()[:12]


def main_wrapper(pid, fn):
    """Entry point used by bin/check: runs fn(ctx), maps exceptions to exit codes."""
    tier = os.environ.get("VERIF_TIER", "quick")
    args = sys.argv[2:]
    replay = None
    i = 0
    while i < len(args):
        if args[i] == "--tier":
            tier = args[i + 1]
            i += 2
        elif args[i] == "--replay":
            replay = args[i + 1]
            i += 2
        else:
            i += 1
    if tier not in ("quick", "thorough"):
        tier = "quick"
    ctx = Ctx(pid, tier)
    ctx.replay = replay
    # clear old replays of this property
    shutil.rmtree(os.path.join(OUT, "replays", pid), ignore_errors=True)
    try:
        fn(ctx)
    except Undecided as e:
        print("UNDECIDED property=%s: %s" % (pid, e))
        ctx.cleanup()
        sys.exit(2)
    except subprocess.TimeoutExpired as e:
        print("UNDECIDED property=%s: timeout %s" % (pid, e))
        ctx.cleanup()
        sys.exit(2)
    keep = os.environ.get("VERIF_KEEP")
    if not keep:
        ctx.cleanup()
    if ctx.violations:
        sys.exit(1)
    print("OK property=%s tier=%s seed=%d wall=%.1fs states=%d" % (pid, tier, ctx.seed, time.time() - ctx.t0, ctx.states))
    sys.exit(0)
